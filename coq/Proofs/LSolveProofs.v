(* Proofs/LSolveProofs.v — exact-arithmetic (Q) theorems about the literal model of lsolve.
   Rounding is NOT modelled here: these are statements about the algorithm in exact
   arithmetic (the float instance of the same Gallina function is tied to CPython
   bit-exactly by the correspondence check). *)
From Coq Require Import ZArith QArith Qabs Qfield Lqa List Bool Lia Arith Permutation.
Import ListNotations.
From PV Require Import Model.LSolve.
Close Scope Q_scope.
Open Scope nat_scope.

(* ------------------------------------------------------------------ *)
(* generic list / fold lemmas (also used by EigSortProofs)            *)
(* ------------------------------------------------------------------ *)
Lemma upd_length {X} (l : list X) i v : length (upd l i v) = length l.
Proof. revert i; induction l as [|h t IH]; intros [|i]; simpl; auto. Qed.

Lemma nth_upd_eq {X} (l : list X) i v d : i < length l -> nth i (upd l i v) d = v.
Proof. revert i; induction l as [|h t IH]; intros [|i] H; simpl in *; try lia; auto. apply IH; lia. Qed.

Lemma nth_upd_neq {X} (l : list X) i j v d : j <> i -> nth j (upd l i v) d = nth j l d.
Proof.
  revert i j; induction l as [|h t IH]; intros [|i] [|j] H; simpl; auto; try lia.
Qed.

Lemma upd_oob {X} (l : list X) i v : length l <= i -> upd l i v = l.
Proof. revert i; induction l as [|h t IH]; intros [|i] H; simpl in *; auto; try lia. f_equal; apply IH; lia. Qed.

Lemma map_upd {X Y} (f : X -> Y) l i v : map f (upd l i v) = upd (map f l) i (f v).
Proof. revert i; induction l as [|h t IH]; intros [|i]; simpl; auto. f_equal; apply IH. Qed.

Lemma upd_comm {X} (l : list X) i j a b : i <> j -> upd (upd l i a) j b = upd (upd l j b) i a.
Proof.
  revert i j; induction l as [|h t IH]; intros [|i] [|j] H; simpl; auto; try lia.
  f_equal; apply IH; lia.
Qed.

Lemma nth_swap {X} (d : X) l p m k : p < length l -> m < length l ->
  nth k (swap d l p m) d = if Nat.eqb k m then nth p l d else if Nat.eqb k p then nth m l d else nth k l d.
Proof.
  intros Hp Hm. unfold swap.
  destruct (Nat.eqb_spec k m) as [->|Nm].
  - rewrite nth_upd_eq; auto. rewrite upd_length; auto.
  - rewrite nth_upd_neq by auto. destruct (Nat.eqb_spec k p) as [->|Np].
    + rewrite nth_upd_eq; auto.
    + rewrite nth_upd_neq; auto.
Qed.

Lemma swap_length {X} (d : X) l p m : length (swap d l p m) = length l.
Proof. unfold swap. now rewrite !upd_length. Qed.

(* for i in range(a, a+n): s = f s i   — invariant rule *)
Lemma fold_seq_ind {S} (P : nat -> S -> Prop) (f : S -> nat -> S) :
  forall n a s, P a s ->
    (forall i s, a <= i < a + n -> P i s -> P (Datatypes.S i) (f s i)) ->
    P (a + n) (fold_left f (seq a n) s).
Proof.
  induction n as [|n IH]; intros a s H0 Hs; simpl.
  - now rewrite Nat.add_0_r.
  - rewrite <- Nat.add_succ_comm. apply IH.
    + apply Hs; [lia|auto].
    + intros i s' Hi. apply Hs. lia.
Qed.

(* for i in range(m-1, -1, -1): s = f s i   — invariant rule *)
Lemma fold_down_ind {S} (P : nat -> S -> Prop) (f : S -> nat -> S) :
  forall m s, P m s ->
    (forall i s, i < m -> P (Datatypes.S i) s -> P i (f s i)) ->
    P 0 (fold_left f (rev (seq 0 m)) s).
Proof.
  induction m as [|m IH]; intros s H0 Hs; [simpl; auto|].
  rewrite seq_S, rev_app_distr. simpl. apply IH.
  - apply Hs; [lia|auto].
  - intros i s' Hi. apply Hs. lia.
Qed.

(* ------------------------------------------------------------------ *)
(* index-level view of matrices over Q                                *)
(* ------------------------------------------------------------------ *)
Open Scope Q_scope.

Notation vat l i := (nth i l 0).
Notation mat A i j := (nth j (nth i A []) 0).

Definition wfA (N : nat) (A : list (list Q)) : Prop :=
  length A = N /\ forall i, (i < N)%nat -> length (nth i A []) = N.
Definition wf (N : nat) (A : list (list Q)) (b : list Q) : Prop := wfA N A /\ length b = N.

(* sum_{j=a}^{a+n-1} f j *)
Fixpoint sumr (a n : nat) (f : nat -> Q) : Q :=
  match n with O => 0 | S k => f a + sumr (S a) k f end.

Lemma sumr_ext a n f g : (forall j, (a <= j < a + n)%nat -> f j == g j) -> sumr a n f == sumr a n g.
Proof.
  revert a; induction n as [|n IH]; intros a H; simpl; [reflexivity|].
  rewrite (H a) by lia. rewrite (IH (S a)); [reflexivity|]. intros j Hj; apply H; lia.
Qed.

Lemma sumr_zero a n f : (forall j, (a <= j < a + n)%nat -> f j == 0) -> sumr a n f == 0.
Proof.
  revert a; induction n as [|n IH]; intros a H; simpl; [reflexivity|].
  rewrite (H a) by lia. rewrite (IH (S a)); [ring|]. intros j Hj; apply H; lia.
Qed.

Lemma sumr_app a n m f : sumr a (n + m) f == sumr a n f + sumr (a + n) m f.
Proof.
  revert a; induction n as [|n IH]; intros a; simpl.
  - rewrite Nat.add_0_r. ring.
  - rewrite IH. rewrite <- Nat.add_succ_comm. ring.
Qed.

Lemma sumr_split a n k f : (k < n)%nat ->
  sumr a n f == sumr a k f + f (a + k)%nat + sumr (S (a + k)) (n - S k) f.
Proof.
  intro H. replace n with (k + S (n - S k))%nat at 1 by lia.
  rewrite sumr_app. simpl. ring.
Qed.

Lemma sumr_lin a n f g c : sumr a n (fun j => f j - c * g j) == sumr a n f - c * sumr a n g.
Proof. revert a; induction n as [|n IH]; intros a; simpl; [ring|]. rewrite IH. ring. Qed.

Lemma sumr_plus a n f g : sumr a n (fun j => f j + g j) == sumr a n f + sumr a n g.
Proof. revert a; induction n as [|n IH]; intros a; simpl; [ring|]. rewrite IH. ring. Qed.

Lemma fold_add_sumr f : forall n a s,
  fold_left (fun s j => s + f j) (seq a n) s == s + sumr a n f.
Proof.
  induction n as [|n IH]; intros a s; simpl; [ring|]. rewrite IH. ring.
Qed.

(* row i of A times z *)
Definition rowsum (N : nat) (A : list (list Q)) (z : list Q) (i : nat) : Q :=
  sumr 0 N (fun j => mat A i j * vat z j).

(* A z = b, index form *)
Definition solves (N : nat) (A : list (list Q)) (b z : list Q) : Prop :=
  forall i, (i < N)%nat -> rowsum N A z i == vat b i.
(* A y = 0 *)
Definition kern (N : nat) (A : list (list Q)) (y : list Q) : Prop :=
  forall i, (i < N)%nat -> rowsum N A y i == 0.

Definition lowzero (N p : nat) (A : list (list Q)) : Prop :=
  forall i j, (i < N)%nat -> (j < p)%nat -> (j < i)%nat -> mat A i j == 0.
Definition diagnz (p : nat) (A : list (list Q)) : Prop :=
  forall i, (i < p)%nat -> ~ mat A i i == 0.

(* ------------------------------------------------------------------ *)
(* closed forms of the loops                                          *)
(* ------------------------------------------------------------------ *)
Lemma row_elim_spec N p alpha ri rp : length ri = N -> (p <= N)%nat ->
  length (row_elimQ N p alpha ri rp) = N /\
  forall j, vat (row_elimQ N p alpha ri rp) j =
            if (p <=? j)%nat && (j <? N)%nat then vat ri j - alpha * vat rp j else vat ri j.
Proof.
  intros Hl Hp. unfold row_elimQ, row_elim.
  pose (P := fun (k : nat) (r : list Q) => length r = N /\
     forall j, vat r j = if (p <=? j)%nat && (j <? k)%nat then vat ri j - alpha * vat rp j else vat ri j).
  assert (H : P (p + (N - p))%nat
     (fold_left (fun r j => upd r j (get Q 0 r j - alpha * get Q 0 rp j)) (seq p (N - p)) ri)).
  { apply fold_seq_ind.
    - split; auto. intro j. destruct (Nat.leb_spec p j), (Nat.ltb_spec j p); simpl; auto; lia.
    - intros i r Hi [Hlr Hr]. split; [now rewrite upd_length|].
      intro j. destruct (Nat.eq_dec j i) as [->|Nj].
      + rewrite nth_upd_eq by lia. unfold get. rewrite Hr.
        destruct (Nat.leb_spec p i), (Nat.ltb_spec i i), (Nat.ltb_spec i (S i)); simpl; auto; lia.
      + rewrite nth_upd_neq by auto. rewrite Hr.
        destruct (Nat.leb_spec p j), (Nat.ltb_spec j i), (Nat.ltb_spec j (S i)); simpl; auto; lia. }
  replace (p + (N - p))%nat with N in H by lia. exact H.
Qed.

Lemma elim_rows_spec N p A b : wf N A b -> (p < N)%nat -> ~ mat A p p == 0 ->
  exists A' b', elim_rowsQ N p A b = Some (A', b') /\ wf N A' b' /\
    (forall i j, mat A' i j =
       if (p <? i)%nat && (i <? N)%nat && (p <=? j)%nat && (j <? N)%nat
       then mat A i j - (mat A i p / mat A p p) * mat A p j else mat A i j) /\
    (forall i, vat b' i =
       if (p <? i)%nat && (i <? N)%nat then vat b i - (mat A i p / mat A p p) * vat b p else vat b i).
Proof.
  intros [[HA Hrows] Hb] Hp Hnz. unfold elim_rowsQ, elim_rows.
  pose (P := fun (k : nat) (st : option (list (list Q) * list Q)) =>
     exists A' b', st = Some (A', b') /\ wf N A' b' /\
       (forall i, nth i A' [] = if (p <? i)%nat && (i <? k)%nat
                                then row_elimQ N p (mat A i p / mat A p p) (nth i A []) (nth p A [])
                                else nth i A []) /\
       (forall i, vat b' i = if (p <? i)%nat && (i <? k)%nat
                             then vat b i - (mat A i p / mat A p p) * vat b p else vat b i)).
  match goal with |- exists A' b', fold_left ?f ?l ?s = _ /\ _ => assert (H : P (S p + (N - S p))%nat (fold_left f l s)) end.
  { apply fold_seq_ind.
    - exists A, b. repeat split; auto.
      + intro i. destruct (Nat.ltb_spec p i), (Nat.ltb_spec i (S p)); simpl; auto; lia.
      + intro i. destruct (Nat.ltb_spec p i), (Nat.ltb_spec i (S p)); simpl; auto; lia.
    - intros i st Hi (A' & b' & -> & [[HA' Hrows'] Hb'] & HrA & Hrb).
      unfold get, row.
      assert (Epp : nth p A' [] = nth p A []).
      { rewrite HrA. destruct (Nat.ltb_spec p p); simpl; auto; lia. }
      assert (Eii : nth i A' [] = nth i A []).
      { rewrite HrA. destruct (Nat.ltb_spec p i), (Nat.ltb_spec i i); simpl; auto; lia. }
      rewrite Epp, Eii.
      unfold Qeq0. destruct (Qeq_bool (mat A p p) 0) eqn:E0.
      { apply Qeq_bool_iff in E0. contradiction. }
      eexists _, _. split; [reflexivity|]. split; [|split].
      + split; [split|].
        * now rewrite upd_length.
        * intros k Hk. destruct (Nat.eq_dec k i) as [->|Nk].
          -- rewrite nth_upd_eq by lia. apply (row_elim_spec N p); [apply Hrows|]; lia.
          -- rewrite nth_upd_neq by auto. now apply Hrows'.
        * now rewrite upd_length.
      + intro k. destruct (Nat.eq_dec k i) as [->|Nk].
        * rewrite nth_upd_eq by lia.
          destruct (Nat.ltb_spec p i), (Nat.ltb_spec i (S i)); simpl; auto; lia.
        * rewrite nth_upd_neq by auto. rewrite HrA.
          destruct (Nat.ltb_spec p k), (Nat.ltb_spec k i), (Nat.ltb_spec k (S i)); simpl; auto; lia.
      + intro k. destruct (Nat.eq_dec k i) as [->|Nk].
        * rewrite nth_upd_eq by lia.
          assert (Ebi : vat b' i = vat b i).
          { rewrite Hrb. destruct (Nat.ltb_spec p i), (Nat.ltb_spec i i); simpl; auto; lia. }
          assert (Ebp : vat b' p = vat b p).
          { rewrite Hrb. destruct (Nat.ltb_spec p p); simpl; auto; lia. }
          rewrite Ebi, Ebp.
          destruct (Nat.ltb_spec p i), (Nat.ltb_spec i (S i)); simpl; auto; lia.
        * rewrite nth_upd_neq by auto. rewrite Hrb.
          destruct (Nat.ltb_spec p k), (Nat.ltb_spec k i), (Nat.ltb_spec k (S i)); simpl; auto; lia. }
  replace (S p + (N - S p))%nat with N in H by lia.
  destruct H as (A' & b' & E & W & HrA & Hrb).
  exists A', b'. split; [exact E|]. split; [exact W|]. split; [|exact Hrb].
  intros i j. rewrite HrA.
  destruct (Nat.ltb_spec p i), (Nat.ltb_spec i N); simpl; auto.
  destruct (row_elim_spec N p (mat A i p / mat A p p) (nth i A []) (nth p A [])) as [_ Hj];
    [apply Hrows; lia | lia |].
  rewrite Hj. reflexivity.
Qed.

(* ------------------------------------------------------------------ *)
(* pivot search                                                       *)
(* ------------------------------------------------------------------ *)
Lemma pivot_spec A N p : (p < N)%nat ->
  (p <= pivotQ A N p < N)%nat /\
  forall k, (p <= k < N)%nat -> Qabs (mat A k p) <= Qabs (mat A (pivotQ A N p) p).
Proof.
  intro Hp. unfold pivotQ, pivot.
  pose (P := fun (m mx : nat) => (p <= mx < m)%nat /\
     forall k, (p <= k < m)%nat -> Qabs (mat A k p) <= Qabs (mat A mx p)).
  match goal with |- (_ <= fold_left ?f ?l ?s < _)%nat /\ _ => assert (H : P (S p + (N - S p))%nat (fold_left f l s)) end.
  { apply fold_seq_ind.
    - split; [lia|]. intros k Hk. assert (k = p) by lia. subst. apply Qle_refl.
    - intros i mx Hi [Hr Hm]. unfold get, row, Qgtb.
      destruct (Qle_bool (Qabs (mat A i p)) (Qabs (mat A mx p))) eqn:E; simpl.
      + apply Qle_bool_iff in E. split; [lia|]. intros k Hk.
        destruct (Nat.eq_dec k i) as [->|Nk]; [exact E|]. apply Hm; lia.
      + assert (Hlt : Qabs (mat A mx p) < Qabs (mat A i p)).
        { apply Qnot_le_lt. intro C. apply Qle_bool_iff in C. congruence. }
        split; [lia|]. intros k Hk.
        destruct (Nat.eq_dec k i) as [->|Nk]; [apply Qle_refl|].
        apply Qle_trans with (Qabs (mat A mx p)); [apply Hm; lia|]. now apply Qlt_le_weak. }
  replace (S p + (N - S p))%nat with N in H by lia. exact H.
Qed.

(* ------------------------------------------------------------------ *)
(* row operations preserve the solution set                           *)
(* ------------------------------------------------------------------ *)
Definition solvesf (N : nat) (A : list (list Q)) (beta : nat -> Q) (z : list Q) : Prop :=
  forall i, (i < N)%nat -> rowsum N A z i == beta i.

Definition sigma (p m k : nat) : nat := if Nat.eqb k m then p else if Nat.eqb k p then m else k.

Ltac nat_eqb :=
  repeat (match goal with
          | |- context [Nat.eqb ?a ?b] => is_var a; is_var b; destruct (Nat.eqb_spec a b)
          end; cbv iota).

Lemma sigma_invol p m k : sigma p m (sigma p m k) = k.
Proof. unfold sigma. nat_eqb; try lia. Qed.

Lemma sigma_lt p m k N : (p < N)%nat -> (m < N)%nat -> (k < N)%nat -> (sigma p m k < N)%nat.
Proof. unfold sigma. nat_eqb; try lia. Qed.

Lemma swap_rows_nth (A : list (list Q)) p m k : (p < length A)%nat -> (m < length A)%nat ->
  nth k (swap [] A p m) [] = nth (sigma p m k) A [].
Proof. intros. rewrite nth_swap by auto. unfold sigma. nat_eqb; auto. Qed.

Lemma swap_vec_nth (b : list Q) p m k : (p < length b)%nat -> (m < length b)%nat ->
  vat (swap 0 b p m) k = vat b (sigma p m k).
Proof. intros. rewrite nth_swap by auto. unfold sigma. nat_eqb; auto. Qed.

Lemma swap_equiv N A p m beta z : length A = N -> (p < N)%nat -> (m < N)%nat ->
  (solvesf N (swap [] A p m) (fun k => beta (sigma p m k)) z <-> solvesf N A beta z).
Proof.
  intros HA Hp Hm. unfold solvesf, rowsum. split; intros H i Hi.
  - specialize (H (sigma p m i) (sigma_lt _ _ _ _ Hp Hm Hi)).
    rewrite sigma_invol in H. rewrite <- H.
    apply sumr_ext. intros j _. rewrite swap_rows_nth by lia. rewrite sigma_invol. reflexivity.
  - rewrite <- (H (sigma p m i) (sigma_lt _ _ _ _ Hp Hm Hi)).
    apply sumr_ext. intros j _. rewrite swap_rows_nth by lia. reflexivity.
Qed.

Lemma rowsum_elim N p A1 A2 z : (p < N)%nat ->
  (forall j, (j < p)%nat -> mat A1 p j == 0) ->
  (forall i j, mat A2 i j =
       if (p <? i)%nat && (i <? N)%nat && (p <=? j)%nat && (j <? N)%nat
       then mat A1 i j - (mat A1 i p / mat A1 p p) * mat A1 p j else mat A1 i j) ->
  forall i, (i < N)%nat ->
    rowsum N A2 z i ==
    if (p <? i)%nat then rowsum N A1 z i - (mat A1 i p / mat A1 p p) * rowsum N A1 z p
    else rowsum N A1 z i.
Proof.
  intros Hp Hz HA2 i Hi. unfold rowsum.
  destruct (Nat.ltb_spec p i) as [Hpi|Hpi].
  - rewrite <- sumr_lin. apply sumr_ext. intros j Hj. rewrite HA2.
    destruct (Nat.ltb_spec p i); [|lia]. destruct (Nat.ltb_spec i N); [|lia].
    destruct (Nat.ltb_spec j N); [|lia]. simpl.
    destruct (Nat.leb_spec p j); simpl.
    + ring.
    + rewrite (Hz j) by lia. ring.
  - apply sumr_ext. intros j Hj. rewrite HA2.
    destruct (Nat.ltb_spec p i); [lia|]. reflexivity.
Qed.

Lemma elim_equiv N p A1 A2 beta beta' z : (p < N)%nat ->
  (forall j, (j < p)%nat -> mat A1 p j == 0) ->
  (forall i j, mat A2 i j =
       if (p <? i)%nat && (i <? N)%nat && (p <=? j)%nat && (j <? N)%nat
       then mat A1 i j - (mat A1 i p / mat A1 p p) * mat A1 p j else mat A1 i j) ->
  (forall i, (i < N)%nat -> beta' i ==
       if (p <? i)%nat then beta i - (mat A1 i p / mat A1 p p) * beta p else beta i) ->
  (solvesf N A2 beta' z <-> solvesf N A1 beta z).
Proof.
  intros Hp Hz HA2 Hb. unfold solvesf.
  pose proof (rowsum_elim N p A1 A2 z Hp Hz HA2) as R.
  split; intros H.
  - assert (Hpp : rowsum N A1 z p == beta p).
    { pose proof (H p Hp) as Hpp. rewrite (R p Hp), (Hb p Hp) in Hpp.
      destruct (Nat.ltb_spec p p); [lia|]. exact Hpp. }
    intros i Hi. pose proof (H i Hi) as Hi2. rewrite (R i Hi), (Hb i Hi) in Hi2.
    destruct (Nat.ltb_spec p i); [|exact Hi2].
    rewrite Hpp in Hi2. lra.
  - intros i Hi. rewrite (R i Hi), (Hb i Hi).
    destruct (Nat.ltb_spec p i); [|now apply H].
    rewrite (H i Hi), (H p Hp). reflexivity.
Qed.

(* ------------------------------------------------------------------ *)
(* the elimination loop                                               *)
(* ------------------------------------------------------------------ *)
(* what holds of the state before iteration p (A0, b0 the original input) *)
Definition InvE (N : nat) (A0 : list (list Q)) (b0 : list Q) (p : nat) (A : list (list Q)) (b : list Q) : Prop :=
  wf N A b /\ lowzero N p A /\ diagnz p A /\
  (forall z, solves N A b z <-> solves N A0 b0 z) /\
  (forall y, kern N A y <-> kern N A0 y).

Lemma solves_solvesf N A b z : solves N A b z <-> solvesf N A (fun i => vat b i) z.
Proof. reflexivity. Qed.
Lemma kern_solvesf N A y : kern N A y <-> solvesf N A (fun _ => 0) y.
Proof. reflexivity. Qed.

Lemma solvesf_ext N A beta gamma z : (forall i, (i < N)%nat -> beta i == gamma i) ->
  (solvesf N A beta z <-> solvesf N A gamma z).
Proof.
  intro H. unfold solvesf. split; intros S i Hi.
  - rewrite <- (H i Hi). now apply S.
  - rewrite (H i Hi). now apply S.
Qed.

Lemma Qabs_le_nonzero x eps : 0 <= eps -> Qle_bool (Qabs x) eps = false -> ~ x == 0.
Proof.
  intros He Hb Hx. assert (C : Qle_bool (Qabs x) eps = true); [|congruence].
  apply Qle_bool_iff. rewrite Hx. simpl. exact He.
Qed.

(* after the swap of iteration p *)
Lemma swap_inv N A0 b0 p A b mx : InvE N A0 b0 p A b -> (p < N)%nat -> (p <= mx < N)%nat ->
  InvE N A0 b0 p (swap [] A p mx) (swap 0 b p mx).
Proof.
  intros ([[HA Hrows] Hb] & Hlz & Hdz & Hsol & Hker) Hp Hmx.
  assert (Hnth : forall k, nth k (swap [] A p mx) [] = nth (sigma p mx k) A []).
  { intro k. apply swap_rows_nth; lia. }
  split; [|split; [|split; [|split]]].
  - split; [split|].
    + now rewrite swap_length.
    + intros i Hi. rewrite Hnth. apply Hrows. apply sigma_lt; lia.
    + now rewrite swap_length.
  - intros i j Hi Hj Hji. rewrite Hnth. apply Hlz; [apply sigma_lt; lia|lia|].
    unfold sigma. nat_eqb; try lia.
  - intros i Hi. rewrite Hnth.
    replace (sigma p mx i) with i by (unfold sigma; nat_eqb; lia).
    now apply Hdz.
  - intro z. rewrite <- Hsol. rewrite !solves_solvesf.
    rewrite <- (swap_equiv N A p mx (fun i => vat b i) z) by lia.
    apply solvesf_ext. intros i Hi. rewrite swap_vec_nth by lia. reflexivity.
  - intro y. rewrite <- Hker. rewrite !kern_solvesf.
    rewrite <- (swap_equiv N A p mx (fun _ => 0) y) by lia. reflexivity.
Qed.

Lemma step_ok eps N A0 b0 p A b : 0 <= eps -> (p < N)%nat -> InvE N A0 b0 p A b ->
  match stepQ eps N (Elim A b) p with
  | Elim A2 b2 => InvE N A0 b0 (S p) A2 b2
  | EDivZero => False
  | ESingular => True
  end.
Proof.
  intros He Hp HI. unfold stepQ, step. fold (pivotQ A N p).
  destruct (pivot_spec A N p Hp) as [Hmx _].
  set (mx := pivotQ A N p) in *.
  pose proof (swap_inv N A0 b0 p A b mx HI Hp Hmx) as HI1.
  set (A1 := swap [] A p mx) in *. set (b1 := swap 0 b p mx) in *.
  unfold get, row.
  destruct (Qle_bool (Qabs (mat A1 p p)) eps) eqn:Et; [exact I|].
  pose proof (Qabs_le_nonzero _ _ He Et) as Hnz.
  destruct HI1 as (W1 & Hlz & Hdz & Hsol & Hker).
  destruct (elim_rows_spec N p A1 b1 W1 Hp Hnz) as (A2 & b2 & E & W2 & HA2 & Hb2).
  fold (elim_rowsQ N p A1 b1). rewrite E.
  assert (Hzp : forall j, (j < p)%nat -> mat A1 p j == 0) by (intros j Hj; apply Hlz; lia).
  split; [exact W2|]. split; [|split; [|split]].
  - intros i j Hi Hj Hji. rewrite HA2.
    destruct (Nat.ltb_spec p i), (Nat.ltb_spec i N), (Nat.leb_spec p j), (Nat.ltb_spec j N); simpl;
      try (apply Hlz; lia).
    assert (j = p) by lia. subst j. field. exact Hnz.
  - intros i Hi. rewrite HA2.
    destruct (Nat.ltb_spec p i); simpl; [lia|].
    destruct (Nat.eq_dec i p) as [->|Ni]; [exact Hnz|]. apply Hdz. lia.
  - intro z. rewrite <- Hsol. rewrite !solves_solvesf.
    apply (elim_equiv N p A1 A2); auto.
    intros i Hi. rewrite Hb2. destruct (Nat.ltb_spec p i), (Nat.ltb_spec i N); simpl; try reflexivity; lia.
  - intro y. rewrite <- Hker. rewrite !kern_solvesf.
    apply (elim_equiv N p A1 A2); auto.
    intros i Hi. destruct (Nat.ltb_spec p i); ring.
Qed.

Definition InvS (Sg : Prop) (N : nat) (A0 : list (list Q)) (b0 : list Q) (p : nat) (st : eres Q) : Prop :=
  match st with
  | Elim A b => InvE N A0 b0 p A b
  | EDivZero => False
  | ESingular => Sg
  end.

Lemma InvE_init N A b : wf N A b -> InvE N A b 0 A b.
Proof.
  intro W. split; [exact W|]. split; [|split; [|split]].
  - intros i j _ Hj; lia.
  - intros i Hi; lia.
  - reflexivity.
  - reflexivity.
Qed.

Lemma eliminate_inv (Sg : Prop) eps A b : let N := length b in
  0 <= eps -> wf N A b ->
  (forall p A' b', (p < N)%nat -> InvE N A b p A' b' -> stepQ eps N (Elim A' b') p = ESingular -> Sg) ->
  InvS Sg N A b N (eliminateQ eps A b).
Proof.
  intros N He W HSg. unfold eliminateQ, eliminate. fold N. fold (stepQ eps N).
  pose proof (fold_seq_ind (InvS Sg N A b) (stepQ eps N) N 0%nat (Elim A b)) as F.
  change (0 + N)%nat with N in F. apply F; clear F.
  - simpl. now apply InvE_init.
  - intros p st Hp HI. destruct st as [| |A' b']; [exact HI | destruct HI |].
    simpl in HI.
    pose proof (step_ok eps N A b p A' b' He ltac:(lia) HI) as Hs.
    destruct (stepQ eps N (Elim A' b') p) eqn:E; auto.
    apply (HSg p A' b'); auto. lia.
Qed.

(* ------------------------------------------------------------------ *)
(* back substitution                                                  *)
(* ------------------------------------------------------------------ *)
Lemma back_sum_sumr N i ri x :
  back_sumQ N i ri x == sumr (S i) (N - S i) (fun j => vat ri j * vat x j).
Proof.
  unfold back_sumQ, back_sum, get.
  rewrite (fold_add_sumr (fun j => vat ri j * vat x j)). ring.
Qed.

(* row k of an upper-triangular system, as the code uses it *)
Definition triEq (N : nat) (U : list (list Q)) (c x : list Q) (k : nat) : Prop :=
  mat U k k * vat x k + sumr (S k) (N - S k) (fun j => mat U k j * vat x j) == vat c k.

Lemma backsub_from_spec N U c x0 m : length x0 = N -> (m <= N)%nat -> diagnz m U ->
  exists x, backsub_fromQ N U c x0 m = Some x /\ length x = N /\
            (forall j, (m <= j)%nat -> vat x j = vat x0 j) /\
            forall k, (k < m)%nat -> triEq N U c x k.
Proof.
  intros Hl Hm Hd. unfold backsub_fromQ, backsub_from. fold (back_stepQ N U c).
  pose (P := fun (i : nat) (st : option (list Q)) =>
     exists x, st = Some x /\ length x = N /\ (forall j, (m <= j)%nat -> vat x j = vat x0 j) /\
               forall k, (i <= k < m)%nat -> triEq N U c x k).
  assert (H : P 0%nat (fold_left (back_stepQ N U c) (rev (seq 0 m)) (Some x0))).
  { apply fold_down_ind.
    - exists x0. repeat split; auto. intros k Hk; lia.
    - intros i st Hi (x & -> & Hlx & Hx0 & Htri).
      unfold back_stepQ, back_step, get, row. fold (back_sumQ N i (nth i U []) x).
      unfold Qeq0. destruct (Qeq_bool (mat U i i) 0) eqn:E0.
      { apply Qeq_bool_iff in E0. exfalso. apply (Hd i Hi E0). }
      eexists. split; [reflexivity|]. split; [now rewrite upd_length|]. split.
      + intros j Hj. rewrite nth_upd_neq by lia. now apply Hx0.
      + intros k Hk. unfold triEq.
        assert (Hs : sumr (S k) (N - S k) (fun j => mat U k j *
                       vat (upd x i ((vat c i - back_sumQ N i (nth i U []) x) / mat U i i)) j)
                     == sumr (S k) (N - S k) (fun j => mat U k j * vat x j)).
        { apply sumr_ext. intros j Hj. rewrite nth_upd_neq by lia. reflexivity. }
        rewrite Hs. destruct (Nat.eq_dec k i) as [->|Nk].
        * rewrite nth_upd_eq by lia. rewrite back_sum_sumr. field.
          intro C. apply Qeq_bool_neq in E0. contradiction.
        * rewrite nth_upd_neq by auto. apply Htri. lia. }
  destruct H as (x & E & Hlx & Hx0 & Htri). exists x. repeat split; auto.
  intros k Hk. apply Htri. lia.
Qed.

Lemma tri_rowsum N U x k : (k < N)%nat -> (forall j, (j < k)%nat -> mat U k j == 0) ->
  rowsum N U x k == mat U k k * vat x k + sumr (S k) (N - S k) (fun j => mat U k j * vat x j).
Proof.
  intros Hk Hz. unfold rowsum. rewrite (sumr_split 0 N k) by lia. simpl.
  rewrite sumr_zero; [ring|]. intros j Hj. rewrite (Hz j) by lia. ring.
Qed.

Lemma vat_repeat0 N i : vat (repeat 0 N) i = 0.
Proof. revert i; induction N as [|N IH]; intros [|i]; simpl; auto. Qed.

Lemma backsub_sound N U c : wf N U c -> lowzero N N U -> diagnz N U ->
  exists x, backsubQ U c = Some x /\ length x = N /\ solves N U c x.
Proof.
  intros [[HU Hrows] Hc] Hlz Hd. unfold backsubQ, backsub. rewrite Hc.
  destruct (backsub_from_spec N U c (repeat 0 N) N) as (x & E & Hlx & _ & Htri);
    [apply repeat_length | lia | exact Hd |].
  fold (backsub_fromQ N U c (repeat 0 N) N). exists x. repeat split; auto.
  intros k Hk. rewrite tri_rowsum; auto. now apply Htri.
  intros j Hj. apply Hlz; lia.
Qed.

Lemma tri_unique N U c z x : lowzero N N U -> diagnz N U ->
  solves N U c z -> solves N U c x -> forall k, (k < N)%nat -> vat z k == vat x k.
Proof.
  intros Hlz Hd Hz Hx.
  assert (H : forall m k, (N - m <= k < N)%nat -> vat z k == vat x k).
  { induction m as [|m IH]; intros k Hk; [lia|].
    destruct (Nat.le_gt_cases (N - m) k) as [Hle|Hgt]; [apply IH; lia|].
    pose proof (Hz k ltac:(lia)) as Ez. pose proof (Hx k ltac:(lia)) as Ex.
    rewrite tri_rowsum in Ez, Ex; try lia; try (intros j Hj; apply Hlz; lia).
    assert (Hs : sumr (S k) (N - S k) (fun j => mat U k j * vat z j)
              == sumr (S k) (N - S k) (fun j => mat U k j * vat x j)).
    { apply sumr_ext. intros j Hj. rewrite (IH j) by lia. reflexivity. }
    rewrite Hs in Ez. apply (Qmult_inj_l _ _ (mat U k k)); [apply Hd; lia|]. lra. }
  intros k Hk. apply (H N). lia.
Qed.

(* ------------------------------------------------------------------ *)
(* index-level theorems                                               *)
(* ------------------------------------------------------------------ *)
Lemma lsolve_cases (Sg : Prop) eps A b : let N := length b in
  0 <= eps -> wf N A b ->
  (forall p A' b', (p < N)%nat -> InvE N A b p A' b' -> stepQ eps N (Elim A' b') p = ESingular -> Sg) ->
  (lsolveQ eps A b = Singular /\ Sg) \/
  (exists U c x, eliminateQ eps A b = Elim U c /\ InvE N A b N U c /\
                 lsolveQ eps A b = Solved x /\ length x = N /\ solves N U c x).
Proof.
  intros N He W HSg. pose proof (eliminate_inv Sg eps A b He W HSg) as HI. fold N in HI.
  unfold lsolveQ, lsolve. fold (eliminateQ eps A b).
  destruct (eliminateQ eps A b) as [| |U c]; simpl in HI.
  - left. split; auto.
  - destruct HI.
  - right. destruct HI as (W' & Hlz & Hd & Hsol & Hker).
    destruct (backsub_sound N U c W' Hlz Hd) as (x & E & Hlx & Hs).
    fold (backsubQ U c). rewrite E. exists U, c, x. repeat split; auto; try apply W'; try apply Hsol; try apply Hker.
Qed.

Lemma lsolve_sound_idx eps A b x : let N := length b in
  0 <= eps -> wf N A b -> lsolveQ eps A b = Solved x -> length x = N /\ solves N A b x.
Proof.
  intros N He W E.
  destruct (lsolve_cases True eps A b He W ltac:(auto)) as [[E' _]|(U & c & x' & _ & HI & E' & Hlx & Hs)];
    rewrite E' in E; [discriminate|]. injection E as <-.
  split; auto. destruct HI as (_ & _ & _ & Hsol & _). now apply Hsol.
Qed.

Lemma lsolve_unique_idx eps A b x z : let N := length b in
  0 <= eps -> wf N A b -> lsolveQ eps A b = Solved x -> solves N A b z ->
  forall k, (k < N)%nat -> vat z k == vat x k.
Proof.
  intros N He W E Hz.
  destruct (lsolve_cases True eps A b He W ltac:(auto)) as [[E' _]|(U & c & x' & _ & HI & E' & Hlx & Hs)];
    rewrite E' in E; [discriminate|]. injection E as <-.
  destruct HI as (_ & Hlz & Hd & Hsol & _).
  apply (tri_unique N U c); auto. now apply Hsol.
Qed.

Lemma lsolve_no_divzero_idx eps A b : 0 <= eps -> wf (length b) A b -> lsolveQ eps A b <> DivZero.
Proof.
  intros He W.
  destruct (lsolve_cases True eps A b He W ltac:(auto)) as [[E' _]|(U & c & x' & _ & _ & E' & _)];
    rewrite E'; discriminate.
Qed.

Definition allzero (N : nat) (y : list Q) : Prop := forall k, (k < N)%nat -> vat y k == 0.

(* a matrix with a non-trivial kernel vector is reported singular, whatever the threshold *)
Lemma lsolve_singular_idx eps A b y : let N := length b in
  0 <= eps -> wf N A b -> kern N A y -> ~ allzero N y -> lsolveQ eps A b = Singular.
Proof.
  intros N He W Hk Hnz.
  destruct (lsolve_cases True eps A b He W ltac:(auto)) as [[E' _]|(U & c & x & _ & HI & E' & Hlx & Hs)]; auto.
  exfalso. apply Hnz. destruct HI as (_ & Hlz & Hd & Hsol & Hker).
  subst N. set (N := length b) in *.
  (* x + y (as an index function packed in a list) also solves U . = c, hence equals x *)
  pose (z := map (fun j => vat x j + vat y j) (seq 0 N)).
  assert (Hzj : forall j, (j < N)%nat -> vat z j = vat x j + vat y j).
  { intros j Hj. unfold z. set (f := fun j : nat => vat x j + vat y j).
    rewrite (nth_indep (map f (seq 0 N)) 0 (f 0%nat)) by (rewrite map_length, seq_length; lia).
    rewrite map_nth, seq_nth by lia. reflexivity. }
  assert (Hz : solves N U c z).
  { intros i Hi. unfold rowsum.
    rewrite (sumr_ext 0 N _ (fun j => mat U i j * vat x j + mat U i j * vat y j)).
    - rewrite sumr_plus. fold (rowsum N U x i). fold (rowsum N U y i).
      rewrite (Hs i Hi). apply Hker in Hk. rewrite (Hk i Hi). ring.
    - intros j Hj. rewrite Hzj by lia. ring. }
  intros k Hk'. pose proof (tri_unique N U c z x Hlz Hd Hz Hs k Hk') as E.
  rewrite Hzj in E by lia. lra.
Qed.

Lemma Qabs_le0 x : Qabs x <= 0 -> x == 0.
Proof. intro H. apply Qabs_Qle_condition in H. lra. Qed.

Lemma step_singular0 N A0 b0 p A b : InvE N A0 b0 p A b -> (p < N)%nat ->
  stepQ 0 N (Elim A b) p = ESingular ->
  exists y, length y = N /\ kern N A y /\ ~ allzero N y.
Proof.
  intros HI Hp. unfold stepQ, step. fold (pivotQ A N p).
  destruct (pivot_spec A N p Hp) as [Hmx Hmax].
  set (mx := pivotQ A N p) in *.
  destruct HI as ([[HA Hrows] Hb] & Hlz & Hd & _ & _).
  unfold get, row. rewrite swap_rows_nth by lia.
  replace (sigma p mx p) with mx by (unfold sigma; nat_eqb; lia).
  destruct (Qle_bool (Qabs (mat A mx p)) 0) eqn:Et.
  2:{ fold (elim_rowsQ N p (swap [] A p mx) (swap 0 b p mx)).
      destruct (elim_rowsQ N p (swap [] A p mx) (swap 0 b p mx)) as [[A2 b2]|]; discriminate. }
  intros _. apply Qle_bool_iff in Et.
  assert (Hcol : forall k, (p <= k < N)%nat -> mat A k p == 0).
  { intros k Hk. apply Qabs_le0. apply Qle_trans with (Qabs (mat A mx p)); auto. }
  pose (x0 := upd (repeat 0 N) p 1).
  destruct (backsub_from_spec N A (repeat 0 N) x0 p) as (y & _ & Hly & Hy0 & Htri);
    [unfold x0; now rewrite upd_length, repeat_length | lia | exact Hd |].
  assert (Hyp : vat y p = 1).
  { rewrite Hy0 by lia. unfold x0. apply nth_upd_eq. rewrite repeat_length; lia. }
  assert (Hyj : forall j, (p < j)%nat -> vat y j = 0).
  { intros j Hj. rewrite Hy0 by lia. unfold x0. rewrite nth_upd_neq by lia. apply vat_repeat0. }
  exists y. split; [exact Hly|]. split.
  - intros i Hi. destruct (Nat.lt_ge_cases i p) as [Hip|Hip].
    + rewrite tri_rowsum; auto.
      * pose proof (Htri i Hip) as T. unfold triEq in T. rewrite vat_repeat0 in T. exact T.
      * intros j Hj. apply Hlz; lia.
    + unfold rowsum. apply sumr_zero. intros j Hj.
      destruct (Nat.lt_trichotomy j p) as [Hjp|[->|Hjp]].
      * rewrite (Hlz i j) by lia. ring.
      * rewrite (Hcol i) by lia. ring.
      * rewrite (Hyj j) by lia. ring.
  - intro Hall. specialize (Hall p Hp). rewrite Hyp in Hall. discriminate.
Qed.

(* threshold 0: a matrix with trivial kernel is always solved *)
Lemma lsolve_complete_eps0_idx A b : let N := length b in
  wf N A b -> (forall y, length y = N -> kern N A y -> allzero N y) ->
  exists x, lsolveQ 0 A b = Solved x.
Proof.
  intros N W Hns.
  destruct (lsolve_cases (exists y, length y = N /\ kern N A y /\ ~ allzero N y) 0 A b (Qle_refl 0) W)
    as [[_ (y & Hly & Hk & Hnz)]|(U & c & x & _ & _ & E & _)].
  - intros p A' b' Hp HI Es.
    destruct (step_singular0 N A b p A' b' HI Hp Es) as (y & Hly & Hk & Hnz).
    exists y. split; auto. split; auto. destruct HI as (_ & _ & _ & _ & Hker). now apply Hker.
  - exfalso. apply Hnz. now apply Hns.
  - now exists x.
Qed.

(* ------------------------------------------------------------------ *)
(* list-level statements (what Props/C20.v exports)                    *)
(* ------------------------------------------------------------------ *)
Fixpoint dot (r x : list Q) : Q :=
  match r, x with
  | a :: r', c :: x' => a * c + dot r' x'
  | _, _ => 0
  end.
(* A . x *)
Definition mat_vec (A : list (list Q)) (x : list Q) : list Q := map (fun r => dot r x) A.
(* componentwise equality of rationals *)
Definition veq (u v : list Q) : Prop := Forall2 Qeq u v.
(* N rows of length N, N = len(b) *)
Definition square_system (A : list (list Q)) (b : list Q) : Prop :=
  length A = length b /\ Forall (fun r => length r = length b) A.
Definition zeros (N : nat) : list Q := repeat 0 N.

Lemma sumr_shift a n f : sumr (S a) n f == sumr a n (fun j => f (S j)).
Proof. revert a; induction n as [|n IH]; intros a; simpl; [reflexivity|]. rewrite IH. reflexivity. Qed.

Lemma dot_sumr r x : length x = length r ->
  dot r x == sumr 0 (length r) (fun j => vat r j * vat x j).
Proof.
  revert x; induction r as [|a r IH]; intros [|c x] H; simpl in *; try discriminate; try reflexivity.
  rewrite sumr_shift. simpl. rewrite IH by lia. reflexivity.
Qed.

Lemma veq_idx u v : veq u v <-> length u = length v /\ forall i, (i < length u)%nat -> vat u i == vat v i.
Proof.
  unfold veq. split.
  - induction 1 as [|a c u v Hac H IH]; simpl; [split; [auto|intros; lia]|].
    destruct IH as [Hl Hi]. split; [lia|]. intros [|i] Hlt; auto. apply Hi; lia.
  - revert v; induction u as [|a u IH]; intros [|c v] [Hl Hi]; simpl in *; try discriminate; constructor.
    + apply (Hi 0%nat); lia.
    + apply IH. split; [lia|]. intros i Hlt. apply (Hi (S i)); lia.
Qed.

Lemma square_wf A b : square_system A b -> wf (length b) A b.
Proof.
  intros [HA HF]. split; [split|]; auto. intros i Hi.
  rewrite Forall_forall in HF. apply HF. apply nth_In. lia.
Qed.

Lemma mat_vec_idx N A b x : wf N A b -> length x = N ->
  (veq (mat_vec A x) b <-> solves N A b x).
Proof.
  intros [[HA Hrows] Hb] Hx. rewrite veq_idx. unfold mat_vec. rewrite map_length.
  assert (E : forall i, (i < N)%nat -> vat (map (fun r => dot r x) A) i == rowsum N A x i).
  { intros i Hi. change 0 with ((fun r => dot r x) []) at 1. rewrite map_nth.
    rewrite dot_sumr by (rewrite Hrows; lia). rewrite Hrows by lia. reflexivity. }
  split.
  - intros [_ H] i Hi. rewrite <- E by lia. apply H. lia.
  - intro H. split; [lia|]. intros i Hi. rewrite E by lia. apply H. lia.
Qed.

Lemma kern_idx N A y : wfA N A -> length y = N ->
  (veq (mat_vec A y) (zeros N) <-> kern N A y).
Proof.
  intros HA Hy. rewrite (mat_vec_idx N A (zeros N) y); [|split; [auto|apply repeat_length]|auto].
  unfold solves, kern. split; intros H i Hi; specialize (H i Hi); unfold zeros in *; rewrite vat_repeat0 in *; exact H.
Qed.

Lemma allzero_veq N y : length y = N -> (veq y (zeros N) <-> allzero N y).
Proof.
  intro Hy. rewrite veq_idx. unfold zeros. rewrite repeat_length, Hy. unfold allzero. split.
  - intros [_ H] k Hk. pose proof (H k Hk) as E. rewrite vat_repeat0 in E. exact E.
  - intro H. split; auto. intros i Hi. rewrite vat_repeat0. now apply H.
Qed.

(* Solved x  ->  A x = b exactly, for the ORIGINAL A and b *)
Theorem lsolve_sound eps A b x : 0 <= eps -> square_system A b ->
  lsolveQ eps A b = Solved x -> length x = length b /\ veq (mat_vec A x) b.
Proof.
  intros He S E. pose proof (square_wf A b S) as W.
  destruct (lsolve_sound_idx eps A b x He W E) as [Hl Hs]. split; auto.
  now apply (mat_vec_idx (length b)).
Qed.

(* ... and it is the only solution *)
Theorem lsolve_unique eps A b x z : 0 <= eps -> square_system A b ->
  lsolveQ eps A b = Solved x -> length z = length b -> veq (mat_vec A z) b -> veq z x.
Proof.
  intros He S E Hz Hv. pose proof (square_wf A b S) as W.
  destruct (lsolve_sound_idx eps A b x He W E) as [Hl _].
  apply veq_idx. split; [lia|]. intros k Hk.
  apply (lsolve_unique_idx eps A b x z He W E); [|lia].
  now apply (mat_vec_idx (length b)).
Qed.

(* the ZeroDivisionError branches of the code are dead when the threshold is non-negative *)
Theorem lsolve_no_divzero eps A b : 0 <= eps -> square_system A b -> lsolveQ eps A b <> DivZero.
Proof. intros He S. apply lsolve_no_divzero_idx; auto. now apply square_wf. Qed.

(* singular matrix (a non-zero vector y with A y = 0)  ->  Singular, for every threshold >= 0
   and every right-hand side *)
Theorem lsolve_singular eps A b y : 0 <= eps -> square_system A b ->
  length y = length b -> veq (mat_vec A y) (zeros (length b)) -> ~ veq y (zeros (length b)) ->
  lsolveQ eps A b = Singular.
Proof.
  intros He S Hy Hk Hnz. pose proof (square_wf A b S) as W.
  apply (lsolve_singular_idx eps A b y He W).
  - apply kern_idx; auto. apply W.
  - intro H. apply Hnz. now apply allzero_veq.
Qed.

(* threshold 0: every non-singular system is solved *)
Theorem lsolve_complete_eps0 A b : square_system A b ->
  (forall y, length y = length b -> veq (mat_vec A y) (zeros (length b)) -> veq y (zeros (length b))) ->
  exists x, lsolveQ 0 A b = Solved x.
Proof.
  intros S Hns. pose proof (square_wf A b S) as W.
  apply lsolve_complete_eps0_idx; auto.
  intros y Hy Hk. apply allzero_veq; auto. apply Hns; auto. apply kern_idx; auto. apply W.
Qed.

(* threshold 0: Singular exactly when the matrix is singular *)
Theorem lsolve_eps0_singular_iff A b : square_system A b ->
  (lsolveQ 0 A b = Singular <->
   exists y, length y = length b /\ veq (mat_vec A y) (zeros (length b)) /\ ~ veq y (zeros (length b))).
Proof.
  intros S. pose proof (square_wf A b S) as W. split.
  - intro E.
    destruct (lsolve_cases (exists y, length y = length b /\ kern (length b) A y /\ ~ allzero (length b) y)
                0 A b (Qle_refl 0) W) as [[_ (y & Hly & Hk & Hnz)]|(U & c & x & _ & _ & E' & _)].
    + intros p A' b' Hp HI Es.
      destruct (step_singular0 _ A b p A' b' HI Hp Es) as (y & Hly & Hk & Hnz).
      exists y. split; auto. split; auto. destruct HI as (_ & _ & _ & _ & Hker). now apply Hker.
    + exists y. split; auto. split.
      * apply kern_idx; auto. apply W.
      * intro H. apply Hnz. now apply allzero_veq.
    + rewrite E' in E. discriminate.
  - intros (y & Hy & Hk & Hnz). now apply (lsolve_singular 0 A b y (Qle_refl 0)).
Qed.

(* ------------------------------------------------------------------ *)
(* non-vacuity: concrete non-trivial inputs                            *)
(* ------------------------------------------------------------------ *)
Definition exA : list (list Q) := [[2; 1; -1]; [-3; -1; 2]; [-2; 1; 2]].
Definition exb : list Q := [8; -11; -3].

Example lsolve_sound_nonvacuous :
  0 <= EPSILON_Q /\ square_system exA exb /\ exists x, lsolveQ EPSILON_Q exA exb = Solved x /\ veq x [2; 3; -1].
Proof.
  split; [discriminate|]. split; [split; [reflexivity|repeat constructor]|].
  eexists. split; [vm_compute; reflexivity|]. repeat constructor.
Qed.

(* the matrix on which the float implementation returns a result (see the driver's finding):
   exactly singular, the exact algorithm says Singular *)
Definition exS : list (list Q) := [[3; 0; -2]; [2; 2; 1]; [-1; 2; 3]].
Example lsolve_singular_nonvacuous :
  square_system exS [1; 1; 1] /\ veq (mat_vec exS [4; -7; 6]) (zeros 3) /\ ~ veq [4; -7; 6] (zeros 3) /\
  lsolveQ EPSILON_Q exS [1; 1; 1] = Singular.
Proof.
  split; [split; [reflexivity|repeat constructor]|]. split; [repeat constructor|]. split.
  - intro H. inversion H as [|? ? ? ? H1]. discriminate H1.
  - vm_compute. reflexivity.
Qed.

Example lsolve_complete_nonvacuous : exists x, lsolveQ 0 exA exb = Solved x.
Proof. eexists. vm_compute. reflexivity. Qed.
