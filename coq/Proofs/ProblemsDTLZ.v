(* Proofs/ProblemsDTLZ.v — C18, part 2: DTLZ1-4 (and DTLZ7) for EVERY number of objectives M >= 1 and every
   number of variables n >= M - 1: generated = published, exactly M objectives, telescoping identities
   sum f = (1+g)/2 (DTLZ1), sum f^2 = (1+g)^2 (DTLZ2-4), g >= 0, hence the published lower bounds. *)
From Coq Require Import Reals List ZArith Lia Lra Bool.
Import ListNotations.
From PV Require Import Base.RList Gen.Problems Model.ProblemsRef Proofs.ProblemsProofs.
Open Scope R_scope.
Set Default Timeout 60.

(* ------------------------------------------------------------------ telescopes of the reference shapes *)
Lemma big_prod_sq : forall f n, big_prod (fun j => f j ^ 2) n = big_prod f n ^ 2.
Proof. intros f n. induction n as [|n IH]; cbn [big_prod]; [ring|]. rewrite IH. ring. Qed.

(* shape with c_j factors and a final s_j factor:  t_0 = c_0..c_{m-1},  t_{i} = c_0..c_{m-1-i} s_{m-i} *)
Definition shape (c s : nat -> R) (M i : nat) : R :=
  big_prod c (M - 1 - i) * (if Nat.eqb i 0 then 1 else s (M - 1 - i)%nat).

Lemma shape_sum : forall c s M, (1 <= M)%nat -> (forall j, c j + s j = 1) ->
  big_sum (shape c s M) M = 1.
Proof.
  intros c s M HM H. destruct M as [|m]; [lia|].
  rewrite big_sum_shift. unfold shape at 1. simpl Nat.eqb. cbv iota.
  replace (S m - 1 - 0)%nat with m by lia.
  rewrite (big_sum_ext m _ (fun i => big_prod c (m - 1 - i) * s (m - 1 - i)%nat)).
  2:{ intros i Hi. unfold shape. simpl Nat.eqb. cbv iota. replace (S m - 1 - S i)%nat with (m - 1 - i)%nat by lia. reflexivity. }
  rewrite <- (big_sum_rev m (fun j => big_prod c j * s j)).
  rewrite telescope by (intros; apply H). ring.
Qed.

Lemma sph_sumsq : forall th M, (1 <= M)%nat -> big_sum (fun i => dtlz_sph M th i ^ 2) M = 1.
Proof.
  intros th M HM.
  rewrite (big_sum_ext M _ (shape (fun j => cos (th j) ^ 2) (fun j => sin (th j) ^ 2) M)).
  - apply shape_sum; [assumption|]. intros j. rewrite Rplus_comm. rewrite <- (sin2_cos2 (th j)). unfold Rsqr. ring.
  - intros i Hi. unfold dtlz_sph, shape. rewrite big_prod_sq. destruct (Nat.eqb i 0); ring.
Qed.

Lemma lin_sum : forall x M, (1 <= M)%nat -> big_sum (dtlz_lin M x) M = 1.
Proof.
  intros x M HM.
  rewrite (big_sum_ext M _ (shape (fun j => X x j) (fun j => 1 - X x j) M)).
  - apply shape_sum; [assumption|]. intros j. ring.
  - intros i Hi. reflexivity.
Qed.

Lemma sum_of_map_seq : forall (f : nat -> R) M, sum_of (map f (seq 0 M)) = big_sum f M.
Proof.
  intros f M. unfold sum_of. rewrite map_length, seq_length. apply big_sum_ext. intros i Hi.
  rewrite (nth_map_lt _ _ _ 0%nat) by (now rewrite seq_length). now rewrite seq_nth.
Qed.
Lemma sumsq_of_map_seq : forall (f : nat -> R) M, sumsq_of (map f (seq 0 M)) = big_sum (fun i => f i ^ 2) M.
Proof.
  intros f M. unfold sumsq_of. rewrite map_length, seq_length. apply big_sum_ext. intros i Hi.
  rewrite (nth_map_lt _ _ _ 0%nat) by (now rewrite seq_length). now rewrite seq_nth.
Qed.

(* make the function arguments of two big_prod over the same range syntactically equal *)
Ltac same_big_prod :=
  repeat match goal with
  | |- context [big_prod ?f ?m] =>
      match goal with
      | |- context [big_prod ?g m] =>
          tryif constr_eq f g then fail else
          (let E := fresh in assert (E : big_prod f m = big_prod g m) by (apply big_prod_ext; intros; cbv beta; real_eq);
           rewrite E; clear E)
      end
  end.
Ltac same_big_sum :=
  repeat match goal with
  | |- context [big_sum ?f ?m] =>
      match goal with
      | |- context [big_sum ?g m] =>
          tryif constr_eq f g then fail else
          (let E := fresh in assert (E : big_sum f m = big_sum g m) by (apply big_sum_ext; intros; cbv beta; real_eq);
           rewrite E; clear E)
      end
  end.

Section DTLZ.
  Variable M n : nat.
  Variable x : list R.
  Hypothesis HM : (1 <= M)%nat.
  Hypothesis HMn : (M - 1 <= n)%nat.
  Hypothesis Hl : length x = n.

  Notation Mz := (Z.of_nat M).
  Notation nz := (Z.of_nat n).

  (* ---- g >= 0 *)
  Lemma g24_nonneg : 0 <= dtlz_g24 x M.
  Proof. unfold dtlz_g24, dtlz_tail_sum. apply big_sum_nonneg. intros i _. apply pow2_ge_0. Qed.
  Lemma g13_nonneg : 0 <= dtlz_g13 x M.
  Proof.
    unfold dtlz_g13, dtlz_tail_sum.
    assert (B : INR (dtlz_k x M) * (-1) <= big_sum (fun j => (X x (M - 1 + j) - 1 / 2) ^ 2 - cos (20 * PI * (X x (M - 1 + j) - 1 / 2))) (dtlz_k x M)).
    { apply big_sum_ge. intros i _. pose proof (COS_bound (20 * PI * (X x (M - 1 + i) - 1 / 2))) as [_ C].
      pose proof (pow2_ge_0 (X x (M - 1 + i) - 1 / 2)). lra. }
    lra.
  Qed.

  (* ---- normalisation of the generated accessor forms *)
  Lemma tail_norm : forall (h : R -> R) a, a = Z.of_nat (M - 1) ->
    sum_list (map h (py_from x a)) = dtlz_tail_sum h x M.
  Proof.
    intros h a ->. rewrite (py_from_eq x _ (M - 1)) by reflexivity.
    rewrite sum_list_map_skipn by lia. reflexivity.
  Qed.
  Lemma tail_norm_id : forall a, a = Z.of_nat (M - 1) -> sum_list (py_from x a) = dtlz_tail_sum (fun t => t) x M.
  Proof. intros a H. rewrite <- (tail_norm (fun t => t) a H). now rewrite map_id. Qed.
  Lemma k_norm : forall z, z = Z.of_nat (n - (M - 1)) -> IZR z = INR (dtlz_k x M).
  Proof. intros z ->. unfold dtlz_k. rewrite Hl. symmetry. apply INR_IZR_INZ. Qed.
  Lemma prefix_prod_norm : forall (h : R -> R) b i, (i < M)%nat -> b = Z.of_nat (M - 1 - i) ->
    prod_list (map h (py_upto x b)) = big_prod (fun j => h (X x j)) (M - 1 - i).
  Proof.
    intros h b i Hi ->. rewrite (py_upto_eq x _ (M - 1 - i)) by reflexivity.
    rewrite prod_list_map_firstn by lia. reflexivity.
  Qed.
  Lemma pos_norm : forall b i, (i < M)%nat -> b = Z.of_nat (M - 1 - i) -> py_nth x b = X x (M - 1 - i).
  Proof. intros b i Hi ->. apply py_nth_nat. Qed.
  Lemma repeat_norm : forall c i, (i < M)%nat -> nth i (py_repeat c Mz) 0 = c.
  Proof. intros c i Hi. unfold py_repeat. rewrite Nat2Z.id. now apply nth_repeat_lt. Qed.

  (* the update loop over range(nobjs) as a map over the objective index *)
  Ltac loop_to_map :=
    rewrite loop_upd_nat by (rewrite py_repeat_length; lia);
    apply map_ext_in; intros i Hi; apply in_seq in Hi; cbv beta zeta;
    rewrite repeat_norm by lia;
    repeat rewrite (prefix_prod_norm _ _ i) by lia;
    repeat rewrite (pos_norm _ i) by lia;
    cbv beta.
  Ltac split_first_objective i :=
    destruct (Z.ltb_spec 0 (Z.of_nat i)); destruct (Nat.eqb_spec i 0); try lia.
  Ltac g_norm :=
    cbv zeta;
    repeat match goal with |- context [sum_list (map ?h (py_from x ?a))] => rewrite (tail_norm h a) by lia end;
    repeat match goal with |- context [sum_list (py_from x ?a)] => rewrite (tail_norm_id a) by lia end;
    repeat match goal with |- context [IZR ?z] =>
       lazymatch z with Z.of_nat _ => fail | _ => rewrite (k_norm z) by lia end end.

  (* ---- generated = published *)
  Lemma dtlz2_gen_eq_ref : DTLZ2_eval Mz nz x = dtlz2_ref M x.
  Proof.
    unfold DTLZ2_eval, dtlz2_ref. g_norm. fold (dtlz_g24 x M). loop_to_map.
    unfold dtlz_sph. split_first_objective i; same_big_prod; real_eq.
  Qed.
  Lemma dtlz3_gen_eq_ref : DTLZ3_eval Mz nz x = dtlz3_ref M x.
  Proof.
    unfold DTLZ3_eval, dtlz3_ref. g_norm. fold (dtlz_g13 x M). loop_to_map.
    unfold dtlz_sph. split_first_objective i; same_big_prod; real_eq.
  Qed.
  Lemma dtlz4_gen_eq_ref : forall alpha, DTLZ4_eval Mz nz alpha x = dtlz4_ref M alpha x.
  Proof.
    intros alpha. unfold DTLZ4_eval, dtlz4_ref. g_norm. fold (dtlz_g24 x M). loop_to_map.
    unfold dtlz_sph. split_first_objective i; same_big_prod; real_eq.
  Qed.
  Lemma dtlz1_gen_eq_ref : DTLZ1_eval Mz nz x = dtlz1_ref M x.
  Proof.
    unfold DTLZ1_eval, dtlz1_ref. g_norm. fold (dtlz_g13 x M). loop_to_map.
    unfold dtlz_lin. split_first_objective i; same_big_prod; real_eq.
  Qed.

  (* ---- exactly M objectives *)
  Lemma ref_len2 : length (dtlz2_ref M x) = M. Proof. unfold dtlz2_ref. now rewrite map_length, seq_length. Qed.
  Lemma dtlz1_out_length : length (DTLZ1_eval Mz nz x) = M.
  Proof. rewrite dtlz1_gen_eq_ref. unfold dtlz1_ref. now rewrite map_length, seq_length. Qed.
  Lemma dtlz2_out_length : length (DTLZ2_eval Mz nz x) = M.
  Proof. rewrite dtlz2_gen_eq_ref. apply ref_len2. Qed.
  Lemma dtlz3_out_length : length (DTLZ3_eval Mz nz x) = M.
  Proof. rewrite dtlz3_gen_eq_ref. unfold dtlz3_ref. now rewrite map_length, seq_length. Qed.
  Lemma dtlz4_out_length : forall alpha, length (DTLZ4_eval Mz nz alpha x) = M.
  Proof. intros alpha. rewrite dtlz4_gen_eq_ref. unfold dtlz4_ref. now rewrite map_length, seq_length. Qed.

  (* ---- the identities and the lower bounds *)
  Lemma dtlz1_sum_identity : sum_of (DTLZ1_eval Mz nz x) = (1 + dtlz_g13 x M) / 2.
  Proof.
    rewrite dtlz1_gen_eq_ref. unfold dtlz1_ref. rewrite sum_of_map_seq, big_sum_scal, lin_sum by assumption. field.
  Qed.
  Lemma dtlz1_lower : 1 / 2 <= sum_of (DTLZ1_eval Mz nz x).
  Proof. rewrite dtlz1_sum_identity. pose proof g13_nonneg. lra. Qed.

  Lemma sph_identity : forall c th, sumsq_of (map (fun i => c * dtlz_sph M th i) (seq 0 M)) = c ^ 2.
  Proof.
    intros c th. rewrite sumsq_of_map_seq.
    rewrite (big_sum_ext M _ (fun i => c ^ 2 * dtlz_sph M th i ^ 2)) by (intros; ring).
    rewrite big_sum_scal, sph_sumsq by assumption. ring.
  Qed.
  Lemma dtlz2_sumsq_identity : sumsq_of (DTLZ2_eval Mz nz x) = (1 + dtlz_g24 x M) ^ 2.
  Proof. rewrite dtlz2_gen_eq_ref. apply sph_identity. Qed.
  Lemma dtlz3_sumsq_identity : sumsq_of (DTLZ3_eval Mz nz x) = (1 + dtlz_g13 x M) ^ 2.
  Proof. rewrite dtlz3_gen_eq_ref. apply sph_identity. Qed.
  Lemma dtlz4_sumsq_identity : forall alpha, sumsq_of (DTLZ4_eval Mz nz alpha x) = (1 + dtlz_g24 x M) ^ 2.
  Proof. intros alpha. rewrite dtlz4_gen_eq_ref. apply sph_identity. Qed.

  Lemma sq_ge_1 : forall g, 0 <= g -> 1 <= (1 + g) ^ 2. Proof. intros g Hg. nra. Qed.
  Lemma dtlz2_lower : 1 <= sumsq_of (DTLZ2_eval Mz nz x).
  Proof. rewrite dtlz2_sumsq_identity. apply sq_ge_1, g24_nonneg. Qed.
  Lemma dtlz3_lower : 1 <= sumsq_of (DTLZ3_eval Mz nz x).
  Proof. rewrite dtlz3_sumsq_identity. apply sq_ge_1, g13_nonneg. Qed.
  Lemma dtlz4_lower : forall alpha, 1 <= sumsq_of (DTLZ4_eval Mz nz alpha x).
  Proof. intros alpha. rewrite dtlz4_sumsq_identity. apply sq_ge_1, g24_nonneg. Qed.

  (* ---- the samplers' construction: distance variables at 1/2 give g = 0, i.e. the front equation with equality *)
  Definition tail_at_half : Prop := forall j, (j < dtlz_k x M)%nat -> X x (M - 1 + j) = 1 / 2.
  Lemma g24_zero : tail_at_half -> dtlz_g24 x M = 0.
  Proof.
    intros H. unfold dtlz_g24, dtlz_tail_sum. rewrite (big_sum_ext _ _ (fun _ => 0 * 0)).
    - rewrite big_sum_scal. ring.
    - intros j Hj. rewrite H by assumption. ring.
  Qed.
  Lemma g13_zero : tail_at_half -> dtlz_g13 x M = 0.
  Proof.
    intros H. unfold dtlz_g13, dtlz_tail_sum. rewrite (big_sum_ext _ _ (fun _ => (-1) * 1)).
    - rewrite big_sum_scal. assert (E : forall m, big_sum (fun _ => 1) m = INR m).
      { induction m as [|m IH]; [reflexivity|]. rewrite S_INR. simpl. rewrite IH. ring. }
      rewrite E. ring.
    - intros j Hj. rewrite H by assumption. replace (20 * PI * (1 / 2 - 1 / 2)) with 0 by ring. rewrite cos_0. ring.
  Qed.
  Lemma dtlz1_sampler_on_front : tail_at_half -> sum_of (DTLZ1_eval Mz nz x) = 1 / 2.
  Proof. intros H. rewrite dtlz1_sum_identity, g13_zero by assumption. field. Qed.
  Lemma dtlz2_sampler_on_front : tail_at_half -> sumsq_of (DTLZ2_eval Mz nz x) = 1.
  Proof. intros H. rewrite dtlz2_sumsq_identity, g24_zero by assumption. ring. Qed.
  Lemma dtlz3_sampler_on_front : tail_at_half -> sumsq_of (DTLZ3_eval Mz nz x) = 1.
  Proof. intros H. rewrite dtlz3_sumsq_identity, g13_zero by assumption. ring. Qed.
  Lemma dtlz4_sampler_on_front : forall alpha, tail_at_half -> sumsq_of (DTLZ4_eval Mz nz alpha x) = 1.
  Proof. intros alpha H. rewrite dtlz4_sumsq_identity, g24_zero by assumption. ring. Qed.

  (* ---- no Python exception (index errors are the only possible ones in DTLZ1-4) *)
  Ltac dtlz_defined :=
    cbv zeta; split;
    [ apply Forall_forall; intros i Hi; apply in_zrange in Hi; split;
      [ unfold idx_ok, zlen; rewrite py_repeat_length; lia
      | destruct (Z.ltb_spec 0 i); [unfold idx_ok, zlen; rewrite Hl; lia | exact I] ]
    | rewrite loop_upd_nat by (rewrite py_repeat_length; lia); unfold zlen; now rewrite map_length, seq_length ].
  Lemma dtlz1_defined : DTLZ1_defined Mz nz x. Proof. unfold DTLZ1_defined. dtlz_defined. Qed.
  Lemma dtlz2_defined : DTLZ2_defined Mz nz x. Proof. unfold DTLZ2_defined. dtlz_defined. Qed.
  Lemma dtlz3_defined : DTLZ3_defined Mz nz x. Proof. unfold DTLZ3_defined. dtlz_defined. Qed.
  (* DTLZ4 additionally takes x^alpha: defined for x in [0,1] and alpha >= 0 *)
  Lemma dtlz4_defined : forall alpha, 0 <= alpha -> in01 x -> DTLZ4_defined Mz nz alpha x.
  Proof.
    intros alpha Ha Hx.
    assert (RP : forall v, 0 <= v <= 1 -> rpow_ok v alpha).
    { intros v [[P|Z] _]; unfold rpow_ok; [now left|right; split; [now symmetry|exact Ha]]. }
    unfold DTLZ4_defined. cbv zeta. split.
    - apply Forall_forall; intros i Hi; apply in_zrange in Hi. split; [|split].
      + unfold idx_ok, zlen; rewrite py_repeat_length; lia.
      + apply Forall_forall. intros v Hv. apply RP. unfold in01 in Hx. rewrite Forall_forall in Hx. apply Hx.
        unfold py_upto in Hv. rewrite <- (firstn_skipn (norm_idx (length x) (Mz - i - 1)) x). apply in_or_app. now left.
      + destruct (Z.ltb_spec 0 i); [|exact I]. split; [unfold idx_ok, zlen; rewrite Hl; lia|].
        apply RP. unfold py_nth. apply in01_nth, Hx.
    - rewrite loop_upd_nat by (rewrite py_repeat_length; lia); unfold zlen; now rewrite map_length, seq_length.
  Qed.
End DTLZ.

(* ------------------------------------------------------------------ DTLZ7 (needs k = n - M + 1 >= 1) *)
Section DTLZ7.
  Variable M n : nat.
  Variable x : list R.
  Hypothesis HM : (1 <= M)%nat.
  Hypothesis HMn : (M <= n)%nat.
  Hypothesis Hl : length x = n.
  Notation Mz := (Z.of_nat M).
  Notation nz := (Z.of_nat n).
  Lemma HMn' : (M - 1 <= n)%nat. Proof. lia. Qed.

  Lemma firstn_as_map : forall m, (m <= length x)%nat -> firstn m x = map (fun i => X x i) (seq 0 m).
  Proof.
    intros m Hm. apply nth_ext with (d := 0) (d' := 0).
    - rewrite firstn_length, map_length, seq_length. lia.
    - intros i Hi. rewrite firstn_length in Hi. rewrite nth_firstn_lt' by lia.
      rewrite (nth_map_lt _ _ _ 0%nat) by (rewrite seq_length; lia). now rewrite seq_nth by lia.
  Qed.

  Lemma objs_norm : forall a b v, a = Z.of_nat (M - 1) -> b = Z.of_nat (M - 1) ->
    py_set (py_set_slice (py_repeat 0 Mz) 0 a (py_upto x b)) (-1) v = map (fun i => X x i) (seq 0 (M - 1)) ++ [v].
  Proof.
    intros a b v -> ->. rewrite (py_upto_eq x _ (M - 1)) by reflexivity.
    unfold py_set_slice. rewrite py_repeat_length, Nat2Z.id, !norm_idx_nat. change (norm_idx M 0) with 0%nat.
    cbn [firstn app]. unfold py_repeat. rewrite Nat2Z.id.
    assert (SK : skipn (M - 1) (repeat 0 M) = [0]).
    { replace M with ((M - 1) + 1)%nat at 2 by lia. rewrite repeat_app, skipn_app, repeat_length, Nat.sub_diag.
      rewrite skipn_all2 by (rewrite repeat_length; lia). reflexivity. }
    rewrite SK. unfold py_set. rewrite app_length, firstn_length. cbn [length].
    replace (Nat.min (M - 1) (length x)) with (M - 1)%nat by lia.
    rewrite norm_idx_neg by lia. replace (Z.to_nat (Z.of_nat (M - 1 + 1) + -1)) with (M - 1)%nat by lia.
    cbv zeta. rewrite firstn_app, firstn_length. replace (Nat.min (M - 1) (length x)) with (M - 1)%nat by lia.
    rewrite Nat.sub_diag. cbn [firstn]. rewrite app_nil_r.
    rewrite firstn_all2 by (rewrite firstn_length; lia).
    rewrite skipn_all2 by (rewrite app_length, firstn_length; cbn [length]; lia).
    now rewrite firstn_as_map by lia.
  Qed.

  Lemma prefix_sum_norm : forall (h : R -> R) b, b = Z.of_nat (M - 1) ->
    sum_list (map h (py_upto x b)) = big_sum (fun i => h (X x i)) (M - 1).
  Proof. intros h b ->. rewrite (py_upto_eq x _ (M - 1)) by reflexivity. now rewrite sum_list_map_firstn by lia. Qed.

  Lemma dtlz7_gen_eq_ref : DTLZ7_eval Mz nz x = dtlz7_ref M x.
  Proof.
    unfold DTLZ7_eval, dtlz7_ref. cbv zeta.
    rewrite objs_norm by lia. f_equal. apply cons_eq; [|reflexivity].
    repeat match goal with |- context [sum_list (map ?h (py_upto x ?b))] => rewrite (prefix_sum_norm h b) by lia end.
    repeat match goal with |- context [sum_list (py_from x ?a)] => rewrite (tail_norm_id M n x) by lia end.
    repeat match goal with |- context [IZR ?z] =>
       lazymatch z with Z.of_nat _ => fail | _ => rewrite (k_norm M n x Hl z) by lia end end.
    rewrite <- INR_IZR_INZ. unfold dtlz7_h, dtlz_g7.
    same_big_sum. real_eq.
  Qed.

  Lemma dtlz7_out_length : length (DTLZ7_eval Mz nz x) = M.
  Proof. rewrite dtlz7_gen_eq_ref. unfold dtlz7_ref. rewrite app_length, map_length, seq_length. cbn [length]. lia. Qed.

  Lemma g7_ge_1 : in01 x -> 1 <= dtlz_g7 x M.
  Proof.
    intros Hx. unfold dtlz_g7, dtlz_tail_sum.
    assert (K : 1 <= INR (dtlz_k x M)). { apply (le_INR 1). unfold dtlz_k. lia. }
    assert (S0 : 0 <= big_sum (fun j => X x (M - 1 + j)) (dtlz_k x M)) by (apply big_sum_nonneg; intros; apply in01_nth, Hx).
    assert (0 <= 9 / INR (dtlz_k x M) * big_sum (fun j => X x (M - 1 + j)) (dtlz_k x M)).
    { apply Rmult_le_pos; [apply div_nonneg; lra|exact S0]. }
    lra.
  Qed.

  Lemma dtlz7_defined : in01 x -> DTLZ7_defined Mz nz x.
  Proof.
    intros Hx. pose proof (g7_ge_1 Hx) as G. unfold dtlz_g7 in G.
    assert (K : 1 <= INR (dtlz_k x M)). { apply (le_INR 1). unfold dtlz_k. lia. }
    unfold DTLZ7_defined. cbv zeta.
    repeat match goal with |- context [sum_list (py_from x ?a)] => rewrite (tail_norm_id M n x) by lia end.
    repeat match goal with |- context [IZR ?z] =>
       lazymatch z with Z.of_nat _ => fail | _ => rewrite (k_norm M n x Hl z) by lia end end.
    split; [lra|]. split; [|split].
    - apply Forall_forall. intros t _.
      assert (E : 9 * dtlz_tail_sum (fun t => t) x M / INR (dtlz_k x M) = 9 / INR (dtlz_k x M) * dtlz_tail_sum (fun t => t) x M) by (field; lra).
      first [ lra | (rewrite ?E; lra) | (apply Rgt_not_eq; rewrite ?E; lra) ].
    - unfold slice_len_ok. rewrite py_repeat_length, Nat2Z.id.
      rewrite (py_upto_eq x _ (M - 1)) by lia. rewrite firstn_length.
      rewrite (norm_idx_nonneg M (Mz - 1)) by lia. change (norm_idx M 0) with 0%nat. lia.
    - unfold idx_ok, zlen, py_set_slice. rewrite py_repeat_length, Nat2Z.id.
      rewrite (py_upto_eq x _ (M - 1)) by lia.
      rewrite !app_length, firstn_length, skipn_length, firstn_length.
      change (norm_idx M 0) with 0%nat. rewrite (norm_idx_nonneg M (Mz - 1)) by lia.
      unfold py_repeat. rewrite repeat_length. lia.
  Qed.
End DTLZ7.

(* non-vacuity: the hypotheses of the DTLZ theorems hold e.g. for 3 objectives and the constructors' variable counts,
   at a point of the samplers' form (positions 1/4, 3/4; distance variables 1/2) *)
Example dtlz_hyps_3_12 : let x := [1 / 4; 3 / 4] ++ repeat (1 / 2) 10 in
  (1 <= 3)%nat /\ (3 - 1 <= 12)%nat /\ length x = 12%nat /\ in01 x /\ tail_at_half 3 x.
Proof.
  cbv zeta. repeat split; try (simpl; lia).
  - unfold in01. repeat constructor; lra.
  - unfold tail_at_half, dtlz_k, X. simpl length. intros j Hj.
    do 10 (destruct j as [|j]; [simpl; lra|]). simpl in Hj. lia.
Qed.
Example dtlz7_hyps_3_22 : (1 <= 3)%nat /\ (3 <= 22)%nat /\ length (repeat (1 / 2) 22) = 22%nat /\ in01 (repeat (1 / 2) 22).
Proof. repeat split; try lia. unfold in01. apply Forall_forall. intros t Ht. apply repeat_spec in Ht. subst. lra. Qed.
