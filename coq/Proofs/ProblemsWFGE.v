(* Proofs/ProblemsWFGE.v — C18, part 10: WFG4 and WFG5 as whole problems: the translated evaluate pipeline equals the published
   composition (normalisation, s_multi / s_decept, reduction with one position parameter per group, concave shape) for every
   M >= 2, every n >= M - 1 and every in-bounds z; _correct_to_01 is the identity on the values that occur. *)
From Coq Require Import Reals List ZArith Lia Lra Bool.
Import ListNotations.
From PV Require Import Base.RList Gen.Problems Model.ProblemsRef Proofs.ProblemsProofs Proofs.ProblemsDTLZ Proofs.ProblemsWFG Proofs.ProblemsWFGT Proofs.ProblemsWFGP.
Open Scope R_scope.
Set Default Timeout 60.

Lemma correct_fix : forall a, 0 <= fn_correct_to_01_eval a <= 1 -> (0 <= a <= 1 -> fn_correct_to_01_eval a = a) .
Proof. intros a _ H. now apply correct_01_id. Qed.

(* generated scalar transformation = correction of the published expression *)
Lemma s_multi_unfold : forall y A B C, fn_s_multi_eval y A B C = fn_correct_to_01_eval (wfg_s_multi y A B C).
Proof. intros. unfold fn_s_multi_eval, wfg_s_multi, py_floor. cbv zeta. first [reflexivity | (f_equal; real_eq)]. Qed.
Lemma s_decept_unfold : forall y A B C, fn_s_decept_eval y A B C = fn_correct_to_01_eval (wfg_s_decept y A B C).
Proof. intros. unfold fn_s_decept_eval, wfg_s_decept, py_floor. cbv zeta. first [reflexivity | (f_equal; real_eq)]. Qed.

(* the published expressions stay in [0,1] (same case analyses as the generated ones in ProblemsWFGT.v) *)
Lemma s_multi_ref_range : forall y A B, 0 <= y <= 1 -> 0 <= B -> 0 <= wfg_s_multi y A B (7 / 20) <= 1.
Proof.
  intros y A B Hy HB. unfold wfg_s_multi. cbv zeta. change Int_part with py_floor.

  assert (T : exists t1, Rabs (y - 7 / 20) / (2 * (IZR (py_floor (7 / 20 - y)) + 7 / 20)) = t1 /\ - (1 / 2) <= t1 <= 1 / 2).
  { destruct (Rle_lt_dec y (7 / 20)) as [L|G].
    - rewrite floor_0 by lra. simpl IZR. rewrite Rabs_left1 by lra. eexists; split; [reflexivity|].
      split; [assert (0 <= - (y - 7 / 20) / (2 * (0 + 7 / 20))) by (apply div_nonneg; lra); lra|].
      apply Rmult_le_reg_r with (2 * (0 + 7 / 20)); [lra|]. field_simplify; lra.
    - rewrite floor_m1 by lra. rewrite Rabs_right by lra. exists (- ((y - 7 / 20) / (13 / 10))). split; [simpl; field|].
      assert (0 <= (y - 7 / 20) / (13 / 10)) by (apply div_nonneg; lra).
      assert ((y - 7 / 20) / (13 / 10) <= 1 / 2). { apply Rmult_le_reg_r with (13 / 10); [lra|]. field_simplify; lra. }
      lra. }
  destruct T as [t1 [-> Ht1]].
  match goal with |- context [cos ?a] => pose proof (COS_bound a) as [C1 C2] end.
  assert (Q : 0 <= t1 ^ 2 <= 1 / 4) by nra.
  split.
  - apply div_nonneg; [|lra]. nra.
  - apply div_le_1; [lra|]. nra.
Qed.
Lemma s_decept_ref_range : forall y, 0 <= y <= 1 -> 0 <= wfg_s_decept y (7 / 20) (1 / 1000) (1 / 20) <= 1.
Proof.
  intros y Hy. unfold wfg_s_decept. change Int_part with py_floor.

  destruct (Rlt_le_dec y (349 / 1000)) as [R1|R1'].
  - rewrite (floor_m1 (y - 7 / 20 + 1 / 1000)) by lra. rewrite (floor_0 (7 / 20 + 1 / 1000 - y)) by lra.
    rewrite Rabs_left1 by lra. simpl IZR. split; field_simplify; lra.
  - destruct (Rle_lt_dec y (351 / 1000)) as [R2|R3].
    + rewrite (floor_0 (y - 7 / 20 + 1 / 1000)) by lra. rewrite (floor_0 (7 / 20 + 1 / 1000 - y)) by lra. simpl IZR.
      destruct (Rle_lt_dec y (7 / 20)).
      * rewrite Rabs_left1 by lra. split; field_simplify; lra.
      * rewrite Rabs_right by lra. split; field_simplify; lra.
    + rewrite (floor_0 (y - 7 / 20 + 1 / 1000)) by lra. rewrite (floor_m1 (7 / 20 + 1 / 1000 - y)) by lra.
      rewrite Rabs_right by lra. simpl IZR. split; field_simplify; lra.
Qed.
Lemma s_multi_gen_eq_ref : forall y A B, 0 <= y <= 1 -> 0 <= B -> fn_s_multi_eval y A B (7 / 20) = wfg_s_multi y A B (7 / 20).
Proof. intros. rewrite s_multi_unfold. apply correct_01_id. now apply s_multi_ref_range. Qed.
Lemma s_decept_gen_eq_ref : forall y, 0 <= y <= 1 -> fn_s_decept_eval y (7 / 20) (1 / 1000) (1 / 20) = wfg_s_decept y (7 / 20) (1 / 1000) (1 / 20).
Proof. intros. rewrite s_decept_unfold. apply correct_01_id. now apply s_decept_ref_range. Qed.

(* ------------------------------------------------------------------ list level *)
Lemma big_sum_const1 : forall c n, big_sum (fun _ => c) n = INR n * c.
Proof. intros c n. induction n as [|n IH]; [simpl; lra|]. rewrite S_INR. cbn [big_sum]. rewrite IH. lra. Qed.
Lemma normalize_gen_eq_ref : forall z, fn_normalize_z_eval z = wfg_norm z.
Proof.
  intros z. unfold fn_normalize_z_eval, wfg_norm. rewrite (zrange_from 0 (zlen z) (length z)) by (unfold zlen; lia).
  rewrite map_map. apply map_ext. intros i. rewrite Z.add_0_l, py_nth_nat. unfold X.
  replace (Z.of_nat i + 1)%Z with (Z.of_nat (S i)) by lia. now rewrite <- INR_IZR_INZ.
Qed.

Lemma mean_range : forall l, in01 l -> 0 <= wfg_mean l <= 1.
Proof.
  intros l H. unfold wfg_mean.
  assert (S0 : 0 <= big_sum (fun i => X l i) (length l)) by (apply big_sum_nonneg; intros; apply in01_nth, H).
  assert (S1 : big_sum (fun i => X l i) (length l) <= INR (length l)).
  { rewrite <- (Rmult_1_r (INR (length l))), <- big_sum_const1. apply big_sum_le. intros i _. apply in01_nth, H. }
  destruct (Req_EM_T (INR (length l)) 0) as [Z|NZ].
  - rewrite Z. unfold Rdiv. rewrite Rinv_0, Rmult_0_r. lra.
  - pose proof (pos_INR (length l)). split; [apply div_nonneg; lra|apply div_le_1; lra].
Qed.

(* r_sum of a one-element group with weight 1 is that element; r_sum of the tail with weights 1 is its mean *)
Lemma subvector_nat : forall y (a b : nat), fn_subvector_eval y (Z.of_nat a) (Z.of_nat b) = map (fun i => X y (a + i)) (seq 0 (b - a)).
Proof.
  intros y a b. unfold fn_subvector_eval. unfold zrange. replace (Z.to_nat (Z.of_nat b - Z.of_nat a)) with (b - a)%nat by lia.
  rewrite map_map. apply map_ext. intros i. unfold X. apply py_nth_eq. lia.
Qed.
Lemma r_sum_ones_mean : forall y (a b n : nat), in01 y -> (a <= b)%nat -> (b <= n)%nat -> length y = n ->
  fn_r_sum_eval (fn_subvector_eval y (Z.of_nat a) (Z.of_nat b)) (fn_subvector_eval (py_repeat 1 (Z.of_nat n)) (Z.of_nat a) (Z.of_nat b))
  = wfg_mean (firstn (b - a) (skipn a y)).
Proof.
  intros y a b n Hy Hab Hbn Hl. unfold fn_r_sum_eval. cbv zeta.
  assert (L : zlen (fn_subvector_eval y (Z.of_nat a) (Z.of_nat b)) = Z.of_nat (b - a)) by (rewrite subvector_zlen; lia).
  rewrite L. rewrite !(sum_list_map_zrange _ 0 (Z.of_nat (b - a)) (b - a)) by lia.
  assert (W : forall i, (i < b - a)%nat -> py_nth (fn_subvector_eval (py_repeat 1 (Z.of_nat n)) (Z.of_nat a) (Z.of_nat b)) (0 + Z.of_nat i) = 1).
  { intros i Hi. rewrite Z.add_0_l, py_nth_nat, subvector_nat. rewrite (nth_map_lt _ _ _ 0%nat) by (rewrite seq_length; lia).
    rewrite seq_nth by lia. unfold X, py_repeat. rewrite Nat2Z.id. apply nth_repeat_lt. lia. }
  assert (V : forall i, (i < b - a)%nat -> py_nth (fn_subvector_eval y (Z.of_nat a) (Z.of_nat b)) (0 + Z.of_nat i) = X (firstn (b - a) (skipn a y)) i).
  { intros i Hi. rewrite Z.add_0_l, py_nth_nat, subvector_nat. rewrite (nth_map_lt _ _ _ 0%nat) by (rewrite seq_length; lia).
    rewrite seq_nth by lia. unfold X. rewrite nth_firstn_lt' by lia. now rewrite nth_skipn'. }
  rewrite (big_sum_ext (b - a) _ (fun i => X (firstn (b - a) (skipn a y)) i)) by (intros i Hi; rewrite W, V by assumption; ring).
  rewrite (big_sum_ext (b - a) (fun t => py_nth _ (0 + Z.of_nat t)) (fun _ => 1)) by (intros i Hi; now apply W).
  rewrite big_sum_const1. rewrite Rmult_1_r.
  assert (LL : length (firstn (b - a) (skipn a y)) = (b - a)%nat) by (rewrite firstn_length, skipn_length; lia).
  assert (E : big_sum (fun i => X (firstn (b - a) (skipn a y)) i) (b - a) / INR (b - a) = wfg_mean (firstn (b - a) (skipn a y))) by (unfold wfg_mean; now rewrite LL).
  rewrite E. apply correct_01_id, mean_range. now apply in01_firstn, in01_skipn.
Qed.

Lemma firstn_as_map_X : forall (y : list R) m, (m <= length y)%nat -> firstn m y = map (fun i => X y i) (seq 0 m).
Proof.
  intros y m Hm. apply nth_ext with (d := 0) (d' := 0).
  - rewrite firstn_length, map_length, seq_length. lia.
  - intros i Hi. rewrite firstn_length in Hi. rewrite nth_firstn_lt' by lia.
    rewrite (nth_map_lt _ _ _ 0%nat) by (rewrite seq_length; lia). now rewrite seq_nth by lia.
Qed.
Lemma mean_single : forall y i, (i < length y)%nat -> wfg_mean (firstn 1 (skipn i y)) = X y i.
Proof.
  intros y i Hi. unfold wfg_mean. rewrite firstn_length, skipn_length. replace (Nat.min 1 (length y - i)) with 1%nat by lia.
  cbn [big_sum]. unfold X. rewrite nth_firstn_lt' by lia. rewrite nth_skipn'. rewrite Nat.add_0_r. simpl. field.
Qed.

Lemma reduce_gen_eq_ref : forall (M n : nat) y, (2 <= M)%nat -> (M - 1 <= n)%nat -> length y = n -> in01 y ->
  fn_WFG2_t3_eval y (Z.of_nat M - 1) (Z.of_nat M) = wfg_reduce_k1 M y.
Proof.
  intros M n y HM Hk Hl Hy. unfold fn_WFG2_t3_eval, wfg_reduce_k1. cbv zeta. rewrite fold_append. cbn [app].
  unfold zlen. rewrite Hl. f_equal.
  - rewrite (zrange_from 0 (Z.of_nat M - 1) (M - 1)) by lia. rewrite map_map.
    rewrite (firstn_as_map_X y (M - 1)) by lia. apply map_ext_in. intros i Hi. apply in_seq in Hi. rewrite Z.add_0_l.
    rewrite Z.div_mul by lia. replace ((Z.of_nat i + 1) * (Z.of_nat M - 1) / (Z.of_nat M - 1))%Z with (Z.of_nat (i + 1)) by (rewrite Z.div_mul by lia; lia).
    rewrite (r_sum_ones_mean y i (i + 1) n) by (try assumption; lia).
    replace (i + 1 - i)%nat with 1%nat by lia. apply mean_single. lia.
  - f_equal. replace (Z.of_nat M - 1)%Z with (Z.of_nat (M - 1)) by lia.
    rewrite (r_sum_ones_mean y (M - 1) n n) by (try assumption; lia).
    rewrite firstn_all2 by (rewrite skipn_length; lia). reflexivity.
Qed.

(* ------------------------------------------------------------------ WFG4 and WFG5 as whole problems *)
Section Whole.
  Variable M n : nat.
  Variable z : list R.
  Hypothesis HM : (2 <= M)%nat.
  Hypothesis Hk : (M - 1 <= n)%nat.
  Hypothesis Hl : length z = n.
  Hypothesis Hz : wfg_box z.

  Lemma norm_in01 : in01 (wfg_norm z). Proof. rewrite <- normalize_gen_eq_ref. now apply normalize_in01. Qed.
  Lemma norm_length : length (wfg_norm z) = n. Proof. unfold wfg_norm. now rewrite map_length, seq_length. Qed.

  Lemma whole (f : R -> R) (g : R -> R) : (forall v, 0 <= v <= 1 -> f v = g v) -> (forall v, 0 <= v <= 1 -> 0 <= g v <= 1) ->
    fn_WFG4_shape_eval (fn_WFG2_t3_eval (map f (fn_normalize_z_eval z)) (Z.of_nat M - 1) (Z.of_nat M))
    = wfg4_shape_ref (wfg_reduce_k1 M (map g (wfg_norm z))).
  Proof.
    intros Hfg Hg. rewrite normalize_gen_eq_ref.
    assert (E : map f (wfg_norm z) = map g (wfg_norm z)).
    { apply map_ext_in. intros v Hv. apply Hfg. pose proof norm_in01 as N. unfold in01 in N. rewrite Forall_forall in N. now apply N. }
    rewrite E.
    assert (I : in01 (map g (wfg_norm z))) by (apply in01_map; [exact Hg|exact norm_in01]).
    rewrite (reduce_gen_eq_ref M n) by (try assumption; rewrite ?map_length; try exact norm_length; lia).
    apply wfg4_shape_gen_eq_ref.
    - unfold wfg_reduce_k1. rewrite app_length. cbn [length]. lia.
    - unfold wfg_reduce_k1. apply in01_app; [now apply in01_firstn|apply in01_single, mean_range; now apply in01_skipn].
  Qed.

  Theorem wfg4_gen_eq_ref : forall nvars, WFG4_eval (Z.of_nat M) nvars z = wfg4_ref M z.
  Proof.
    intros nvars. unfold WFG4_eval, wfg4_ref, fn_WFG4_t1_eval. cbv zeta.
    apply (whole (fun v => fn_s_multi_eval v 30 10 (7 / 20)) (fun v => wfg_s_multi v 30 10 (7 / 20))).
    - intros v Hv. apply s_multi_gen_eq_ref; [exact Hv|lra].
    - intros v Hv. apply s_multi_ref_range; [exact Hv|lra].
  Qed.
  Theorem wfg5_gen_eq_ref : forall nvars, WFG5_eval (Z.of_nat M) nvars z = wfg5_ref M z.
  Proof.
    intros nvars. unfold WFG5_eval, wfg5_ref, fn_WFG5_t1_eval. cbv zeta.
    apply (whole (fun v => fn_s_decept_eval v (7 / 20) (1 / 1000) (1 / 20)) (fun v => wfg_s_decept v (7 / 20) (1 / 1000) (1 / 20))).
    - intros v Hv. now apply s_decept_gen_eq_ref.
    - intros v Hv. now apply s_decept_ref_range.
  Qed.
  Lemma wfg4_out_length : forall nvars, length (WFG4_eval (Z.of_nat M) nvars z) = M.
  Proof.
    intros nvars. rewrite wfg4_gen_eq_ref. unfold wfg4_ref, wfg4_shape_ref. cbv zeta. rewrite map_length, seq_length.
    unfold wfg_reduce_k1. rewrite app_length, firstn_length, map_length, norm_length. cbn [length]. lia.
  Qed.
  Lemma wfg5_out_length : forall nvars, length (WFG5_eval (Z.of_nat M) nvars z) = M.
  Proof.
    intros nvars. rewrite wfg5_gen_eq_ref. unfold wfg5_ref, wfg4_shape_ref. cbv zeta. rewrite map_length, seq_length.
    unfold wfg_reduce_k1. rewrite app_length, firstn_length, map_length, norm_length. cbn [length]. lia.
  Qed.
End Whole.
