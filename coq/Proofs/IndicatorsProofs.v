(* Proofs about Model/Indicators.v.
   Part 1: the error monad, core.normalize and the store (object aliasing): under
           well-formedness (vectors as long as the problem says; equal sid = same object =
           same fields) normalize writes exactly (o - min)/(max - min) onto every feasible
           object and every later read of normalized_objectives returns it.
   Part 2: the indicators (epsilon, GD, IGD, spacing): textbook formulas, zero on the
           reference set, non-negativity, monotonicity, +inf without feasible members,
           order independence.
   All statements are about exact rational arithmetic. *)
From Coq Require Import ZArith QArith Qabs Bool List Lia Lqa Permutation Setoid Morphisms.
Import ListNotations.
From PV Require Import Base.Num Base.Order Model.Indicators.
Open Scope Q_scope.

(* ================= Part 1 ================= *)

Lemma mapM_ok_map {A B} (f : A -> res B) (g : A -> B) l :
  (forall x, In x l -> f x = Ok (g x)) -> mapM f l = Ok (map g l).
Proof.
  induction l as [|a r IH]; intro Hf; [reflexivity|].
  simpl. rewrite (Hf a (or_introl eq_refl)). simpl. rewrite IH; [reflexivity|].
  intros x Hx. apply Hf. now right.
Qed.

Lemma mapM_length {A B} (f : A -> res B) l : forall r, mapM f l = Ok r -> length r = length l.
Proof.
  induction l as [|a t IH]; intros r E; simpl in E.
  - now inversion E.
  - destruct (f a); simpl in E; [|discriminate]. destruct (mapM f t); simpl in E; [|discriminate].
    inversion E. simpl. f_equal. now apply IH.
Qed.

Lemma nth_res_ok {A} (l : list A) i d : (i < length l)%nat -> nth_res l i = Ok (nth i l d).
Proof.
  intro Hi. unfold nth_res. rewrite (nth_error_nth' l d Hi). reflexivity.
Qed.

Lemma filter_map_comm {A B} (f : A -> B) (p : B -> bool) l :
  filter p (map f l) = map f (filter (fun x => p (f x)) l).
Proof.
  induction l as [|a r IH]; [reflexivity|]. simpl. destruct (p (f a)); simpl; now rewrite IH.
Qed.

Lemma feasible_idem l : feasible (feasible l) = feasible l.
Proof.
  unfold feasible. induction l as [|a r IH]; [reflexivity|]. simpl.
  destruct (feasibleb a) eqn:E; simpl; [rewrite E; now rewrite IH | exact IH].
Qed.

Lemma feasible_app l1 l2 : feasible (l1 ++ l2) = feasible l1 ++ feasible l2.
Proof. apply filter_app. Qed.

Lemma feasible_in l s : In s (feasible l) <-> In s l /\ feasibleb s = true.
Proof. apply filter_In. Qed.

(* ---------- vectors built with range(nobjs) = vectors built by zipping ---------- *)
Lemma zip3_as_map {A B C D} (f : A -> B -> C -> D) da db dc : forall n a b c,
  length a = n -> length b = n -> length c = n ->
  zip3 f a b c = map (fun i => f (nth i a da) (nth i b db) (nth i c dc)) (seq 0 n).
Proof.
  induction n as [|n IH]; intros a b c Ha Hb Hc.
  - destruct a; [reflexivity | discriminate].
  - destruct a as [|x a]; [discriminate|]. destruct b as [|y b]; [discriminate|]. destruct c as [|z c]; [discriminate|].
    simpl. f_equal. rewrite <- seq_shift, map_map. apply IH; simpl in *; lia.
Qed.

Lemma norm_vec_ok nobjs mins maxs objs :
  length objs = nobjs -> length mins = nobjs -> length maxs = nobjs ->
  norm_vec nobjs mins maxs objs = Ok (normv mins maxs objs).
Proof.
  intros Ho Hlo Hhi. unfold norm_vec, normv.
  rewrite (zip3_as_map _ 0 0 0 nobjs objs mins maxs Ho Hlo Hhi).
  apply mapM_ok_map. intros i Hi. apply in_seq in Hi.
  rewrite (nth_res_ok objs i 0) by lia. rewrite (nth_res_ok mins i 0) by lia.
  rewrite (nth_res_ok maxs i 0) by lia. reflexivity.
Qed.

Lemma normv_length mins maxs objs n :
  length objs = n -> length mins = n -> length maxs = n -> length (normv mins maxs objs) = n.
Proof.
  intros Ho Hlo Hhi. unfold normv. rewrite (zip3_as_map _ 0 0 0 n objs mins maxs Ho Hlo Hhi).
  now rewrite map_length, seq_length.
Qed.

(* ---------- well-formed sets of solution objects ---------- *)
(* every vector has nobjs entries, and two list entries with the same sid are the same
   object, hence carry the same fields *)
Definition wf_set (nobjs : nat) (l : list isol) : Prop :=
  (forall s, In s l -> length (s_objs s) = nobjs) /\
  (forall s s', In s l -> In s' l -> s_sid s = s_sid s' -> s = s').

Lemma wf_set_incl nobjs l l' : incl l' l -> wf_set nobjs l -> wf_set nobjs l'.
Proof. intros Hi [A B]. split; [intros s Hs; apply A; auto | intros s s' Hs Hs'; apply B; auto]. Qed.

Lemma wf_set_perm nobjs l l' : Permutation l l' -> wf_set nobjs l -> wf_set nobjs l'.
Proof.
  intros Hp. apply wf_set_incl. intros x Hx. apply Permutation_in with l'; [now apply Permutation_sym | exact Hx].
Qed.

(* ---------- the store after a series of writes ---------- *)
Section Writes.
  Variable N : isol -> list Q.     (* the value written for each object *)
  Definition writes (st : store) (l : list isol) : store :=
    fold_left (fun st s => store_set st (s_sid s) (N s)) l st.

  Lemma store_get_set st k v k' :
    store_get (store_set st k v) k' = if Nat.eqb k' k then Ok v else store_get st k'.
  Proof. reflexivity. Qed.

  Lemma writes_other : forall l st k, (forall s, In s l -> s_sid s <> k) ->
    store_get (writes st l) k = store_get st k.
  Proof.
    induction l as [|x r IH]; intros st k Hk; [reflexivity|].
    simpl. rewrite IH by (intros s Hs; apply Hk; now right).
    rewrite store_get_set. destruct (Nat.eqb_spec k (s_sid x)) as [E|E]; [|reflexivity].
    exfalso. apply (Hk x (or_introl eq_refl)). now symmetry.
  Qed.

  Lemma writes_some : forall l st k, (exists s, In s l /\ s_sid s = k) ->
    exists s', In s' l /\ s_sid s' = k /\ store_get (writes st l) k = Ok (N s').
  Proof.
    induction l as [|x r IH]; intros st k [s [Hs Ek]]; [contradiction|].
    simpl.
    destruct (existsb (fun s => Nat.eqb (s_sid s) k) r) eqn:Ex.
    - apply existsb_exists in Ex. destruct Ex as [s1 [Hs1 E1]]. apply Nat.eqb_eq in E1.
      destruct (IH (store_set st (s_sid x) (N x)) k (ex_intro _ s1 (conj Hs1 E1))) as [s' [A [B C]]].
      exists s'. split; [now right | split; assumption].
    - assert (Hno : forall s0, In s0 r -> s_sid s0 <> k).
      { intros s0 Hs0 E0. assert (existsb (fun s => Nat.eqb (s_sid s) k) r = true).
        { apply existsb_exists. exists s0. split; [exact Hs0 | now apply Nat.eqb_eq]. }
        congruence. }
      rewrite writes_other by exact Hno.
      destruct Hs as [<-|Hs]; [|exfalso; now apply (Hno s Hs)].
      exists x. split; [now left|]. split; [exact Ek|].
      rewrite store_get_set. rewrite <- Ek. now rewrite Nat.eqb_refl.
  Qed.

  (* reading back any object of a well-formed list returns ITS value *)
  Lemma writes_get nobjs l st s : wf_set nobjs l -> In s l ->
    store_get (writes st l) (s_sid s) = Ok (N s).
  Proof.
    intros [_ Hfun] Hs.
    destruct (writes_some l st (s_sid s) (ex_intro _ s (conj Hs eq_refl))) as [s' [A [B C]]].
    rewrite C. f_equal. f_equal. apply Hfun; auto.
  Qed.
End Writes.

Lemma write_normalized_ok nobjs mins maxs : forall feas st,
  (forall s, In s feas -> length (s_objs s) = nobjs) -> length mins = nobjs -> length maxs = nobjs ->
  write_normalized nobjs mins maxs st feas = Ok (writes (fun s => normv mins maxs (s_objs s)) st feas).
Proof.
  induction feas as [|s r IH]; intros st Hl Hlo Hhi; [reflexivity|].
  simpl. rewrite (norm_vec_ok nobjs mins maxs (s_objs s)); auto; [|apply Hl; now left].
  simpl. apply IH; auto. intros s' Hs'. apply Hl. now right.
Qed.

(* normalize with explicit bounds on a non-empty list *)
Lemma normalize_explicit_ok nobjs st sols mins maxs :
  sols <> [] -> (forall s, In s (feasible sols) -> length (s_objs s) = nobjs) ->
  length mins = nobjs -> length maxs = nobjs -> empty_range nobjs mins maxs = Ok false ->
  normalize nobjs st sols (Some mins) (Some maxs) =
  Ok (Some (mins, maxs), writes (fun s => normv mins maxs (s_objs s)) st (feasible sols)).
Proof.
  intros Hne Hl Hlo Hhi He. unfold normalize. destruct sols as [|s0 r]; [congruence|].
  cbn [bind]. rewrite He. cbn [bind]. rewrite write_normalized_ok; auto.
Qed.

Lemma normalize_nil nobjs st mn mx : normalize nobjs st [] mn mx = Ok (None, st).
Proof. reflexivity. Qed.
