(* Proofs about Model/Indicators.v.
   Part 1: the error monad, core.normalize and the store (object aliasing): under
           well-formedness (vectors as long as the problem says; equal sid = same object =
           same fields) normalize writes exactly (o - min)/(max - min) onto every feasible
           object and every later read of normalized_objectives returns it.
   Part 2: the indicators (epsilon, GD, IGD, spacing): textbook formulas, zero on the
           reference set, non-negativity, monotonicity, +inf without feasible members,
           order independence.
   All statements are about exact rational arithmetic. *)
From Coq Require Import ZArith QArith Qabs Bool List Lia Lqa Permutation Setoid Morphisms.
Import ListNotations.
From PV Require Import Base.Num Base.Order Model.Indicators.
Open Scope Q_scope.

(* ================= Part 1 ================= *)

(* ---------- order facts, min / max of lists ---------- *)
Lemma Qltb_proper_l a a' b : a == a' -> Qltb a b = Qltb a' b.
Proof.
  intro E. destruct (Qltb a b) eqn:E1, (Qltb a' b) eqn:E2; try reflexivity.
  - apply Qltb_lt in E1. apply Qltb_false in E2. lra.
  - apply Qltb_false in E1. apply Qltb_lt in E2. lra.
Qed.

Lemma Qltb_proper_r a b b' : b == b' -> Qltb a b = Qltb a b'.
Proof.
  intro E. destruct (Qltb a b) eqn:E1, (Qltb a b') eqn:E2; try reflexivity.
  - apply Qltb_lt in E1. apply Qltb_false in E2. lra.
  - apply Qltb_false in E1. apply Qltb_lt in E2. lra.
Qed.

Lemma Qltb_irrefl a : Qltb a a = false.
Proof. apply Qltb_false. lra. Qed.

Lemma qmin_from_le m l : qmin_from m l <= m /\ forall x, In x l -> qmin_from m l <= x.
Proof.
  revert m. induction l as [|y r IH]; intro m; simpl.
  - split; [lra | contradiction].
  - destruct (Qltb y m) eqn:E.
    + apply Qltb_lt in E. destruct (IH y) as [A B]. split; [lra|].
      intros x [<-|Hx]; auto.
    + apply Qltb_false in E. destruct (IH m) as [A B]. split; [exact A|].
      intros x [<-|Hx]; [lra|auto].
Qed.

Lemma qmin_from_in m l : qmin_from m l = m \/ In (qmin_from m l) l.
Proof.
  revert m. induction l as [|y r IH]; intro m; simpl; [now left|].
  destruct (Qltb y m).
  - destruct (IH y) as [A|A]; [right; left; now rewrite A | right; right; exact A].
  - destruct (IH m) as [A|A]; [now left | right; right; exact A].
Qed.


Lemma mapM_ok_map {A B} (f : A -> res B) (g : A -> B) l :
  (forall x, In x l -> f x = Ok (g x)) -> mapM f l = Ok (map g l).
Proof.
  induction l as [|a r IH]; intro Hf; [reflexivity|].
  simpl. rewrite (Hf a (or_introl eq_refl)). simpl. rewrite IH; [reflexivity|].
  intros x Hx. apply Hf. now right.
Qed.

Lemma mapM_length {A B} (f : A -> res B) l : forall r, mapM f l = Ok r -> length r = length l.
Proof.
  induction l as [|a t IH]; intros r E; simpl in E.
  - now inversion E.
  - destruct (f a); simpl in E; [|discriminate]. destruct (mapM f t); simpl in E; [|discriminate].
    inversion E. simpl. f_equal. now apply IH.
Qed.

Lemma nth_res_ok {A} (l : list A) i d : (i < length l)%nat -> nth_res l i = Ok (nth i l d).
Proof.
  intro Hi. unfold nth_res. rewrite (nth_error_nth' l d Hi). reflexivity.
Qed.

Lemma filter_map_comm {A B} (f : A -> B) (p : B -> bool) l :
  filter p (map f l) = map f (filter (fun x => p (f x)) l).
Proof.
  induction l as [|a r IH]; [reflexivity|]. simpl. destruct (p (f a)); simpl; now rewrite IH.
Qed.

Lemma feasible_idem l : feasible (feasible l) = feasible l.
Proof.
  unfold feasible. induction l as [|a r IH]; [reflexivity|]. simpl.
  destruct (feasibleb a) eqn:E; simpl; [rewrite E; now rewrite IH | exact IH].
Qed.

Lemma feasible_app l1 l2 : feasible (l1 ++ l2) = feasible l1 ++ feasible l2.
Proof. apply filter_app. Qed.

Lemma feasible_in l s : In s (feasible l) <-> In s l /\ feasibleb s = true.
Proof. apply filter_In. Qed.

(* ---------- vectors built with range(nobjs) = vectors built by zipping ---------- *)
Lemma zip3_as_map {A B C D} (f : A -> B -> C -> D) da db dc : forall n a b c,
  length a = n -> length b = n -> length c = n ->
  zip3 f a b c = map (fun i => f (nth i a da) (nth i b db) (nth i c dc)) (seq 0 n).
Proof.
  induction n as [|n IH]; intros a b c Ha Hb Hc.
  - destruct a; [reflexivity | discriminate].
  - destruct a as [|x a]; [discriminate|]. destruct b as [|y b]; [discriminate|]. destruct c as [|z c]; [discriminate|].
    simpl. f_equal. rewrite <- seq_shift, map_map. apply IH; simpl in *; lia.
Qed.

Lemma norm_vec_ok nobjs mins maxs objs :
  length objs = nobjs -> length mins = nobjs -> length maxs = nobjs ->
  norm_vec nobjs mins maxs objs = Ok (normv mins maxs objs).
Proof.
  intros Ho Hlo Hhi. unfold norm_vec, normv.
  rewrite (zip3_as_map _ 0 0 0 nobjs objs mins maxs Ho Hlo Hhi).
  apply mapM_ok_map. intros i Hi. apply in_seq in Hi.
  rewrite (nth_res_ok objs i 0) by lia. rewrite (nth_res_ok mins i 0) by lia.
  rewrite (nth_res_ok maxs i 0) by lia. reflexivity.
Qed.

Lemma normv_length mins maxs objs n :
  length objs = n -> length mins = n -> length maxs = n -> length (normv mins maxs objs) = n.
Proof.
  intros Ho Hlo Hhi. unfold normv. rewrite (zip3_as_map _ 0 0 0 n objs mins maxs Ho Hlo Hhi).
  now rewrite map_length, seq_length.
Qed.

(* ---------- well-formed sets of solution objects ---------- *)
(* every vector has nobjs entries, and two list entries with the same sid are the same
   object, hence carry the same fields *)
Definition wf_set (nobjs : nat) (l : list isol) : Prop :=
  (forall s, In s l -> length (s_objs s) = nobjs) /\
  (forall s s', In s l -> In s' l -> s_sid s = s_sid s' -> s = s').

Lemma wf_set_incl nobjs l l' : incl l' l -> wf_set nobjs l -> wf_set nobjs l'.
Proof. intros Hi [A B]. split; [intros s Hs; apply A; auto | intros s s' Hs Hs'; apply B; auto]. Qed.

Lemma wf_set_perm nobjs l l' : Permutation l l' -> wf_set nobjs l -> wf_set nobjs l'.
Proof.
  intros Hp. apply wf_set_incl. intros x Hx. apply Permutation_in with l'; [now apply Permutation_sym | exact Hx].
Qed.

(* ---------- the store after a series of writes ---------- *)
Section Writes.
  Variable N : isol -> list Q.     (* the value written for each object *)
  Definition writes (st : store) (l : list isol) : store :=
    fold_left (fun st s => store_set st (s_sid s) (N s)) l st.

  Lemma store_get_set st k v k' :
    store_get (store_set st k v) k' = if Nat.eqb k' k then Ok v else store_get st k'.
  Proof. reflexivity. Qed.

  Lemma writes_other : forall l st k, (forall s, In s l -> s_sid s <> k) ->
    store_get (writes st l) k = store_get st k.
  Proof.
    induction l as [|x r IH]; intros st k Hk; [reflexivity|].
    simpl. rewrite IH by (intros s Hs; apply Hk; now right).
    rewrite store_get_set. destruct (Nat.eqb_spec k (s_sid x)) as [E|E]; [|reflexivity].
    exfalso. apply (Hk x (or_introl eq_refl)). now symmetry.
  Qed.

  Lemma writes_some : forall l st k, (exists s, In s l /\ s_sid s = k) ->
    exists s', In s' l /\ s_sid s' = k /\ store_get (writes st l) k = Ok (N s').
  Proof.
    induction l as [|x r IH]; intros st k [s [Hs Ek]]; [contradiction|].
    simpl.
    destruct (existsb (fun s => Nat.eqb (s_sid s) k) r) eqn:Ex.
    - apply existsb_exists in Ex. destruct Ex as [s1 [Hs1 E1]]. apply Nat.eqb_eq in E1.
      destruct (IH (store_set st (s_sid x) (N x)) k (ex_intro _ s1 (conj Hs1 E1))) as [s' [A [B C]]].
      exists s'. split; [now right | split; assumption].
    - assert (Hno : forall s0, In s0 r -> s_sid s0 <> k).
      { intros s0 Hs0 E0. assert (existsb (fun s => Nat.eqb (s_sid s) k) r = true).
        { apply existsb_exists. exists s0. split; [exact Hs0 | now apply Nat.eqb_eq]. }
        congruence. }
      rewrite writes_other by exact Hno.
      destruct Hs as [<-|Hs]; [|exfalso; now apply (Hno s Hs)].
      exists x. split; [now left|]. split; [exact Ek|].
      rewrite store_get_set. rewrite <- Ek. now rewrite Nat.eqb_refl.
  Qed.

  (* reading back any object of a well-formed list returns ITS value *)
  Lemma writes_get nobjs l st s : wf_set nobjs l -> In s l ->
    store_get (writes st l) (s_sid s) = Ok (N s).
  Proof.
    intros [_ Hfun] Hs.
    destruct (writes_some l st (s_sid s) (ex_intro _ s (conj Hs eq_refl))) as [s' [A [B C]]].
    rewrite C. f_equal. f_equal. apply Hfun; auto.
  Qed.
End Writes.

Lemma write_normalized_ok nobjs mins maxs : forall feas st,
  (forall s, In s feas -> length (s_objs s) = nobjs) -> length mins = nobjs -> length maxs = nobjs ->
  write_normalized nobjs mins maxs st feas = Ok (writes (fun s => normv mins maxs (s_objs s)) st feas).
Proof.
  induction feas as [|s r IH]; intros st Hl Hlo Hhi; [reflexivity|].
  simpl. rewrite (norm_vec_ok nobjs mins maxs (s_objs s)); auto; [|apply Hl; now left].
  simpl. apply IH; auto. intros s' Hs'. apply Hl. now right.
Qed.

(* normalize with explicit bounds on a non-empty list *)
Lemma normalize_explicit_ok nobjs st sols mins maxs :
  sols <> [] -> (forall s, In s (feasible sols) -> length (s_objs s) = nobjs) ->
  length mins = nobjs -> length maxs = nobjs -> empty_range nobjs mins maxs = Ok false ->
  normalize nobjs st sols (Some mins) (Some maxs) =
  Ok (Some (mins, maxs), writes (fun s => normv mins maxs (s_objs s)) st (feasible sols)).
Proof.
  intros Hne Hl Hlo Hhi He. unfold normalize. destruct sols as [|s0 r]; [congruence|].
  cbn [bind]. rewrite He. cbn [bind]. rewrite write_normalized_ok; auto.
Qed.

Lemma normalize_nil nobjs st mn mx : normalize nobjs st [] mn mx = Ok (None, st).
Proof. reflexivity. Qed.

Lemma qmax_from_ge m l : m <= qmax_from m l /\ forall x, In x l -> x <= qmax_from m l.
Proof.
  revert m. induction l as [|y r IH]; intro m; simpl.
  - split; [lra | contradiction].
  - destruct (Qltb m y) eqn:E.
    + apply Qltb_lt in E. destruct (IH y) as [A B]. split; [lra|].
      intros x [<-|Hx]; auto.
    + apply Qltb_false in E. destruct (IH m) as [A B]. split; [exact A|].
      intros x [<-|Hx]; [lra|auto].
Qed.

Lemma qmax_from_in m l : qmax_from m l = m \/ In (qmax_from m l) l.
Proof.
  revert m. induction l as [|y r IH]; intro m; simpl; [now left|].
  destruct (Qltb m y).
  - destruct (IH y) as [A|A]; [right; left; now rewrite A | right; right; exact A].
  - destruct (IH m) as [A|A]; [now left | right; right; exact A].
Qed.

Lemma lmin_le l x : In x l -> lmin l <= x.
Proof.
  destruct l as [|a r]; [contradiction|]. simpl. destruct (qmin_from_le a r) as [A B].
  intros [<-|Hx]; auto.
Qed.
Lemma lmin_in l : l <> [] -> In (lmin l) l.
Proof.
  destruct l as [|a r]; [congruence|]. intros _. simpl.
  destruct (qmin_from_in a r) as [E|E]; [left; now rewrite E | now right].
Qed.
Lemma lmax_ge l x : In x l -> x <= lmax l.
Proof.
  destruct l as [|a r]; [contradiction|]. simpl. destruct (qmax_from_ge a r) as [A B].
  intros [<-|Hx]; auto.
Qed.
Lemma lmax_in l : l <> [] -> In (lmax l) l.
Proof.
  destruct l as [|a r]; [congruence|]. intros _. simpl.
  destruct (qmax_from_in a r) as [E|E]; [left; now rewrite E | now right].
Qed.
Lemma lmin_glb l c : l <> [] -> (forall x, In x l -> c <= x) -> c <= lmin l.
Proof. intros Hne Hall. apply Hall. now apply lmin_in. Qed.
Lemma lmax_lub l c : l <> [] -> (forall x, In x l -> x <= c) -> lmax l <= c.
Proof. intros Hne Hall. apply Hall. now apply lmax_in. Qed.

(* l' dominates l elementwise up to reordering: every element of l' is >= some element of l *)
Lemma lmin_le_of l l' : l' <> [] -> (forall y, In y l' -> exists x, In x l /\ x <= y) -> lmin l <= lmin l'.
Proof.
  intros Hne Hall. destruct (Hall _ (lmin_in l' Hne)) as [x [Hx Hle]].
  pose proof (lmin_le l x Hx). lra.
Qed.
Lemma lmax_le_of l l' : l <> [] -> (forall x, In x l -> exists y, In y l' /\ x <= y) -> lmax l <= lmax l'.
Proof.
  intros Hne Hall. destruct (Hall _ (lmax_in l Hne)) as [y [Hy Hle]].
  pose proof (lmax_ge l' y Hy). lra.
Qed.

Lemma perm_nil_iff {A} (l l' : list A) : Permutation l l' -> (l = [] <-> l' = []).
Proof.
  intro Hp. split; intro E; subst.
  - now apply Permutation_nil.
  - apply Permutation_sym in Hp. now apply Permutation_nil.
Qed.

Lemma lmin_perm l l' : Permutation l l' -> lmin l == lmin l'.
Proof.
  intro Hp. destruct l as [|a r].
  - apply Permutation_nil in Hp. subst. reflexivity.
  - assert (Hne' : l' <> []) by (intro E; subst; apply Permutation_sym in Hp; apply Permutation_nil in Hp; discriminate).
    apply Qle_antisym.
    + apply lmin_le_of; [exact Hne'|]. intros y Hy. exists y. split; [|lra].
      apply Permutation_in with l'; [now apply Permutation_sym | exact Hy].
    + apply lmin_le_of; [discriminate|]. intros y Hy. exists y. split; [|lra].
      now apply Permutation_in with (a :: r).
Qed.
Lemma lmax_perm l l' : Permutation l l' -> lmax l == lmax l'.
Proof.
  intro Hp. destruct l as [|a r].
  - apply Permutation_nil in Hp. subst. reflexivity.
  - assert (Hne' : l' <> []) by (intro E; subst; apply Permutation_sym in Hp; apply Permutation_nil in Hp; discriminate).
    apply Qle_antisym.
    + apply lmax_le_of; [discriminate|]. intros y Hy. exists y. split; [|lra].
      now apply Permutation_in with (a :: r).
    + apply lmax_le_of; [exact Hne'|]. intros y Hy. exists y. split; [|lra].
      apply Permutation_in with l'; [now apply Permutation_sym | exact Hy].
Qed.

(* elementwise comparison of two lists of the same length *)
Lemma Forall2_in_l {A B} (R : A -> B -> Prop) l l' x : Forall2 R l l' -> In x l -> exists y, In y l' /\ R x y.
Proof.
  induction 1 as [|a b r r' Hab Hrr IH]; [contradiction|].
  intros [<-|Hx]; [exists b; split; [now left | exact Hab]|].
  destruct (IH Hx) as [y [Hy Rxy]]. exists y. split; [now right | exact Rxy].
Qed.
Lemma Forall2_in_r {A B} (R : A -> B -> Prop) l l' y : Forall2 R l l' -> In y l' -> exists x, In x l /\ R x y.
Proof.
  induction 1 as [|a b r r' Hab Hrr IH]; [contradiction|].
  intros [<-|Hy]; [exists a; split; [now left | exact Hab]|].
  destruct (IH Hy) as [x [Hx Rxy]]. exists x. split; [now right | exact Rxy].
Qed.
Lemma Forall2_nil_iff {A B} (R : A -> B -> Prop) l l' : Forall2 R l l' -> (l = [] <-> l' = []).
Proof. destruct 1; split; congruence. Qed.

Lemma lmin_mono l l' : Forall2 Qle l l' -> lmin l <= lmin l'.
Proof.
  intro HF. destruct l' as [|b r'].
  - inversion HF. subst. simpl. lra.
  - apply lmin_le_of; [discriminate|]. intros y Hy. destruct (Forall2_in_r _ _ _ _ HF Hy) as [x [Hx Hle]]. eauto.
Qed.
Lemma lmax_mono l l' : Forall2 Qle l l' -> lmax l <= lmax l'.
Proof.
  intro HF. destruct l as [|a r].
  - inversion HF. subst. simpl. lra.
  - apply lmax_le_of; [discriminate|]. intros x Hx. destruct (Forall2_in_l _ _ _ _ HF Hx) as [y [Hy Hle]]. eauto.
Qed.

Lemma Forall2_Qeq_le l l' : Forall2 Qeq l l' -> Forall2 Qle l l' /\ Forall2 Qle l' l.
Proof. induction 1 as [|a b r r' Hab _ [IH1 IH2]]; split; constructor; auto; lra. Qed.

Lemma lmin_veq l l' : Forall2 Qeq l l' -> lmin l == lmin l'.
Proof. intro HF. destruct (Forall2_Qeq_le _ _ HF). apply Qle_antisym; now apply lmin_mono. Qed.
Lemma lmax_veq l l' : Forall2 Qeq l l' -> lmax l == lmax l'.
Proof. intro HF. destruct (Forall2_Qeq_le _ _ HF). apply Qle_antisym; now apply lmax_mono. Qed.

Lemma Forall2_map {A B C D} (R : C -> D -> Prop) (f : A -> C) (g : B -> D) (P : A -> B -> Prop) l l' :
  Forall2 P l l' -> (forall a b, P a b -> R (f a) (g b)) -> Forall2 R (map f l) (map g l').
Proof. induction 1; simpl; constructor; auto. Qed.

Lemma Forall2_same {A} (R : A -> A -> Prop) l : (forall x, In x l -> R x x) -> Forall2 R l l.
Proof. induction l as [|a r IH]; intro H; constructor; [apply H; now left | apply IH; intros; apply H; now right]. Qed.

(* ================= Part 2: the indicators ================= *)

Lemma zip2_as_map' {A B C} (f : A -> B -> C) da db : forall n a b,
  length a = n -> length b = n ->
  zip2 f a b = map (fun i => f (nth i a da) (nth i b db)) (seq 0 n).
Proof.
  induction n as [|n IH]; intros a b Ha Hb.
  - destruct a; [reflexivity | discriminate].
  - destruct a as [|x a]; [discriminate|]. destruct b as [|y b]; [discriminate|].
    simpl. f_equal. rewrite <- seq_shift, map_map. apply IH; simpl in *; lia.
Qed.

(* ---------- the model's computations are the textbook functions ---------- *)
Lemma qminl_ok l : l <> [] -> qminl l = Ok (lmin l).
Proof. destruct l; [congruence | reflexivity]. Qed.
Lemma qmaxl_ok l : l <> [] -> qmaxl l = Ok (lmax l).
Proof. destruct l; [congruence | reflexivity]. Qed.

Lemma sqdist_ok : forall x y, length x = length y -> sqdist x y = Ok (sqd x y).
Proof.
  induction x as [|a x IH]; intros [|b y] Hl; try discriminate; [reflexivity|].
  simpl in Hl. simpl. rewrite IH by lia. reflexivity.
Qed.
Lemma l1dist_ok : forall x y, length x = length y -> l1dist x y = Ok (l1d x y).
Proof.
  induction x as [|a x IH]; intros [|b y] Hl; try discriminate; [reflexivity|].
  simpl in Hl. simpl. rewrite IH by lia. reflexivity.
Qed.

Lemma eps_inner_ok nobjs dirs n2 n1 : (1 <= nobjs)%nat ->
  length dirs = nobjs -> length n2 = nobjs -> length n1 = nobjs ->
  eps_inner nobjs dirs n2 n1 = Ok (lmax (dev dirs n1 n2)).
Proof.
  intros H1 Hd H2 Hn1. unfold eps_inner, dev.
  rewrite (zip3_as_map adj_diff false 0 0 nobjs dirs n2 n1 Hd H2 Hn1).
  rewrite (mapM_ok_map _ (fun k => adj_diff (nth k dirs false) (nth k n2 0) (nth k n1 0))).
  - cbn [bind]. apply qmaxl_ok. destruct nobjs; [lia | simpl; discriminate].
  - intros k Hk. apply in_seq in Hk.
    rewrite (nth_res_ok dirs k false) by lia. rewrite (nth_res_ok n2 k 0) by lia. rewrite (nth_res_ok n1 k 0) by lia.
    reflexivity.
Qed.

(* ---------- the constructor ---------- *)
Definition normed (c : ind_state) (s : isol) : list Q := normv (i_min c) (i_max c) (s_objs s).

Lemma mapM_nonempty {A B} (f : A -> res B) l r : mapM f l = Ok r -> l <> [] -> r <> [].
Proof.
  destruct l as [|a t]; [congruence|]. simpl. destruct (f a); simpl; [|discriminate].
  destruct (mapM f t); simpl; [|discriminate]. intros E _. inversion E. discriminate.
Qed.

Lemma ind_make_ok nobjs st ref c st' : (1 <= nobjs)%nat ->
  ind_make nobjs st ref = Ok (c, st') -> (forall s, In s (feasible ref) -> length (s_objs s) = nobjs) ->
  i_ref c = feasible ref /\ st' = writes (normed c) st (feasible ref) /\ feasible ref <> [] /\
  length (i_min c) = nobjs /\ length (i_max c) = nobjs /\ empty_range nobjs (i_min c) (i_max c) = Ok false.
Proof.
  intros H1. unfold ind_make, normalize. destruct ref as [|r0 rr]; [discriminate|].
  set (feas := feasible (r0 :: rr)).
  destruct (mapM (fun i => do c0 <- column feas i; qminl c0) (seq 0 nobjs)) as [mins|] eqn:Emin;
    cbn [bind]; [|discriminate].
  destruct (mapM (fun i => do c0 <- column feas i; qmaxl c0) (seq 0 nobjs)) as [maxs|] eqn:Emax;
    cbn [bind]; [|discriminate].
  destruct (empty_range nobjs mins maxs) as [e|] eqn:Ee; cbn [bind]; [|discriminate].
  destruct e; [discriminate|].
  intros H Hlen.
  assert (Lmin : length mins = nobjs) by (apply mapM_length in Emin; now rewrite seq_length in Emin).
  assert (Lmax : length maxs = nobjs) by (apply mapM_length in Emax; now rewrite seq_length in Emax).
  rewrite (write_normalized_ok nobjs mins maxs feas st Hlen Lmin Lmax) in H. cbn [bind] in H.
  injection H as Ec Est. subst c st'. simpl. unfold normed. simpl.
  repeat split; auto.
  (* at least one feasible member: the minimum of column 0 exists *)
  intro Efe. destruct nobjs as [|n]; [lia|]. simpl in Emin. fold feas in Efe. rewrite Efe in Emin. simpl in Emin. discriminate.
Qed.

(* after the constructor and calculate's normalize, EVERY feasible object of the reference
   set and of the approximation set (shared objects included) carries its own normalised
   vector *)
Lemma writes_app N st l1 l2 : writes N (writes N st l1) l2 = writes N st (l1 ++ l2).
Proof. unfold writes. now rewrite fold_left_app. Qed.

Lemma store_both N nobjs st Rf Sf x : wf_set nobjs (Rf ++ Sf) -> In x (Rf ++ Sf) ->
  store_get (writes N (writes N st Rf) Sf) (s_sid x) = Ok (N x).
Proof. intros Hw Hx. rewrite writes_app. now apply (writes_get N nobjs). Qed.

Lemma normed_length c nobjs s : length (i_min c) = nobjs -> length (i_max c) = nobjs ->
  length (s_objs s) = nobjs -> length (normed c s) = nobjs.
Proof. intros. unfold normed. now apply normv_length. Qed.

(* hypotheses shared by the theorems: the constructor accepted the reference set, and the
   listed objects are well formed *)
Record accepted (nobjs : nat) (ref set : list isol) (c : ind_state) (st0 : store) : Prop := {
  acc_nobjs : (1 <= nobjs)%nat;
  acc_make : ind_make nobjs [] ref = Ok (c, st0);
  acc_wf : wf_set nobjs (feasible ref ++ feasible set)
}.

Lemma accepted_facts nobjs ref set c st0 : accepted nobjs ref set c st0 ->
  i_ref c = feasible ref /\ st0 = writes (normed c) [] (feasible ref) /\ feasible ref <> [] /\
  length (i_min c) = nobjs /\ length (i_max c) = nobjs /\ empty_range nobjs (i_min c) (i_max c) = Ok false /\
  (forall s, In s (feasible ref ++ feasible set) -> length (normed c s) = nobjs).
Proof.
  intros [H1 Hm [Hlen Hfun]].
  destruct (ind_make_ok nobjs [] ref c st0 H1 Hm) as [A [B [C [D [E F]]]]].
  { intros s Hs. apply Hlen. apply in_or_app. now left. }
  repeat split; auto. intros s Hs. apply normed_length; auto.
Qed.

(* calculate's normalize calls, starting from ANY content of the normalized_objectives store *)
Lemma calc_normalize nobjs ref set c st0 st : accepted nobjs ref set c st0 -> feasible set <> [] ->
  normalize nobjs st (feasible set) (Some (i_min c)) (Some (i_max c)) =
  Ok (Some (i_min c, i_max c), writes (normed c) st (feasible set)).
Proof.
  intros Hacc Hne. destruct (accepted_facts _ _ _ _ _ Hacc) as [A [B [C [D [E [F G]]]]]].
  unfold normed. rewrite <- (feasible_idem set) at 2.
  apply normalize_explicit_ok; auto.
  rewrite feasible_idem. intros s Hs. apply (proj1 (acc_wf _ _ _ _ _ Hacc)). apply in_or_app. now right.
Qed.

(* normalize(self.reference_set, self.minimum, self.maximum) of the repaired code *)
Lemma renorm_ok nobjs ref set c st0 st : accepted nobjs ref set c st0 ->
  renorm_ref true nobjs c st = Ok (writes (normed c) st (feasible ref)).
Proof.
  intros Hacc. destruct (accepted_facts _ _ _ _ _ Hacc) as [A [B [C [D [E [F G]]]]]].
  unfold renorm_ref. rewrite A. unfold normed. rewrite <- (feasible_idem ref) at 2.
  rewrite normalize_explicit_ok; auto.
  rewrite feasible_idem. intros s Hs. apply (proj1 (acc_wf _ _ _ _ _ Hacc)). apply in_or_app. now left.
Qed.

(* after the two normalize calls EVERY feasible object of either set carries its own
   normalised vector, whatever the store contained before *)
Lemma calc_store nobjs ref set c st0 st x : accepted nobjs ref set c st0 -> In x (feasible ref ++ feasible set) ->
  store_get (writes (normed c) (writes (normed c) st (feasible ref)) (feasible set)) (s_sid x) = Ok (normed c x).
Proof.
  intros Hacc Hx. apply (store_both (normed c) nobjs); [exact (acc_wf _ _ _ _ _ Hacc) | exact Hx].
Qed.

(* ---------- epsilon indicator = textbook, from ANY prior store ---------- *)
Theorem eps_calc_unfold nobjs dirs ref set c st0 st : accepted nobjs ref set c st0 -> length dirs = nobjs ->
  exists st', eps_calculate true nobjs dirs c st set =
  Ok (match feasible set with
      | [] => XInf
      | _ => XFin (eps_textbook dirs (map (normed c) (feasible ref)) (map (normed c) (feasible set)))
      end, st').
Proof.
  intros Hacc Hd. destruct (accepted_facts _ _ _ _ _ Hacc) as [A [B [C [D [E [F G]]]]]].
  unfold eps_calculate.
  destruct (feasible set) as [|s0 r0] eqn:Ef; [eexists; reflexivity|].
  rewrite <- Ef in *. assert (Hne : feasible set <> []) by (rewrite Ef; discriminate).
  rewrite (renorm_ok _ _ _ _ _ st Hacc). cbn [bind].
  rewrite (calc_normalize _ _ _ _ _ _ Hacc Hne). cbn [bind snd]. rewrite A.
  rewrite (mapM_ok_map _ (fun s1 => lmin (map (fun s2 => lmax (dev dirs (normed c s1) (normed c s2))) (feasible set)))).
  - cbn [bind]. rewrite qmaxl_ok by (intro Em; apply map_eq_nil in Em; contradiction).
    cbn [bind]. eexists. do 2 f_equal. unfold eps_textbook. rewrite map_map. do 2 apply f_equal.
    apply map_ext. intro x. now rewrite map_map.
  - intros s1 Hs1. cbv beta.
    rewrite (calc_store nobjs ref set c st0 st s1 Hacc) by (apply in_or_app; now left). cbn [bind].
    rewrite (mapM_ok_map _ (fun s2 => lmax (dev dirs (normed c s1) (normed c s2)))).
    + cbn [bind]. apply qminl_ok. intro Em. apply map_eq_nil in Em. contradiction.
    + intros s2 Hs2. cbv beta.
      rewrite (calc_store nobjs ref set c st0 st s2 Hacc) by (apply in_or_app; now right). cbn [bind].
      apply eps_inner_ok; auto; try (apply G; apply in_or_app; auto). exact (acc_nobjs _ _ _ _ _ Hacc).
Qed.

Theorem eps_unfold nobjs dirs ref set c st0 : accepted nobjs ref set c st0 -> length dirs = nobjs ->
  eps_indicator nobjs dirs ref set =
  Ok (match feasible set with
      | [] => XInf
      | _ => XFin (eps_textbook dirs (map (normed c) (feasible ref)) (map (normed c) (feasible set)))
      end).
Proof.
  intros Hacc Hd. unfold eps_indicator. rewrite (acc_make _ _ _ _ _ Hacc). cbn [bind fst snd].
  destruct (eps_calc_unfold nobjs dirs ref set c st0 st0 Hacc Hd) as [st' E]. rewrite E. reflexivity.
Qed.

(* ---------- GD / IGD = textbook ingredients ---------- *)
Lemma nearest_sq_ok st (N : isol -> list Q) s set n : set <> [] ->
  store_get st (s_sid s) = Ok (N s) -> (forall t, In t set -> store_get st (s_sid t) = Ok (N t)) ->
  length (N s) = n -> (forall t, In t set -> length (N t) = n) ->
  nearest_sq st s set = Ok (XFin (nsq (N s) (map N set))).
Proof.
  intros Hne Hs Ht Ls Lt. unfold nearest_sq. destruct set as [|t0 r0] eqn:Eset; [congruence|]. rewrite <- Eset in *.
  unfold sq_row. rewrite (mapM_ok_map _ (fun t => sqd (N s) (N t))).
  - cbn [bind]. rewrite qminl_ok by (intro Em; apply map_eq_nil in Em; contradiction). cbn [bind].
    unfold nsq. now rewrite map_map.
  - intros t Hin. unfold norm_sqdist. rewrite Hs, (Ht t Hin). cbn [bind]. apply sqdist_ok. rewrite Ls, (Lt t Hin). reflexivity.
Qed.

Lemma all_fin_fin l : all_fin (map XFin l) = Some l.
Proof. induction l as [|a r IH]; [reflexivity|]. simpl. now rewrite IH. Qed.

Lemma all_fin_inf {A} (l : list A) : l <> [] -> all_fin (map (fun _ => XInf) l) = None.
Proof. destruct l; [congruence | reflexivity]. Qed.

Theorem gd_calc_unfold nobjs ref set c st0 st : accepted nobjs ref set c st0 ->
  exists st', gd_calculate true nobjs c st set =
  Ok (match feasible set with
      | [] => IInf
      | _ => ITerms (gd_terms_textbook (map (normed c) (feasible ref)) (map (normed c) (feasible set)))
                    (length (feasible set))
      end, st').
Proof.
  intros Hacc. destruct (accepted_facts _ _ _ _ _ Hacc) as [A [B [C [D [E [F G]]]]]].
  unfold gd_calculate.
  destruct (feasible set) as [|s0 r0] eqn:Ef; [eexists; reflexivity|].
  rewrite <- Ef in *. assert (Hne : feasible set <> []) by (rewrite Ef; discriminate).
  rewrite (renorm_ok _ _ _ _ _ st Hacc). cbn [bind].
  rewrite (calc_normalize _ _ _ _ _ _ Hacc Hne). cbn [bind snd]. rewrite A.
  rewrite (mapM_ok_map _ (fun s => XFin (nsq (normed c s) (map (normed c) (feasible ref))))).
  - cbn [bind]. rewrite <- (map_map (fun s => nsq (normed c s) (map (normed c) (feasible ref))) XFin).
    rewrite all_fin_fin. eexists. unfold gd_terms_textbook. now rewrite map_map.
  - intros s Hs. apply (nearest_sq_ok _ (normed c) s (feasible ref) nobjs); auto.
    + apply (calc_store nobjs ref set c st0 st s Hacc). apply in_or_app. now right.
    + intros t Ht. apply (calc_store nobjs ref set c st0 st t Hacc). apply in_or_app. now left.
    + apply G. apply in_or_app. now right.
    + intros t Ht. apply G. apply in_or_app. now left.
Qed.

Theorem gd_unfold nobjs ref set c st0 : accepted nobjs ref set c st0 ->
  gd_indicator nobjs ref set =
  Ok (match feasible set with
      | [] => IInf
      | _ => ITerms (gd_terms_textbook (map (normed c) (feasible ref)) (map (normed c) (feasible set)))
                    (length (feasible set))
      end).
Proof.
  intros Hacc. unfold gd_indicator. rewrite (acc_make _ _ _ _ _ Hacc). cbn [bind fst snd].
  destruct (gd_calc_unfold nobjs ref set c st0 st0 Hacc) as [st' E]. rewrite E. reflexivity.
Qed.

Theorem igd_calc_unfold nobjs ref set c st0 st : accepted nobjs ref set c st0 ->
  exists st', igd_calculate true nobjs c st set =
  Ok (match feasible set with
      | [] => IInf
      | _ => ITerms (gd_terms_textbook (map (normed c) (feasible set)) (map (normed c) (feasible ref)))
                    (length (feasible ref))
      end, st').
Proof.
  intros Hacc. destruct (accepted_facts _ _ _ _ _ Hacc) as [A [B [C [D [E [F G]]]]]].
  unfold igd_calculate. rewrite (renorm_ok _ _ _ _ _ st Hacc). cbn [bind].
  destruct (feasible set) as [|s0 r0] eqn:Ef.
  - rewrite normalize_nil. cbn [bind snd]. rewrite A.
    rewrite (mapM_ok_map _ (fun _ => XInf)) by reflexivity. cbn [bind].
    rewrite (all_fin_inf (feasible ref) C). eexists. reflexivity.
  - rewrite <- Ef in *. assert (Hne : feasible set <> []) by (rewrite Ef; discriminate).
    rewrite (calc_normalize _ _ _ _ _ _ Hacc Hne). cbn [bind snd]. rewrite A.
    rewrite (mapM_ok_map _ (fun s => XFin (nsq (normed c s) (map (normed c) (feasible set))))).
    + cbn [bind]. rewrite <- (map_map (fun s => nsq (normed c s) (map (normed c) (feasible set))) XFin).
      rewrite all_fin_fin. eexists. unfold gd_terms_textbook. now rewrite map_map.
    + intros s Hs. apply (nearest_sq_ok _ (normed c) s (feasible set) nobjs); auto.
      * apply (calc_store nobjs ref set c st0 st s Hacc). apply in_or_app. now left.
      * intros t Ht. apply (calc_store nobjs ref set c st0 st t Hacc). apply in_or_app. now right.
      * apply G. apply in_or_app. now left.
      * intros t Ht. apply G. apply in_or_app. now right.
Qed.

Theorem igd_unfold nobjs ref set c st0 : accepted nobjs ref set c st0 ->
  igd_indicator nobjs ref set =
  Ok (match feasible set with
      | [] => IInf
      | _ => ITerms (gd_terms_textbook (map (normed c) (feasible set)) (map (normed c) (feasible ref)))
                    (length (feasible ref))
      end).
Proof.
  intros Hacc. unfold igd_indicator. rewrite (acc_make _ _ _ _ _ Hacc). cbn [bind fst snd].
  destruct (igd_calc_unfold nobjs ref set c st0 st0 Hacc) as [st' E]. rewrite E. reflexivity.
Qed.

(* ---------- spacing = textbook ---------- *)
Theorem spacing_unfold set q : spacing_calculate set = Ok q ->
  (forall s, In s (feasible set) -> length (s_objs s) = length (s_objs (hd s (feasible set)))) ->
  q == if Nat.ltb (length (feasible set)) 2 then 0 else spacing_sq_textbook (spacing_ds_textbook (feasible set)).
Proof.
  unfold spacing_calculate. intros Hq Hlen. destruct (Nat.ltb (length (feasible set)) 2) eqn:E2.
  - inversion Hq. reflexivity.
  - destruct (spacing_distances (feasible set)) as [ds|] eqn:Eds; cbn [bind] in Hq; [|discriminate].
    inversion Hq. clear Hq. subst q.
    assert (Hds : ds = spacing_ds_textbook (feasible set)).
    { unfold spacing_distances in Eds. unfold spacing_ds_textbook.
      set (feas := feasible set) in *.
      assert (forall l, incl l feas -> forall r,
                mapM (fun s1 => do row <- mapM (fun s2 => l1dist (s_objs s1) (s_objs s2))
                                         (filter (fun s2 => negb (Nat.eqb (s_sid s1) (s_sid s2))) feas); qminl row) l = Ok r ->
                r = map (fun s1 => lmin (map (fun s2 => l1d (s_objs s1) (s_objs s2))
                                             (filter (fun s2 => negb (Nat.eqb (s_sid s1) (s_sid s2))) feas))) l) as Hgen.
      { induction l as [|s1 l IH]; intros Hi r Hr; simpl in Hr.
        - now inversion Hr.
        - rewrite (mapM_ok_map _ (fun s2 => l1d (s_objs s1) (s_objs s2))) in Hr.
          + cbn [bind] in Hr.
            destruct (map (fun s2 => l1d (s_objs s1) (s_objs s2)) (filter (fun s2 => negb (Nat.eqb (s_sid s1) (s_sid s2))) feas)) as [|x0 r0] eqn:Erow;
              [simpl in Hr; discriminate|].
            cbn [qminl bind] in Hr.
            destruct (mapM _ l) as [rr|] eqn:Err; cbn [bind] in Hr; [|discriminate].
            inversion Hr. simpl. rewrite Erow. f_equal. apply IH; [intros x Hx; apply Hi; now right | reflexivity].
          + intros s2 Hs2. apply filter_In in Hs2. apply l1dist_ok.
            rewrite (Hlen s1 (Hi s1 (or_introl eq_refl))), (Hlen s2 (proj1 Hs2)).
            destruct feas; [destruct (proj1 Hs2) | reflexivity]. }
      apply Hgen; [apply incl_refl | exact Eds]. }
    rewrite Hds. unfold spacing_sq_textbook, spacing_ds_textbook. rewrite !map_length. reflexivity.
Qed.

(* ================= properties of the textbook functions ================= *)

(* ---------- epsilon ---------- *)
Lemma dev_as_map n dirs r s : length dirs = n -> length r = n -> length s = n ->
  dev dirs r s = map (fun k => adj_diff (nth k dirs false) (nth k s 0) (nth k r 0)) (seq 0 n).
Proof. intros Hd Hr Hs. unfold dev. now apply zip3_as_map. Qed.

Lemma dev_self_zero n dirs r x : length dirs = n -> length r = n -> In x (dev dirs r r) -> x == 0.
Proof.
  intros Hd Hr Hx. rewrite (dev_as_map n) in Hx by auto. apply in_map_iff in Hx. destruct Hx as [k [<- _]].
  unfold adj_diff. destruct (nth k dirs false); ring.
Qed.

Lemma dev_nonempty n dirs r s : (1 <= n)%nat -> length dirs = n -> length r = n -> length s = n -> dev dirs r s <> [].
Proof.
  intros H1 Hd Hr Hs. rewrite (dev_as_map n) by auto. destruct n; [lia | simpl; discriminate].
Qed.

(* the adjusted first coordinate: smaller = better *)
Definition adj0 (dirs : list bool) (v : list Q) : Q := (if nth 0 dirs false then (-1 # 1) else 1) * nth 0 v 0.

Lemma dev_first n dirs r s : (1 <= n)%nat -> length dirs = n -> length r = n -> length s = n ->
  In (adj0 dirs s - adj0 dirs r) (map (fun x => x) (dev dirs r s)) \/
  exists x, In x (dev dirs r s) /\ x == adj0 dirs s - adj0 dirs r.
Proof.
  intros H1 Hd Hr Hs. right. rewrite (dev_as_map n) by auto.
  exists (adj_diff (nth 0 dirs false) (nth 0 s 0) (nth 0 r 0)). split.
  - apply in_map_iff. exists 0%nat. split; [reflexivity | apply in_seq; lia].
  - unfold adj_diff, adj0. destruct (nth 0 dirs false); ring.
Qed.

Lemma argmin_exists {A} (f : A -> Q) (V : list A) : V <> [] -> exists r0, In r0 V /\ forall s, In s V -> f r0 <= f s.
Proof.
  intro Hne. assert (Hm : map f V <> []) by (intro E; apply map_eq_nil in E; contradiction).
  pose proof (lmin_in _ Hm) as Hin. apply in_map_iff in Hin. destruct Hin as [r0 [E Hr0]].
  exists r0. split; [exact Hr0|]. intros s Hs. rewrite E. apply lmin_le. now apply in_map.
Qed.

(* eps of a set of vectors against itself is 0 *)
Theorem eps_textbook_self n dirs V : (1 <= n)%nat -> length dirs = n -> V <> [] ->
  (forall v, In v V -> length v = n) -> eps_textbook dirs V V == 0.
Proof.
  intros H1 Hd Hne Hl. unfold eps_textbook.
  set (M := fun r s => lmax (dev dirs r s)).
  assert (HM0 : forall r, In r V -> M r r == 0).
  { intros r Hr. unfold M. apply (dev_self_zero n dirs r); auto. apply lmax_in. apply (dev_nonempty n); auto. }
  assert (Houter : map (fun r => lmin (map (fun s => M r s) V)) V <> []) by (intro E; apply map_eq_nil in E; contradiction).
  apply Qle_antisym.
  - apply lmax_lub; [exact Houter|]. intros x Hx. apply in_map_iff in Hx. destruct Hx as [r [<- Hr]].
    pose proof (lmin_le (map (fun s => M r s) V) (M r r) ltac:(apply in_map_iff; exists r; auto)) as Hle.
    rewrite (HM0 r Hr) in Hle. exact Hle.
  - destruct (argmin_exists (adj0 dirs) V Hne) as [r0 [Hr0 Hmin]].
    assert (H0 : 0 <= lmin (map (fun s => M r0 s) V)).
    { apply lmin_glb; [intro E; apply map_eq_nil in E; contradiction|].
      intros x Hx. apply in_map_iff in Hx. destruct Hx as [s [<- Hs]]. unfold M.
      destruct (dev_first n dirs r0 s H1 Hd (Hl r0 Hr0) (Hl s Hs)) as [Hin|[y [Hy Ey]]].
      - rewrite map_id in Hin. pose proof (lmax_ge _ _ Hin). specialize (Hmin s Hs). lra.
      - pose proof (lmax_ge _ _ Hy). specialize (Hmin s Hs). lra. }
    pose proof (lmax_ge (map (fun r => lmin (map (fun s => M r s) V)) V) (lmin (map (fun s => M r0 s) V))
                  ltac:(apply in_map_iff; exists r0; auto)) as Hfin. unfold M in *. lra.
Qed.

(* s' is no better than s in every objective (declared directions; true = maximise) *)
Definition vworse (dirs : list bool) (s s' : list Q) : Prop :=
  length s' = length s /\
  forall k, (k < length dirs)%nat -> if nth k dirs false then nth k s' 0 <= nth k s 0 else nth k s 0 <= nth k s' 0.

Lemma dev_mono n dirs r s s' : length dirs = n -> length r = n -> length s = n -> vworse dirs s s' ->
  Forall2 Qle (dev dirs r s) (dev dirs r s').
Proof.
  intros Hd Hr Hs [Hl Hw]. rewrite (dev_as_map n dirs r s), (dev_as_map n dirs r s') by (auto; congruence).
  apply Forall2_map with (P := eq); [apply Forall2_same; reflexivity|].
  intros k ? <-. destruct (Nat.lt_ge_cases k n) as [L|G].
  - specialize (Hw k ltac:(lia)). unfold adj_diff. destruct (nth k dirs false); lra.
  - rewrite !(nth_overflow s), !(nth_overflow s'), !(nth_overflow r) by lia. lra.
Qed.

(* making members worse never decreases eps *)
Theorem eps_textbook_monotone n dirs R S S' : length dirs = n ->
  (forall r, In r R -> length r = n) -> (forall s, In s S -> length s = n) ->
  Forall2 (vworse dirs) S S' -> eps_textbook dirs R S <= eps_textbook dirs R S'.
Proof.
  intros Hd HR HS HW. unfold eps_textbook. apply lmax_mono.
  apply Forall2_map with (P := fun a b => a = b /\ In a R).
  - apply Forall2_same. intros x Hx. split; [reflexivity | exact Hx].
  - intros r ? [<- Hr]. apply lmin_mono.
    assert (HS' : forall s, In s S -> length s = n) by exact HS.
    clear HS. revert HS'. induction HW as [|s s' T T' Hss HT IH]; intro HS'; simpl; constructor.
    + apply lmax_mono. apply (dev_mono n); auto. apply HS'. now left.
    + apply IH. intros x Hx. apply HS'. now right.
Qed.

Lemma Permutation_filter {A} (p : A -> bool) a b : Permutation a b -> Permutation (filter p a) (filter p b).
Proof.
  intro Hab. induction Hab; simpl.
  - constructor.
  - destruct (p x); [now constructor | assumption].
  - destruct (p x), (p y); [apply perm_swap | apply Permutation_refl | apply Permutation_refl | apply Permutation_refl].
  - now apply Permutation_trans with (filter p l').
Qed.

(* order independence *)
Theorem eps_textbook_perm dirs R R' S S' : Permutation R R' -> Permutation S S' ->
  eps_textbook dirs R S == eps_textbook dirs R' S'.
Proof.
  intros HR HS. unfold eps_textbook.
  rewrite (lmax_perm _ _ (Permutation_map (fun r => lmin (map (fun s => lmax (dev dirs r s)) S)) HR)).
  apply lmax_veq. apply Forall2_map with (P := eq); [apply Forall2_same; reflexivity|].
  intros r ? <-. apply lmin_perm. now apply Permutation_map.
Qed.

(* ---------- GD / IGD terms ---------- *)
Lemma qsum_nonneg l : (forall x, In x l -> 0 <= x) -> 0 <= qsum l.
Proof.
  induction l as [|a r IH]; intro H; simpl; [lra|].
  pose proof (H a (or_introl eq_refl)). pose proof (IH (fun x Hx => H x (or_intror Hx))). lra.
Qed.

Lemma qsum_zero l : (forall x, In x l -> x == 0) -> qsum l == 0.
Proof.
  induction l as [|a r IH]; intro H; simpl; [reflexivity|].
  rewrite (H a (or_introl eq_refl)), (IH (fun x Hx => H x (or_intror Hx))). ring.
Qed.

Lemma sq_nonneg (x : Q) : 0 <= x * x.
Proof. nra. Qed.

Lemma sqd_nonneg : forall x y, 0 <= sqd x y.
Proof.
  unfold sqd, qsum. induction x as [|a x IH]; intros [|b y]; cbn [zip2 fold_right]; try lra.
  pose proof (IH y). pose proof (sq_nonneg (a - b)). lra.
Qed.

Lemma sqd_self : forall x, sqd x x == 0.
Proof. unfold sqd, qsum. induction x as [|a x IH]; cbn [zip2 fold_right]; [reflexivity|]. rewrite IH. ring. Qed.

Lemma nsq_nonneg x Y : 0 <= nsq x Y.
Proof.
  unfold nsq. destruct Y as [|y Y']; [simpl; lra|].
  apply lmin_glb; [simpl; discriminate|]. intros z Hz. apply in_map_iff in Hz. destruct Hz as [y0 [<- _]]. apply sqd_nonneg.
Qed.

Lemma nsq_member x Y : In x Y -> nsq x Y == 0.
Proof.
  intro Hx. apply Qle_antisym; [|apply nsq_nonneg].
  unfold nsq. pose proof (lmin_le (map (sqd x) Y) (sqd x x) ltac:(now apply in_map)) as H. rewrite sqd_self in H. exact H.
Qed.

(* every squared nearest distance is >= 0, hence so is their sum *)
Theorem gd_terms_nonneg R S : (forall t, In t (gd_terms_textbook R S) -> 0 <= t) /\ 0 <= qsum (gd_terms_textbook R S).
Proof.
  assert (H : forall t, In t (gd_terms_textbook R S) -> 0 <= t).
  { intros t Ht. unfold gd_terms_textbook in Ht. apply in_map_iff in Ht. destruct Ht as [s [<- _]]. apply nsq_nonneg. }
  split; [exact H | now apply qsum_nonneg].
Qed.

(* a set against itself: every nearest distance is 0 *)
Theorem gd_terms_self V : (forall t, In t (gd_terms_textbook V V) -> t == 0) /\ qsum (gd_terms_textbook V V) == 0.
Proof.
  assert (H : forall t, In t (gd_terms_textbook V V) -> t == 0).
  { intros t Ht. unfold gd_terms_textbook in Ht. apply in_map_iff in Ht. destruct Ht as [s [<- Hs]]. now apply nsq_member. }
  split; [exact H | now apply qsum_zero].
Qed.

(* same multiset up to == *)
Definition peq (l l' : list Q) : Prop := exists m, Permutation l m /\ Forall2 Qeq m l'.

Lemma qsum_perm l l' : Permutation l l' -> qsum l == qsum l'.
Proof. induction 1; simpl; try lra. Qed.
Lemma qsum_veq l l' : Forall2 Qeq l l' -> qsum l == qsum l'.
Proof. induction 1; simpl; [reflexivity|]. rewrite H, IHForall2. reflexivity. Qed.
Lemma qsum_peq l l' : peq l l' -> qsum l == qsum l'.
Proof. intros [m [Hp Hv]]. rewrite (qsum_perm _ _ Hp). now apply qsum_veq. Qed.
Lemma length_peq l l' : peq l l' -> length l = length l'.
Proof.
  intros [m [Hp Hv]]. rewrite (Permutation_length Hp). clear Hp. induction Hv; simpl; auto.
Qed.

Lemma peq_map (h h' : Q -> Q) l l' : (forall x y, x == y -> h x == h' y) -> peq l l' -> peq (map h l) (map h' l').
Proof.
  intros Hh [m [Hp Hv]]. exists (map h m). split; [now apply Permutation_map|].
  apply Forall2_map with (P := Qeq); auto.
Qed.

(* the multiset of squared nearest distances does not depend on the order of either set *)
Theorem gd_terms_perm R R' S S' : Permutation R R' -> Permutation S S' ->
  peq (gd_terms_textbook R S) (gd_terms_textbook R' S').
Proof.
  intros HR HS. unfold gd_terms_textbook. exists (map (fun s => nsq s R) S'). split; [now apply Permutation_map|].
  apply Forall2_map with (P := eq); [apply Forall2_same; reflexivity|].
  intros s ? <-. unfold nsq. apply lmin_perm. now apply Permutation_map.
Qed.

(* ---------- spacing ---------- *)
Lemma Qdiv_nonneg a b : 0 <= a -> 0 <= b -> 0 <= a / b.
Proof. intros Ha Hb. unfold Qdiv. apply Qmult_le_0_compat; [exact Ha | now apply Qinv_le_0_compat]. Qed.

Lemma inject_nat_nonneg n : 0 <= inject_Z (Z.of_nat n).
Proof. change 0 with (inject_Z 0). rewrite <- Zle_Qle. lia. Qed.

Theorem spacing_sq_nonneg ds : 0 <= spacing_sq_textbook ds.
Proof.
  unfold spacing_sq_textbook. apply Qdiv_nonneg; [|apply inject_nat_nonneg].
  apply qsum_nonneg. intros x Hx. apply in_map_iff in Hx. destruct Hx as [d [<- _]]. apply sq_nonneg.
Qed.

Theorem spacing_model_nonneg set q : spacing_calculate set = Ok q -> 0 <= q.
Proof.
  unfold spacing_calculate. destruct (Nat.ltb (length (feasible set)) 2).
  - intro H. inversion H. lra.
  - destruct (spacing_distances (feasible set)) as [ds|]; cbn [bind]; [|discriminate].
    intro H. inversion H. apply Qdiv_nonneg; [|apply inject_nat_nonneg].
    apply qsum_nonneg. intros x Hx. apply in_map_iff in Hx. destruct Hx as [d [<- _]]. apply sq_nonneg.
Qed.

Theorem spacing_sq_peq ds ds' : peq ds ds' -> spacing_sq_textbook ds == spacing_sq_textbook ds'.
Proof.
  intro Hp. unfold spacing_sq_textbook. rewrite <- (length_peq _ _ Hp).
  set (n := length ds).
  assert (Em : qsum ds / inject_Z (Z.of_nat n) == qsum ds' / inject_Z (Z.of_nat n)) by (now rewrite (qsum_peq _ _ Hp)).
  assert (Es : qsum (map (fun d => (d - qsum ds / inject_Z (Z.of_nat n)) * (d - qsum ds / inject_Z (Z.of_nat n))) ds) ==
               qsum (map (fun d => (d - qsum ds' / inject_Z (Z.of_nat n)) * (d - qsum ds' / inject_Z (Z.of_nat n))) ds')).
  { apply qsum_peq. apply peq_map; [|exact Hp]. intros x y Exy. rewrite Exy, Em. reflexivity. }
  rewrite Es. reflexivity.
Qed.

Theorem spacing_ds_perm feas feas' : Permutation feas feas' ->
  peq (spacing_ds_textbook feas) (spacing_ds_textbook feas').
Proof.
  intro Hp. unfold spacing_ds_textbook.
  exists (map (fun s1 => lmin (map (fun s2 => l1d (s_objs s1) (s_objs s2))
                                   (filter (fun s2 => negb (Nat.eqb (s_sid s1) (s_sid s2))) feas))) feas').
  split; [now apply Permutation_map|].
  apply Forall2_map with (P := eq); [apply Forall2_same; reflexivity|].
  intros s1 ? <-. apply lmin_perm. apply Permutation_map. now apply Permutation_filter.
Qed.

(* ================= end-to-end corollaries about the model of the classes ================= *)

Lemma accepted_self nobjs ref c st0 : (1 <= nobjs)%nat -> ind_make nobjs [] ref = Ok (c, st0) ->
  wf_set nobjs (feasible ref) -> accepted nobjs ref ref c st0.
Proof.
  intros H1 Hm Hw. constructor; auto. destruct Hw as [A B]. split.
  - intros s Hs. apply A. apply in_app_or in Hs. tauto.
  - intros s s' Hs Hs'. apply B; apply in_app_or in Hs; apply in_app_or in Hs'; tauto.
Qed.

Lemma normed_lengths nobjs ref set c st0 l : accepted nobjs ref set c st0 -> incl l (feasible ref ++ feasible set) ->
  forall v, In v (map (normed c) l) -> length v = nobjs.
Proof.
  intros Hacc Hi v Hv. destruct (accepted_facts _ _ _ _ _ Hacc) as [_ [_ [_ [_ [_ [_ G]]]]]].
  apply in_map_iff in Hv. destruct Hv as [s [<- Hs]]. apply G. now apply Hi.
Qed.

(* the indicators of the reference set itself *)
Theorem eps_ref_zero nobjs dirs ref c st0 : (1 <= nobjs)%nat -> length dirs = nobjs ->
  ind_make nobjs [] ref = Ok (c, st0) -> wf_set nobjs (feasible ref) ->
  exists e, eps_indicator nobjs dirs ref ref = Ok (XFin e) /\ e == 0.
Proof.
  intros H1 Hd Hm Hw. pose proof (accepted_self nobjs ref c st0 H1 Hm Hw) as Hacc.
  destruct (accepted_facts _ _ _ _ _ Hacc) as [_ [_ [C _]]].
  rewrite (eps_unfold nobjs dirs ref ref c st0 Hacc Hd).
  destruct (feasible ref) as [|r0 rr] eqn:E; [congruence|]. rewrite <- E in *.
  eexists. split; [reflexivity|].
  apply (eps_textbook_self nobjs); auto.
  - intro Em. apply map_eq_nil in Em. contradiction.
  - apply (normed_lengths nobjs ref ref c st0 _ Hacc). apply incl_appl, incl_refl.
Qed.

Theorem gd_ref_zero nobjs ref c st0 : (1 <= nobjs)%nat ->
  ind_make nobjs [] ref = Ok (c, st0) -> wf_set nobjs (feasible ref) ->
  exists ts, gd_indicator nobjs ref ref = Ok (ITerms ts (length (feasible ref))) /\
             (forall t, In t ts -> t == 0) /\ qsum ts == 0.
Proof.
  intros H1 Hm Hw. pose proof (accepted_self nobjs ref c st0 H1 Hm Hw) as Hacc.
  destruct (accepted_facts _ _ _ _ _ Hacc) as [_ [_ [C _]]].
  rewrite (gd_unfold nobjs ref ref c st0 Hacc).
  destruct (feasible ref) as [|r0 rr] eqn:E; [congruence|]. rewrite <- E in *.
  eexists. split; [reflexivity|]. apply gd_terms_self.
Qed.

Theorem igd_ref_zero nobjs ref c st0 : (1 <= nobjs)%nat ->
  ind_make nobjs [] ref = Ok (c, st0) -> wf_set nobjs (feasible ref) ->
  exists ts, igd_indicator nobjs ref ref = Ok (ITerms ts (length (feasible ref))) /\
             (forall t, In t ts -> t == 0) /\ qsum ts == 0.
Proof.
  intros H1 Hm Hw. pose proof (accepted_self nobjs ref c st0 H1 Hm Hw) as Hacc.
  destruct (accepted_facts _ _ _ _ _ Hacc) as [_ [_ [C _]]].
  rewrite (igd_unfold nobjs ref ref c st0 Hacc).
  destruct (feasible ref) as [|r0 rr] eqn:E; [congruence|]. rewrite <- E in *.
  eexists. split; [reflexivity|]. apply gd_terms_self.
Qed.

(* non-negativity of the ingredients: GD = (sum sqrt(t)^d)^(1/d)/n with every t >= 0, n >= 1 *)
Theorem gd_nonneg nobjs ref set c st0 ts n : accepted nobjs ref set c st0 ->
  gd_indicator nobjs ref set = Ok (ITerms ts n) ->
  (forall t, In t ts -> 0 <= t) /\ 0 <= qsum ts /\ n = length (feasible set) /\ (1 <= n)%nat.
Proof.
  intros Hacc. rewrite (gd_unfold nobjs ref set c st0 Hacc).
  destruct (feasible set) as [|s0 r0] eqn:E; [discriminate|]. rewrite <- E.
  intro H. inversion H. subst. split; [apply gd_terms_nonneg|]. split; [apply gd_terms_nonneg|].
  split; [reflexivity | rewrite E; simpl; lia].
Qed.

Theorem igd_nonneg nobjs ref set c st0 ts n : accepted nobjs ref set c st0 ->
  igd_indicator nobjs ref set = Ok (ITerms ts n) ->
  (forall t, In t ts -> 0 <= t) /\ 0 <= qsum ts /\ n = length (feasible ref) /\ (1 <= n)%nat.
Proof.
  intros Hacc. rewrite (igd_unfold nobjs ref set c st0 Hacc).
  destruct (accepted_facts _ _ _ _ _ Hacc) as [_ [_ [C _]]].
  destruct (feasible set) as [|s0 r0] eqn:E; [discriminate|]. rewrite <- E.
  intro H. inversion H. subst. split; [apply gd_terms_nonneg|]. split; [apply gd_terms_nonneg|].
  split; [reflexivity | destruct (feasible ref); [congruence | simpl; lia]].
Qed.

(* +infinity exactly when there is no feasible member *)
Theorem no_feasible_member_inf nobjs dirs ref set c st0 : accepted nobjs ref set c st0 -> length dirs = nobjs ->
  (feasible set = [] ->
     eps_indicator nobjs dirs ref set = Ok XInf /\ gd_indicator nobjs ref set = Ok IInf /\
     igd_indicator nobjs ref set = Ok IInf) /\
  (feasible set <> [] ->
     (exists e, eps_indicator nobjs dirs ref set = Ok (XFin e)) /\
     (exists ts n, gd_indicator nobjs ref set = Ok (ITerms ts n)) /\
     (exists ts n, igd_indicator nobjs ref set = Ok (ITerms ts n))).
Proof.
  intros Hacc Hd.
  rewrite (eps_unfold nobjs dirs ref set c st0 Hacc Hd), (gd_unfold nobjs ref set c st0 Hacc), (igd_unfold nobjs ref set c st0 Hacc).
  split; intro E.
  - rewrite E. auto.
  - destruct (feasible set); [congruence|]. repeat split; eauto.
Qed.

(* order of the approximation set *)
Lemma accepted_perm_set nobjs ref set set' c st0 : accepted nobjs ref set c st0 -> Permutation set set' ->
  accepted nobjs ref set' c st0.
Proof.
  intros [H1 Hm Hw] Hp. constructor; auto.
  apply (wf_set_perm nobjs (feasible ref ++ feasible set)); [|exact Hw].
  apply Permutation_app_head. unfold feasible. now apply Permutation_filter.
Qed.

Theorem eps_set_order nobjs dirs ref set set' c st0 : accepted nobjs ref set c st0 -> length dirs = nobjs ->
  Permutation set set' ->
  match eps_indicator nobjs dirs ref set, eps_indicator nobjs dirs ref set' with
  | Ok XInf, Ok XInf => True
  | Ok (XFin e), Ok (XFin e') => e == e'
  | _, _ => False
  end.
Proof.
  intros Hacc Hd Hp. pose proof (accepted_perm_set _ _ _ _ _ _ Hacc Hp) as Hacc'.
  rewrite (eps_unfold nobjs dirs ref set c st0 Hacc Hd), (eps_unfold nobjs dirs ref set' c st0 Hacc' Hd).
  assert (Hpf : Permutation (feasible set) (feasible set')) by (unfold feasible; now apply Permutation_filter).
  destruct (feasible set) as [|a r] eqn:E, (feasible set') as [|a' r'] eqn:E'; auto.
  - apply Permutation_nil in Hpf. discriminate.
  - apply Permutation_sym, Permutation_nil in Hpf. discriminate.
  - apply eps_textbook_perm; [apply Permutation_refl | now apply Permutation_map].
Qed.

Theorem gd_set_order nobjs ref set set' c st0 : accepted nobjs ref set c st0 -> Permutation set set' ->
  match gd_indicator nobjs ref set, gd_indicator nobjs ref set' with
  | Ok IInf, Ok IInf => True
  | Ok (ITerms ts n), Ok (ITerms ts' n') => peq ts ts' /\ n = n'
  | _, _ => False
  end.
Proof.
  intros Hacc Hp. pose proof (accepted_perm_set _ _ _ _ _ _ Hacc Hp) as Hacc'.
  rewrite (gd_unfold nobjs ref set c st0 Hacc), (gd_unfold nobjs ref set' c st0 Hacc').
  assert (Hpf : Permutation (feasible set) (feasible set')) by (unfold feasible; now apply Permutation_filter).
  pose proof (Permutation_length Hpf) as Hlen.
  destruct (feasible set) as [|a r] eqn:E, (feasible set') as [|a' r'] eqn:E'; auto; try discriminate.
  split; [|exact Hlen]. apply gd_terms_perm; [apply Permutation_refl | now apply Permutation_map].
Qed.

Theorem igd_set_order nobjs ref set set' c st0 : accepted nobjs ref set c st0 -> Permutation set set' ->
  match igd_indicator nobjs ref set, igd_indicator nobjs ref set' with
  | Ok IInf, Ok IInf => True
  | Ok (ITerms ts n), Ok (ITerms ts' n') => peq ts ts' /\ n = n'
  | _, _ => False
  end.
Proof.
  intros Hacc Hp. pose proof (accepted_perm_set _ _ _ _ _ _ Hacc Hp) as Hacc'.
  rewrite (igd_unfold nobjs ref set c st0 Hacc), (igd_unfold nobjs ref set' c st0 Hacc').
  assert (Hpf : Permutation (feasible set) (feasible set')) by (unfold feasible; now apply Permutation_filter).
  pose proof (Permutation_length Hpf) as Hlen.
  destruct (feasible set) as [|a r] eqn:E, (feasible set') as [|a' r'] eqn:E'; auto; try discriminate.
  split; [|reflexivity]. apply gd_terms_perm; [now apply Permutation_map | apply Permutation_refl].
Qed.

Theorem spacing_order nobjs set set' q q' : (forall s, In s (feasible set) -> length (s_objs s) = nobjs) ->
  Permutation set set' -> spacing_calculate set = Ok q -> spacing_calculate set' = Ok q' -> q == q'.
Proof.
  intros Hlen Hp Hq Hq'.
  assert (Hpf : Permutation (feasible set) (feasible set')) by (unfold feasible; now apply Permutation_filter).
  assert (Hlen' : forall s, In s (feasible set') -> length (s_objs s) = nobjs).
  { intros s Hs. apply Hlen. apply Permutation_in with (feasible set'); [now apply Permutation_sym | exact Hs]. }
  rewrite (spacing_unfold set q Hq), (spacing_unfold set' q' Hq').
  - rewrite <- (Permutation_length Hpf). destruct (Nat.ltb (length (feasible set)) 2); [reflexivity|].
    apply spacing_sq_peq. now apply spacing_ds_perm.
  - intros s Hs. rewrite (Hlen' s Hs). symmetry. apply Hlen'. destruct (feasible set'); [destruct Hs | now left].
  - intros s Hs. rewrite (Hlen s Hs). symmetry. apply Hlen. destruct (feasible set); [destruct Hs | now left].
Qed.
Lemma nth_map_seq {B} (f : nat -> B) n i d : (i < n)%nat -> nth i (map f (seq 0 n)) d = f i.
Proof.
  intro Hi. rewrite (nth_indep _ d (f 0%nat)) by (now rewrite map_length, seq_length).
  rewrite map_nth. now rewrite seq_nth.
Qed.


Lemma Qdiv_le_mono a b c : 0 < c -> a <= b -> a / c <= b / c.
Proof.
  intros Hc Hab. unfold Qdiv. apply Qmult_le_compat_r; [exact Hab|].
  apply Qlt_le_weak. now apply Qinv_lt_0_compat.
Qed.


(* ---------- the bounds are the column minima / maxima of the feasible reference members ---------- *)
Definition colv (feas : list isol) (k : nat) : list Q := map (fun s => nth k (s_objs s) 0) feas.

Lemma column_ok feas i nobjs : (forall s, In s feas -> length (s_objs s) = nobjs) -> (i < nobjs)%nat ->
  column feas i = Ok (colv feas i).
Proof.
  intros Hl Hi. unfold column, colv. apply mapM_ok_map. intros s Hs. apply nth_res_ok. rewrite (Hl s Hs). exact Hi.
Qed.

Theorem ind_make_bounds_textbook nobjs st ref c st' : (1 <= nobjs)%nat ->
  ind_make nobjs st ref = Ok (c, st') -> (forall s, In s (feasible ref) -> length (s_objs s) = nobjs) ->
  i_min c = map (fun k => lmin (colv (feasible ref) k)) (seq 0 nobjs) /\
  i_max c = map (fun k => lmax (colv (feasible ref) k)) (seq 0 nobjs).
Proof.
  intros H1 Hm Hlen.
  destruct (ind_make_ok nobjs st ref c st' H1 Hm Hlen) as [_ [_ [Hne _]]].
  revert Hm. unfold ind_make, normalize. destruct ref as [|r0 rr]; [discriminate|].
  set (feas := feasible (r0 :: rr)) in *.
  assert (Hcol : forall k, colv feas k <> []) by (intros k E; apply map_eq_nil in E; contradiction).
  rewrite (mapM_ok_map _ (fun k => lmin (colv feas k))).
  2:{ intros k Hk. apply in_seq in Hk. rewrite (column_ok feas k nobjs Hlen) by lia. cbn [bind]. now apply qminl_ok. }
  rewrite (mapM_ok_map _ (fun k => lmax (colv feas k))).
  2:{ intros k Hk. apply in_seq in Hk. rewrite (column_ok feas k nobjs Hlen) by lia. cbn [bind]. now apply qmaxl_ok. }
  cbn [bind].
  destruct (empty_range nobjs _ _) as [e|]; cbn [bind]; [|discriminate]. destruct e; [discriminate|].
  destruct (write_normalized nobjs _ _ st feas); cbn [bind]; [|discriminate].
  intro H. injection H as Ec _. subst c. simpl. split; reflexivity.
Qed.

Lemma existsb_false {A} (f : A -> bool) l : existsb f l = false -> forall x, In x l -> f x = false.
Proof.
  intros E x Hx. destruct (f x) eqn:Fx; [|reflexivity].
  assert (existsb f l = true) by (apply existsb_exists; eauto). congruence.
Qed.

Lemma empty_range_false nobjs mins maxs : empty_range nobjs mins maxs = Ok false ->
  length mins = nobjs -> length maxs = nobjs ->
  forall k, (k < nobjs)%nat -> EPSILON <= Qabs (nth k maxs 0 - nth k mins 0).
Proof.
  intros He Hlo Hhi k Hk. unfold empty_range in He.
  rewrite (mapM_ok_map _ (fun i => Qltb (Qabs (nth i maxs 0 - nth i mins 0)) EPSILON)) in He.
  - cbn [bind] in He. injection He as He.
    pose proof (existsb_false _ _ He (Qltb (Qabs (nth k maxs 0 - nth k mins 0)) EPSILON)) as Hf.
    apply Qltb_false. apply Hf. apply in_map_iff. exists k. split; [reflexivity | apply in_seq; lia].
  - intros i Hi. apply in_seq in Hi. rewrite (nth_res_ok mins i 0) by lia. rewrite (nth_res_ok maxs i 0) by lia. reflexivity.
Qed.

(* non-degenerate ranges are positive: max - min >= EPSILON > 0 in every objective *)
Lemma accepted_positive_range nobjs ref set c st0 : accepted nobjs ref set c st0 ->
  forall k, (k < nobjs)%nat -> nth k (i_min c) 0 < nth k (i_max c) 0.
Proof.
  intros Hacc k Hk. destruct (accepted_facts _ _ _ _ _ Hacc) as [_ [_ [C [D [E [F _]]]]]].
  pose proof (empty_range_false nobjs _ _ F D E k Hk) as Habs.
  destruct (ind_make_bounds_textbook nobjs [] ref c st0 (acc_nobjs _ _ _ _ _ Hacc) (acc_make _ _ _ _ _ Hacc)) as [Emin Emax].
  { intros s Hs. apply (proj1 (acc_wf _ _ _ _ _ Hacc)). apply in_or_app. now left. }
  rewrite Emin, Emax in *. rewrite !nth_map_seq in * by exact Hk.
  set (col := colv (feasible ref) k) in *.
  assert (Hcol : col <> []) by (intro E0; apply map_eq_nil in E0; contradiction).
  pose proof (lmin_in col Hcol) as Hin. pose proof (lmax_ge col _ Hin) as Hle.
  assert (Hpos : 0 < EPSILON) by reflexivity.
  rewrite Qabs_pos in Habs by lra. lra.
Qed.

Lemma nth_normv nobjs mins maxs o k : length o = nobjs -> length mins = nobjs -> length maxs = nobjs -> (k < nobjs)%nat ->
  nth k (normv mins maxs o) 0 = (nth k o 0 - nth k mins 0) / (nth k maxs 0 - nth k mins 0).
Proof.
  intros Ho Hlo Hhi Hk. unfold normv. rewrite (zip3_as_map _ 0 0 0 nobjs o mins maxs Ho Hlo Hhi). now rewrite nth_map_seq.
Qed.

(* ---------- eps_monotone_worse ---------- *)
(* s' is the object s made worse: same feasibility, every objective no better *)
Definition raw_worse (dirs : list bool) (s s' : isol) : Prop :=
  s_cv s' = s_cv s /\ length (s_objs s') = length (s_objs s) /\
  forall k, (k < length dirs)%nat ->
    if nth k dirs false then nth k (s_objs s') 0 <= nth k (s_objs s) 0 else nth k (s_objs s) 0 <= nth k (s_objs s') 0.

Lemma Forall2_filter_aligned {A} (R : A -> A -> Prop) (p : A -> bool) l l' :
  (forall a b, R a b -> p a = p b) -> Forall2 R l l' -> Forall2 R (filter p l) (filter p l').
Proof.
  intros Hp. induction 1 as [|a b r r' Hab _ IH]; simpl; [constructor|].
  rewrite (Hp a b Hab). destruct (p b); [now constructor | exact IH].
Qed.

Lemma Forall2_impl' {A B} (R1 R2 : A -> B -> Prop) l l' :
  (forall a b, R1 a b -> R2 a b) -> Forall2 R1 l l' -> Forall2 R2 l l'.
Proof. intros Hi. induction 1; constructor; auto. Qed.

Lemma Forall2_with_in {A B} (R : A -> B -> Prop) l l' :
  Forall2 R l l' -> Forall2 (fun a b => R a b /\ In a l /\ In b l') l l'.
Proof.
  induction 1 as [|a b r r' Hab _ IH]; constructor.
  - split; [exact Hab | split; now left].
  - eapply Forall2_impl'; [|exact IH]. intros x y [Hr [Hx Hy]]. split; [exact Hr | split; now right].
Qed.

Theorem eps_monotone_worse nobjs dirs ref set set' c st0 e e' :
  accepted nobjs ref set c st0 -> accepted nobjs ref set' c st0 -> length dirs = nobjs ->
  Forall2 (raw_worse dirs) set set' ->
  eps_indicator nobjs dirs ref set = Ok (XFin e) -> eps_indicator nobjs dirs ref set' = Ok (XFin e') -> e <= e'.
Proof.
  intros Hacc Hacc' Hd HW.
  rewrite (eps_unfold nobjs dirs ref set c st0 Hacc Hd), (eps_unfold nobjs dirs ref set' c st0 Hacc' Hd).
  assert (HWf : Forall2 (raw_worse dirs) (feasible set) (feasible set')).
  { unfold feasible. apply Forall2_filter_aligned; [|exact HW]. intros a b [Ecv _]. unfold feasibleb. now rewrite Ecv. }
  destruct (feasible set) as [|a r] eqn:E; [discriminate|]. destruct (feasible set') as [|a' r'] eqn:E'; [discriminate|].
  rewrite <- E, <- E' in *. intros H H'. injection H as <-. injection H' as <-.
  destruct (accepted_facts _ _ _ _ _ Hacc) as [_ [_ [_ [D [D' [_ G]]]]]].
  destruct (accepted_facts _ _ _ _ _ Hacc') as [_ [_ [_ [_ [_ [_ G']]]]]].
  apply (eps_textbook_monotone nobjs); auto.
  - apply (normed_lengths nobjs ref set c st0 _ Hacc). apply incl_appl, incl_refl.
  - apply (normed_lengths nobjs ref set c st0 _ Hacc). apply incl_appr, incl_refl.
  - apply Forall2_map with (P := fun s s' => raw_worse dirs s s' /\ In s (feasible set) /\ In s' (feasible set')).
    + now apply Forall2_with_in.
    + intros s s' [[Ecv [Elen Hk]] [Hs Hs']].
      assert (Ls : length (s_objs s) = nobjs) by (apply (proj1 (acc_wf _ _ _ _ _ Hacc)); apply in_or_app; now right).
      assert (Ls' : length (s_objs s') = nobjs) by congruence.
      split.
      * rewrite (G s) by (apply in_or_app; now right). apply G'. apply in_or_app. now right.
      * intros k Hk'. rewrite Hd in Hk'. unfold normed. rewrite !(nth_normv nobjs) by auto.
        specialize (Hk k ltac:(lia)). pose proof (accepted_positive_range _ _ _ _ _ Hacc k Hk') as Hpos.
        destruct (nth k dirs false); apply Qdiv_le_mono; lra.
Qed.

(* ---------- order of the REFERENCE set ---------- *)
(* the bounds of a reordered reference set are the same numbers (==, possibly other
   representatives); everything downstream respects == *)
Lemma normv_veq : forall o mins maxs mins' maxs',
  Forall2 Qeq mins mins' -> Forall2 Qeq maxs maxs' -> Forall2 Qeq (normv mins maxs o) (normv mins' maxs' o).
Proof.
  unfold normv. induction o as [|a o IH]; intros mins maxs mins' maxs' H1 H2; [constructor|].
  destruct H1 as [|lo lo' m m' Elo Hm]; [constructor|]. destruct H2 as [|hi hi' M M' Ehi HM]; [constructor|].
  simpl. constructor; [now rewrite Elo, Ehi | now apply IH].
Qed.

Lemma dev_veq : forall dirs r r' s s', Forall2 Qeq r r' -> Forall2 Qeq s s' -> Forall2 Qeq (dev dirs r s) (dev dirs r' s').
Proof.
  unfold dev. induction dirs as [|mx ds IH]; intros r r' s s' Hr Hs; [constructor|].
  destruct Hs as [|a a' t t' Ea Ht]; [constructor|]. destruct Hr as [|b b' u u' Eb Hu]; [constructor|].
  simpl. constructor; [unfold adj_diff; now rewrite Ea, Eb | now apply IH].
Qed.

Theorem eps_textbook_veq dirs R R' S S' :
  Forall2 (Forall2 Qeq) R R' -> Forall2 (Forall2 Qeq) S S' -> eps_textbook dirs R S == eps_textbook dirs R' S'.
Proof.
  intros HR HS. unfold eps_textbook. apply lmax_veq. apply Forall2_map with (P := Forall2 Qeq); [exact HR|].
  intros r r' Hr. apply lmin_veq. apply Forall2_map with (P := Forall2 Qeq); [exact HS|].
  intros s s' Hs. apply lmax_veq. now apply dev_veq.
Qed.

Lemma sqd_veq : forall x x' y y', Forall2 Qeq x x' -> Forall2 Qeq y y' -> sqd x y == sqd x' y'.
Proof.
  unfold sqd, qsum. intros x x' y y' Hx. revert y y'.
  induction Hx as [|a a' t t' Ea Ht IH]; intros y y' Hy; [reflexivity|].
  destruct Hy as [|b b' u u' Eb Hu]; [reflexivity|]. cbn [zip2 fold_right]. rewrite Ea, Eb, (IH u u' Hu). reflexivity.
Qed.

Theorem gd_terms_veq R R' S S' :
  Forall2 (Forall2 Qeq) R R' -> Forall2 (Forall2 Qeq) S S' ->
  Forall2 Qeq (gd_terms_textbook R S) (gd_terms_textbook R' S').
Proof.
  intros HR HS. unfold gd_terms_textbook. apply Forall2_map with (P := Forall2 Qeq); [exact HS|].
  intros s s' Hs. unfold nsq. apply lmin_veq. apply Forall2_map with (P := Forall2 Qeq); [exact HR|].
  intros r r' Hr. now apply sqd_veq.
Qed.

Lemma Forall2_perm_r {A B} (R : A -> B -> Prop) a a' m :
  Forall2 R a a' -> Permutation a' m -> exists m0, Permutation a m0 /\ Forall2 R m0 m.
Proof.
  intros HF HP. revert a HF. induction HP as [|x l l' HP IH|x y l|l l' l'' HP1 IH1 HP2 IH2]; intros a HF.
  - inversion HF. subst. exists []. split; constructor.
  - inversion HF as [|a0 ? r ? Hax Hr]. subst. destruct (IH r Hr) as [m0 [P0 F0]].
    exists (a0 :: m0). split; [now constructor | now constructor].
  - inversion HF as [|a0 ? r ? Hay Hr]. subst. inversion Hr as [|a1 ? r1 ? Hax Hr1]. subst.
    exists (a1 :: a0 :: r1). split; [apply perm_swap | repeat constructor; assumption].
  - destruct (IH1 a HF) as [m1 [P1 F1]]. destruct (IH2 m1 F1) as [m2 [P2 F2]].
    exists m2. split; [now apply Permutation_trans with m1 | exact F2].
Qed.

Lemma Forall2_Qeq_trans l1 l2 l3 : Forall2 Qeq l1 l2 -> Forall2 Qeq l2 l3 -> Forall2 Qeq l1 l3.
Proof.
  intros H12. revert l3. induction H12 as [|a b r r' Eab _ IH]; intros l3 H23; inversion H23; subst; constructor.
  - now rewrite Eab.
  - now apply IH.
Qed.

Lemma peq_veq_l a a' b : Forall2 Qeq a a' -> peq a' b -> peq a b.
Proof.
  intros HF [m [HP HV]]. destruct (Forall2_perm_r Qeq a a' m HF HP) as [m0 [P0 F0]].
  exists m0. split; [exact P0 | now apply Forall2_Qeq_trans with m].
Qed.

Lemma bounds_ref_order nobjs ref ref' set c c' st0 st0' :
  accepted nobjs ref set c st0 -> accepted nobjs ref' set c' st0' -> Permutation ref ref' ->
  Forall2 Qeq (i_min c) (i_min c') /\ Forall2 Qeq (i_max c) (i_max c').
Proof.
  intros Hacc Hacc' Hp.
  destruct (ind_make_bounds_textbook nobjs [] ref c st0 (acc_nobjs _ _ _ _ _ Hacc) (acc_make _ _ _ _ _ Hacc)) as [Emin Emax].
  { intros s Hs. apply (proj1 (acc_wf _ _ _ _ _ Hacc)). apply in_or_app. now left. }
  destruct (ind_make_bounds_textbook nobjs [] ref' c' st0' (acc_nobjs _ _ _ _ _ Hacc') (acc_make _ _ _ _ _ Hacc')) as [Emin' Emax'].
  { intros s Hs. apply (proj1 (acc_wf _ _ _ _ _ Hacc')). apply in_or_app. now left. }
  assert (Hpf : Permutation (feasible ref) (feasible ref')) by (unfold feasible; now apply Permutation_filter).
  rewrite Emin, Emax, Emin', Emax'. split.
  - apply Forall2_map with (P := eq); [apply Forall2_same; reflexivity|]. intros k ? <-. apply lmin_perm. unfold colv. now apply Permutation_map.
  - apply Forall2_map with (P := eq); [apply Forall2_same; reflexivity|]. intros k ? <-. apply lmax_perm. unfold colv. now apply Permutation_map.
Qed.

Lemma normed_veq_lists c c' l : Forall2 Qeq (i_min c) (i_min c') -> Forall2 Qeq (i_max c) (i_max c') ->
  Forall2 (Forall2 Qeq) (map (normed c) l) (map (normed c') l).
Proof.
  intros H1 H2. apply Forall2_map with (P := eq); [apply Forall2_same; reflexivity|].
  intros s ? <-. unfold normed. now apply normv_veq.
Qed.

Theorem eps_ref_order nobjs dirs ref ref' set c c' st0 st0' :
  accepted nobjs ref set c st0 -> accepted nobjs ref' set c' st0' -> length dirs = nobjs -> Permutation ref ref' ->
  match eps_indicator nobjs dirs ref set, eps_indicator nobjs dirs ref' set with
  | Ok XInf, Ok XInf => True
  | Ok (XFin e), Ok (XFin e') => e == e'
  | _, _ => False
  end.
Proof.
  intros Hacc Hacc' Hd Hp. destruct (bounds_ref_order _ _ _ _ _ _ _ _ Hacc Hacc' Hp) as [B1 B2].
  rewrite (eps_unfold nobjs dirs ref set c st0 Hacc Hd), (eps_unfold nobjs dirs ref' set c' st0' Hacc' Hd).
  assert (Hpf : Permutation (feasible ref) (feasible ref')) by (unfold feasible; now apply Permutation_filter).
  destruct (feasible set) as [|a r] eqn:E; [exact I|]. rewrite <- E.
  rewrite <- (eps_textbook_perm dirs _ _ _ _ (Permutation_map (normed c') Hpf) (Permutation_refl _)).
  apply eps_textbook_veq; now apply normed_veq_lists.
Qed.

Theorem gd_ref_order nobjs ref ref' set c c' st0 st0' :
  accepted nobjs ref set c st0 -> accepted nobjs ref' set c' st0' -> Permutation ref ref' ->
  match gd_indicator nobjs ref set, gd_indicator nobjs ref' set with
  | Ok IInf, Ok IInf => True
  | Ok (ITerms ts n), Ok (ITerms ts' n') => peq ts ts' /\ n = n'
  | _, _ => False
  end.
Proof.
  intros Hacc Hacc' Hp. destruct (bounds_ref_order _ _ _ _ _ _ _ _ Hacc Hacc' Hp) as [B1 B2].
  rewrite (gd_unfold nobjs ref set c st0 Hacc), (gd_unfold nobjs ref' set c' st0' Hacc').
  assert (Hpf : Permutation (feasible ref) (feasible ref')) by (unfold feasible; now apply Permutation_filter).
  destruct (feasible set) as [|a r] eqn:E; [exact I|]. rewrite <- E. split; [|reflexivity].
  apply peq_veq_l with (gd_terms_textbook (map (normed c') (feasible ref)) (map (normed c') (feasible set))).
  - apply gd_terms_veq; now apply normed_veq_lists.
  - apply gd_terms_perm; [now apply Permutation_map | apply Permutation_refl].
Qed.

Theorem igd_ref_order nobjs ref ref' set c c' st0 st0' :
  accepted nobjs ref set c st0 -> accepted nobjs ref' set c' st0' -> Permutation ref ref' ->
  match igd_indicator nobjs ref set, igd_indicator nobjs ref' set with
  | Ok IInf, Ok IInf => True
  | Ok (ITerms ts n), Ok (ITerms ts' n') => peq ts ts' /\ n = n'
  | _, _ => False
  end.
Proof.
  intros Hacc Hacc' Hp. destruct (bounds_ref_order _ _ _ _ _ _ _ _ Hacc Hacc' Hp) as [B1 B2].
  rewrite (igd_unfold nobjs ref set c st0 Hacc), (igd_unfold nobjs ref' set c' st0' Hacc').
  assert (Hpf : Permutation (feasible ref) (feasible ref')) by (unfold feasible; now apply Permutation_filter).
  destruct (feasible set) as [|a r] eqn:E; [exact I|]. rewrite <- E. split; [|apply (Permutation_length Hpf)].
  apply peq_veq_l with (gd_terms_textbook (map (normed c') (feasible set)) (map (normed c') (feasible ref))).
  - apply gd_terms_veq; now apply normed_veq_lists.
  - apply gd_terms_perm; [apply Permutation_refl | now apply Permutation_map].
Qed.

(* ---------- concrete instances (non-vacuity) ---------- *)
Definition ex16_ref : list isol := [ISol 100 [0;2] 0; ISol 101 [4;0] 0; ISol 102 [2;1] 0; ISol 103 [9;9] 1].
Definition ex16_set : list isol := [ISol 0 [1;1] 0; ISol 102 [2;1] 0; ISol 1 [5;-1#1] 0; ISol 2 [0;0] (1#2)].

Definition xval_is (r : res xval) (q : Q) : bool := match r with Ok (XFin v) => Qeq_bool v q | _ => false end.
Fixpoint qlist_is (a b : list Q) : bool :=
  match a, b with [], [] => true | x :: a', y :: b' => Qeq_bool x y && qlist_is a' b' | _, _ => false end.
Definition terms_are (r : res ingredients) (ts : list Q) (n : nat) : bool :=
  match r with Ok (ITerms l m) => qlist_is l ts && Nat.eqb m n | _ => false end.

(* two objectives (max, min); the reference set has an infeasible member that must not move
   the bounds [0,4]x[0,2]; the set shares object 102 with the reference set, has a member
   outside the bounds and an infeasible member *)
Example ex16_accepted :
  exists c st0, accepted 2 ex16_ref ex16_set c st0 /\ i_min c = [0; 0] /\ i_max c = [4; 2].
Proof.
  destruct (ind_make 2 [] ex16_ref) as [[c st0]|] eqn:E; [|vm_compute in E; discriminate].
  exists c, st0. split.
  - constructor; [lia | exact E |].
    assert (Ef : feasible ex16_ref ++ feasible ex16_set =
                 [ISol 100 [0;2] 0; ISol 101 [4;0] 0; ISol 102 [2;1] 0; ISol 0 [1;1] 0; ISol 102 [2;1] 0; ISol 1 [5;-1#1] 0])
      by (vm_compute; reflexivity).
    rewrite Ef. split.
    + intros s Hs. simpl in Hs. repeat (destruct Hs as [<-|Hs]; [reflexivity|]). contradiction.
    + intros s s' Hs Hs' Es. simpl in Hs, Hs'.
      repeat (destruct Hs as [<-|Hs]; [repeat (destruct Hs' as [<-|Hs']; [first [reflexivity | discriminate]|]); contradiction|]).
      contradiction.
  - vm_compute in E. injection E as Ec _. subst c. split; reflexivity.
Qed.

Example ex16_values :
  xval_is (eps_indicator 2 [true; false] ex16_ref ex16_set) (-1 # 4) = true /\
  terms_are (gd_indicator 2 ex16_ref ex16_set) [1#16; 0; 5#16] 3 = true /\
  terms_are (igd_indicator 2 ex16_ref ex16_set) [5#16; 5#16; 0] 3 = true /\
  (match spacing_calculate ex16_set with Ok q => Qeq_bool q (16 # 3) | _ => false end) = true /\
  (* making the members worse (first objective is maximised) raises eps *)
  xval_is (eps_indicator 2 [true; false] ex16_ref [ISol 0 [1#2;1] 0; ISol 102 [2;1] 0; ISol 1 [3;1#2] 0; ISol 2 [0;0] (1#2)]) (1 # 4) = true.
Proof. repeat split; vm_compute; reflexivity. Qed.

(* DESIGN.md section 7 #5 (fixes/9cf8f73.diff): with both objectives maximised the value is
   1/2; the pre-repair code ignored the directions, i.e. computed the all-minimised value 0 *)
Example ex16_directions_matter :
  xval_is (eps_indicator 2 [true; true] [ISol 100 [0;1] 0; ISol 101 [1;0] 0] [ISol 0 [1#2;0] 0; ISol 1 [0;1#2] 0]) (1 # 2) = true /\
  xval_is (eps_indicator 2 [false; false] [ISol 100 [0;1] 0; ISol 101 [1;0] 0] [ISol 0 [1#2;0] 0; ISol 1 [0;1#2] 0]) 0 = true.
Proof. split; vm_compute; reflexivity. Qed.

Lemma peq_sum_length l l' : peq l l' -> qsum l == qsum l' /\ length l = length l'.
Proof. intro H. split; [exact (qsum_peq l l' H) | exact (length_peq l l' H)]. Qed.

(* ---------- history independence (repaired code) and the pre-repair counterexample ----------
   Before fixes/acef3b8.diff the reference set was normalised ONCE, in the constructor, onto
   the solution objects.  If, between construction and calculate, any other call re-normalised
   one of those objects with other bounds (constructing a second indicator whose reference
   set shares an object; Hypervolume.calculate on a set containing reference objects),
   calculate read the overwritten normalized_objectives.  The repaired code re-normalises the
   reference objects at the start of every calculate: eps_calc_unfold / gd_calc_unfold /
   igd_calc_unfold hold for EVERY prior store.  Witness for the pre-repair variant (rn =
   false): GD / IGD of the same arguments on a fresh store and after the construction of a
   second indicator that shares object 100. *)
Definition hd_ref : list isol := [ISol 100 [0;1] 0; ISol 101 [1#2;1#4] 0; ISol 102 [1;0] 0].
Definition hd_ref2 : list isol := [ISol 100 [0;1] 0; ISol 103 [-4#1;5] 0].
Definition hd_set : list isol := [ISol 0 [1#4;3#4] 0; ISol 1 [3#4;1#2] 0].
Definition after_second_constructor {A} (f : ind_state -> store -> res (A * store)) : res A :=
  do c1 <- ind_make 2 [] hd_ref; do c2 <- ind_make 2 (snd c1) hd_ref2; do r <- f (fst c1) (snd c2); Ok (fst r).

Example prerepair_shared_reference_objects_refuted :
  terms_are (gd_indicator 2 hd_ref hd_set) [1#8; 1#8] 2 = true /\
  terms_are (after_second_constructor (fun c st => gd_calculate false 2 c st hd_set)) [5#16; 1#8] 2 = true /\
  terms_are (after_second_constructor (fun c st => gd_calculate true 2 c st hd_set)) [1#8; 1#8] 2 = true /\
  terms_are (igd_indicator 2 hd_ref hd_set) [1#8; 1#8; 5#16] 3 = true /\
  terms_are (after_second_constructor (fun c st => igd_calculate false 2 c st hd_set)) [5#16; 1#8; 5#16] 3 = true /\
  terms_are (after_second_constructor (fun c st => igd_calculate true 2 c st hd_set)) [1#8; 1#8; 5#16] 3 = true.
Proof. repeat split; vm_compute; reflexivity. Qed.

(* calculate's value does not depend on what the normalized_objectives attributes held before *)
Theorem calculate_store_independent nobjs dirs ref set c st0 st1 st2 :
  accepted nobjs ref set c st0 -> length dirs = nobjs ->
  (exists v s1 s2, eps_calculate true nobjs dirs c st1 set = Ok (v, s1) /\ eps_calculate true nobjs dirs c st2 set = Ok (v, s2)) /\
  (exists v s1 s2, gd_calculate true nobjs c st1 set = Ok (v, s1) /\ gd_calculate true nobjs c st2 set = Ok (v, s2)) /\
  (exists v s1 s2, igd_calculate true nobjs c st1 set = Ok (v, s1) /\ igd_calculate true nobjs c st2 set = Ok (v, s2)).
Proof.
  intros Hacc Hd. split; [|split].
  - destruct (eps_calc_unfold nobjs dirs ref set c st0 st1 Hacc Hd) as [s1 E1].
    destruct (eps_calc_unfold nobjs dirs ref set c st0 st2 Hacc Hd) as [s2 E2]. eauto.
  - destruct (gd_calc_unfold nobjs ref set c st0 st1 Hacc) as [s1 E1].
    destruct (gd_calc_unfold nobjs ref set c st0 st2 Hacc) as [s2 E2]. eauto.
  - destruct (igd_calc_unfold nobjs ref set c st0 st1 Hacc) as [s1 E1].
    destruct (igd_calc_unfold nobjs ref set c st0 st2 Hacc) as [s2 E2]. eauto.
Qed.
