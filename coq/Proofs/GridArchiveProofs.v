(* Proofs about Model/GridArchive.v (the repaired AdaptiveGridArchive): the invariant
   GInv (size bound, pairwise non-domination, members inside the grid, density table
   = recount of the members per cell) holds initially and is preserved by add for
   every insertion history; characterisation of the three outcomes of add.
   All statements are about exact rational arithmetic (rounding of the float division
   and multiplication in find_index is not modelled). *)
From Coq Require Import ZArith QArith Qround Bool List Lia Lqa Permutation.
Import ListNotations.
From PV Require Import Base.Num Base.Order Model.Dominance Proofs.DominanceProofs Model.GridArchive.
Open Scope Z_scope.

(* ------------------------------------------------------------------ *)
(* identity, list.remove, compress                                     *)
(* ------------------------------------------------------------------ *)
Lemma q_same_eq a b : q_same a b = true <-> a = b.
Proof.
  unfold q_same. destruct a as [n1 d1], b as [n2 d2]; simpl.
  rewrite andb_true_iff, Z.eqb_eq, Pos.eqb_eq. split.
  - intros [-> ->]. reflexivity.
  - intro H. inversion H. auto.
Qed.

Lemma x_same_eq a b : x_same a b = true <-> a = b.
Proof.
  destruct a, b; simpl; try (split; [discriminate|intro H; inversion H]); try tauto.
  rewrite q_same_eq. split; [intros ->; reflexivity|intro H; inversion H; reflexivity].
Qed.

Lemma ql_same_eq l1 : forall l2, ql_same l1 l2 = true <-> l1 = l2.
Proof.
  induction l1 as [|a r IH]; intros [|b r2]; simpl; try (split; [discriminate|intro H; inversion H]); try tauto.
  rewrite andb_true_iff, q_same_eq, IH. split; [intros [-> ->]; reflexivity|intro H; inversion H; auto].
Qed.

Lemma g_is_eq a b : g_is a b = true <-> a = b.
Proof.
  unfold g_is. destruct a as [i1 o1 c1], b as [i2 o2 c2]; simpl.
  rewrite !andb_true_iff, Nat.eqb_eq, ql_same_eq, x_same_eq. split.
  - intros [[-> ->] ->]. reflexivity.
  - intro H. inversion H. auto.
Qed.

Lemma list_remove_some x l r : list_remove x l = Some r ->
  exists l1 l2, l = l1 ++ x :: l2 /\ r = l1 ++ l2.
Proof.
  revert r. induction l as [|e t IH]; intros r H; simpl in H; [discriminate|].
  destruct (g_is e x) eqn:E.
  - apply g_is_eq in E. subst e. inversion H. subst. exists [], r. auto.
  - destruct (list_remove x t) as [r'|] eqn:R; [|discriminate]. inversion H. subst r.
    destruct (IH r' eq_refl) as (l1 & l2 & -> & ->). exists (e :: l1), l2. auto.
Qed.

Lemma list_remove_in x l : In x l -> exists r, list_remove x l = Some r.
Proof.
  induction l as [|e t IH]; intro H; [destruct H|]. simpl.
  destruct (g_is e x) eqn:E; [eauto|].
  destruct H as [H|H].
  - subst e. assert (g_is x x = true) by (apply g_is_eq; reflexivity). congruence.
  - destruct (IH H) as [r ->]. eauto.
Qed.

Lemma compress_map {A} (f : A -> bool) l : compress l (map f l) = filter f l.
Proof. induction l as [|x r IH]; simpl; [reflexivity|]. rewrite IH. reflexivity. Qed.

Lemma filter_all_true {A} (f : A -> bool) l : forallb id (map f l) = true -> filter f l = l.
Proof.
  induction l as [|x r IH]; simpl; [reflexivity|]. unfold id at 1. intro H.
  apply andb_true_iff in H. destruct H as [H1 H2]. rewrite H1, (IH H2). reflexivity.
Qed.

(* ------------------------------------------------------------------ *)
(* the density table as a Python list                                  *)
(* ------------------------------------------------------------------ *)
Lemma py_index_nat len c : (c < len)%nat -> py_index len (Z.of_nat c) = Some c.
Proof.
  intro H. unfold py_index.
  destruct (0 <=? Z.of_nat c) eqn:E1; [|apply Z.leb_gt in E1; lia].
  destruct (Z.of_nat c <? Z.of_nat len) eqn:E2; [|apply Z.ltb_ge in E2; lia].
  rewrite Nat2Z.id. reflexivity.
Qed.

Lemma dens_get_nat d c : (c < length d)%nat -> dens_get d (Z.of_nat c) = Some (nth c d 0%nat).
Proof. intro H. unfold dens_get. rewrite (py_index_nat _ _ H). apply nth_error_nth'. exact H. Qed.

Lemma dens_upd_nat d c f : (c < length d)%nat -> dens_upd d (Z.of_nat c) f = Some (upd_nth d c f).
Proof. intro H. unfold dens_upd. rewrite (py_index_nat _ _ H). reflexivity. Qed.

Lemma upd_nth_length d : forall k f, length (upd_nth d k f) = length d.
Proof. induction d as [|x r IH]; intros [|k] f; simpl; auto. Qed.

Lemma upd_nth_nth d : forall k f c, (k < length d)%nat ->
  nth c (upd_nth d k f) 0%nat = if Nat.eqb c k then f (nth c d 0%nat) else nth c d 0%nat.
Proof.
  induction d as [|x r IH]; intros [|k] f [|c] H; simpl in *; try lia; try reflexivity.
  apply IH. lia.
Qed.

(* ------------------------------------------------------------------ *)
(* find_index: defined, and either -1 (outside) or a cell number       *)
(* ------------------------------------------------------------------ *)
Definition lo_ok (x : xq) : Prop := x <> NInf.
Definition hi_ok (x : xq) : Prop := x <> PInf.

(* pointwise  minimum[i] <= v[i] <= maximum[i] *)
Fixpoint inb (o : list Q) (mn mx : list xq) : bool :=
  match o, mn, mx with
  | v :: o', lo :: mn', hi :: mx' => negb (xltb (Fin v) lo || xltb hi (Fin v)) && inb o' mn' mx'
  | _, _, _ => true
  end.

Lemma cell_value_range v lo hi : lo_ok lo -> hi_ok hi ->
  xltb (Fin v) lo = false -> xltb hi (Fin v) = false ->
  exists q, cell_value v lo hi = Some q /\ (0 <= q)%Q /\ (q <= 1)%Q.
Proof.
  unfold lo_ok, hi_ok. intros Hlo Hhi A B.
  destruct lo as [|l|]; [congruence| |simpl in A; discriminate].
  destruct hi as [|h|]; [simpl in B; discriminate| |congruence].
  simpl in A, B. apply Qltb_false in A. apply Qltb_false in B.
  unfold cell_value. simpl.
  destruct (Qltb l h) eqn:E.
  - apply Qltb_lt in E. eexists. split; [reflexivity|].
    assert (P : (0 < h - l)%Q) by lra. split.
    + apply Qle_shift_div_l; [exact P|]. lra.
    + apply Qle_shift_div_r; [exact P|]. lra.
  - exists 0%Q. split; [reflexivity|]. split; lra.
Qed.

Lemma py_int_range D q : 1 <= D -> (0 <= q)%Q -> (q <= 1)%Q ->
  0 <= py_int (inject_Z D * q) <= D.
Proof.
  intros HD H0 H1.
  assert (PD : (0 <= inject_Z D)%Q) by (change 0%Q with (inject_Z 0); rewrite <- Zle_Qle; lia).
  assert (P0 : (0 <= inject_Z D * q)%Q) by (apply Qmult_le_0_compat; assumption).
  assert (P1 : (inject_Z D * q <= inject_Z D)%Q).
  { rewrite (Qmult_comm (inject_Z D) q).
    setoid_replace (inject_Z D) with (1 * inject_Z D)%Q at 2 by ring.
    apply Qmult_le_compat_r; assumption. }
  unfold py_int. destruct (Qle_bool 0 (inject_Z D * q)) eqn:E.
  - split.
    + rewrite <- (Qfloor_Z 0). apply Qfloor_resp_le. exact P0.
    + rewrite <- (Qfloor_Z D) at 2. apply Qfloor_resp_le. exact P1.
  - exfalso. apply Qle_bool_iff in P0. congruence.
Qed.

Lemma fi_loop_spec D : 1 <= D -> forall n i o mn mx idx,
  length o = n -> length mn = n -> length mx = n ->
  Forall lo_ok mn -> Forall hi_ok mx -> 0 <= idx < D ^ Z.of_nat i ->
  exists z, fi_loop D n i o mn mx idx = Some z /\
            (if inb o mn mx then 0 <= z < D ^ Z.of_nat (i + n) else z = -1).
Proof.
  intros HD. induction n as [|n IH]; intros i o mn mx idx Ho Hmn Hmx Flo Fhi Hidx.
  - destruct o, mn, mx; try discriminate. cbn [fi_loop inb]. exists idx. split; [reflexivity|].
    rewrite Nat.add_0_r. exact Hidx.
  - destruct o as [|v o'], mn as [|lo mn'], mx as [|hi mx']; try discriminate.
    cbn [length] in Ho, Hmn, Hmx. inversion Flo as [|? ? Hlo Flo']; inversion Fhi as [|? ? Hhi Fhi']; subst.
    cbn [fi_loop inb].
    destruct (xltb (Fin v) lo) eqn:A; cbn [orb negb andb].
    + exists (-1). auto.
    + destruct (xltb hi (Fin v)) eqn:B; cbn [orb negb andb].
      * exists (-1); auto.
      * destruct (cell_value_range v lo hi Hlo Hhi A B) as (q & -> & Q0 & Q1).
        pose proof (py_int_range D q HD Q0 Q1) as R.
        set (t0 := py_int (inject_Z D * q)) in *.
        set (t := if t0 =? D then t0 - 1 else t0).
        assert (Ht : 0 <= t <= D - 1).
        { subst t. destruct (t0 =? D) eqn:E; [apply Z.eqb_eq in E|apply Z.eqb_neq in E]; lia. }
        assert (Hp : 0 < D ^ Z.of_nat i) by (apply Z.pow_pos_nonneg; lia).
        destruct (IH (S i) o' mn' mx' (idx + t * D ^ Z.of_nat i)) as (z & Hz & Hr); try lia; try assumption.
        { rewrite Nat2Z.inj_succ, Z.pow_succ_r by lia. nia. }
        exists z. split; [exact Hz|]. replace (i + S n)%nat with (S i + n)%nat by lia. exact Hr.
Qed.

(* ------------------------------------------------------------------ *)
(* well-formed grid; inside; recount                                   *)
(* ------------------------------------------------------------------ *)
Definition bounds_wf (cfg : gcfg) (mn mx : list xq) : Prop :=
  length mn = c_nobjs cfg /\ length mx = c_nobjs cfg /\ Forall lo_ok mn /\ Forall hi_ok mx.

Lemma find_index_spec cfg mn mx o : (1 <= c_div cfg)%nat -> bounds_wf cfg mn mx ->
  length o = c_nobjs cfg ->
  exists z, find_index cfg mn mx o = Some z /\
    (if inb o mn mx then exists c, z = Z.of_nat c /\ (c < ncells cfg)%nat else z = -1).
Proof.
  intros HD (L1 & L2 & F1 & F2) Lo. unfold find_index.
  destruct (fi_loop_spec (Z.of_nat (c_div cfg)) ltac:(lia) (c_nobjs cfg) 0%nat o mn mx 0 Lo L1 L2 F1 F2)
    as (z & Hz & Hr).
  { simpl. lia. }
  exists z. split; [exact Hz|]. destruct (inb o mn mx); [|exact Hr].
  exists (Z.to_nat z). split; [lia|]. unfold ncells.
  rewrite Nat.add_0_l, <- Nat2Z.inj_pow in Hr. lia.
Qed.

(* ------------------------------------------------------------------ *)
(* adapt_grid: the bounds loop                                         *)
(* ------------------------------------------------------------------ *)
Definition le2 (mn mn' : list xq) : Prop := Forall2 (fun lo lo' => xltb lo lo' = false) mn mn'.
Definition ge2 (mx mx' : list xq) : Prop := Forall2 (fun hi hi' => xltb hi' hi = false) mx mx'.

Lemma le2_refl l : le2 l l.
Proof. induction l; constructor; auto. apply (ol_irrefl _ _ _ xq_laws). Qed.
Lemma ge2_refl l : ge2 l l.
Proof. induction l; constructor; auto. apply (ol_irrefl _ _ _ xq_laws). Qed.

Lemma le2_trans a : forall b c, le2 a b -> le2 b c -> le2 a c.
Proof.
  induction a as [|x a IH]; intros b c H1 H2; inversion H1; subst; inversion H2; subst; constructor.
  - eapply (le_trans xq_laws); eauto.
  - eapply IH; eauto.
Qed.
Lemma ge2_trans a : forall b c, ge2 a b -> ge2 b c -> ge2 a c.
Proof.
  induction a as [|x a IH]; intros b c H1 H2; inversion H1; subst; inversion H2; subst; constructor.
  - eapply (le_trans xq_laws); eauto.
  - eapply IH; eauto.
Qed.

Lemma inb_wider o : forall mn mx mn' mx', le2 mn mn' -> ge2 mx mx' ->
  inb o mn mx = true -> inb o mn' mx' = true.
Proof.
  induction o as [|v o IH]; intros mn mx mn' mx' H1 H2 H; [reflexivity|].
  inversion H1 as [|lo lo' mn0 mn0' A1 A2]; subst; [reflexivity|].
  inversion H2 as [|hi hi' mx0 mx0' B1 B2]; subst; [reflexivity|].
  cbn [inb] in *. apply andb_true_iff in H. destruct H as [H H'].
  apply negb_true_iff, orb_false_iff in H. destruct H as [C1 C2].
  rewrite (IH _ _ _ _ A2 B2 H'), andb_true_r.
  apply negb_true_iff, orb_false_iff. split.
  - eapply (le_trans xq_laws); eauto.
  - eapply (le_trans xq_laws); eauto.
Qed.

Lemma bounds_upd_spec : forall n mn mx o, length mn = n -> length mx = n -> length o = n ->
  exists mn' mx', bounds_upd n mn mx o = Some (mn', mx') /\ length mn' = n /\ length mx' = n /\
    le2 mn mn' /\ ge2 mx mx' /\ inb o mn' mx' = true /\
    (Forall lo_ok mn -> Forall lo_ok mn') /\ (Forall hi_ok mx -> Forall hi_ok mx').
Proof.
  induction n as [|n IH]; intros mn mx o L1 L2 L3.
  - destruct mn, mx, o; try discriminate. exists [], []. cbn. repeat split; auto; constructor.
  - destruct mn as [|lo mn], mx as [|hi mx], o as [|v o]; try discriminate.
    cbn [length] in *. destruct (IH mn mx o) as (a & b & E & La & Lb & Wa & Wb & I & Fa & Fb); try lia.
    exists (xmin lo (Fin v) :: a), (xmax hi (Fin v) :: b). cbn [bounds_upd]. rewrite E.
    split; [reflexivity|]. cbn [length]. split; [lia|]. split; [lia|].
    pose proof (ol_irrefl _ _ _ xq_laws) as IR.
    split; [|split; [|split; [|split]]].
    + constructor; [|exact Wa]. unfold xmin. destruct (xltb (Fin v) lo) eqn:E1; [|apply IR].
      apply (ltb_asym xq_laws). exact E1.
    + constructor; [|exact Wb]. unfold xmax. destruct (xltb hi (Fin v)) eqn:E1; [|apply IR].
      apply (ltb_asym xq_laws). exact E1.
    + cbn [inb]. rewrite I, andb_true_r. apply negb_true_iff, orb_false_iff. split.
      * unfold xmin. destruct (xltb (Fin v) lo) eqn:E1; [apply IR|exact E1].
      * unfold xmax. destruct (xltb hi (Fin v)) eqn:E1; [apply IR|exact E1].
    + intro F. inversion F; subst. constructor; [|auto]. unfold xmin, lo_ok in *.
      destruct (xltb (Fin v) lo); [discriminate|assumption].
    + intro F. inversion F; subst. constructor; [|auto]. unfold xmax, hi_ok in *.
      destruct (xltb hi (Fin v)); [discriminate|assumption].
Qed.

Lemma bounds_loop_spec n : forall l mn mx, length mn = n -> length mx = n ->
  (forall s, In s l -> length (g_objs s) = n) ->
  exists mn' mx', bounds_loop n l mn mx = Some (mn', mx') /\ length mn' = n /\ length mx' = n /\
    le2 mn mn' /\ ge2 mx mx' /\ (forall s, In s l -> inb (g_objs s) mn' mx' = true) /\
    (Forall lo_ok mn -> Forall lo_ok mn') /\ (Forall hi_ok mx -> Forall hi_ok mx').
Proof.
  induction l as [|s r IH]; intros mn mx L1 L2 Hs.
  - exists mn, mx. cbn. repeat split; auto using le2_refl, ge2_refl; try (intros ? []).
  - destruct (bounds_upd_spec n mn mx (g_objs s) L1 L2 (Hs s (or_introl eq_refl)))
      as (m1 & x1 & E & La & Lb & Wa & Wb & I & Fa & Fb).
    destruct (IH m1 x1 La Lb (fun t Ht => Hs t (or_intror Ht)))
      as (m2 & x2 & E2 & La2 & Lb2 & Wa2 & Wb2 & I2 & Fa2 & Fb2).
    exists m2, x2. cbn [bounds_loop]. rewrite E. split; [exact E2|].
    split; [exact La2|]. split; [exact Lb2|].
    split; [eapply le2_trans; eauto|]. split; [eapply ge2_trans; eauto|].
    split; [|split; auto].
    intros t [<-|Ht]; [|auto]. eapply inb_wider; eauto.
Qed.

(* ------------------------------------------------------------------ *)
(* recount and the counting loop of adapt_grid                         *)
(* ------------------------------------------------------------------ *)
Lemma cell_count_cons cfg mn mx c s r :
  cell_count cfg mn mx c (s :: r) =
  ((if in_cell cfg mn mx c s then 1 else 0) + cell_count cfg mn mx c r)%nat.
Proof. unfold cell_count. cbn [filter]. destruct (in_cell cfg mn mx c s); reflexivity. Qed.

Lemma cell_count_app cfg mn mx c l1 l2 :
  cell_count cfg mn mx c (l1 ++ l2) = (cell_count cfg mn mx c l1 + cell_count cfg mn mx c l2)%nat.
Proof. unfold cell_count. rewrite filter_app, app_length. reflexivity. Qed.

Lemma in_cell_at cfg mn mx c c0 s : find_index cfg mn mx (g_objs s) = Some (Z.of_nat c0) ->
  in_cell cfg mn mx c s = Nat.eqb c c0.
Proof.
  intro H. unfold in_cell. rewrite H.
  destruct (Nat.eqb c c0) eqn:E; [apply Nat.eqb_eq in E; subst; apply Z.eqb_refl|].
  apply Nat.eqb_neq in E. apply Z.eqb_neq. lia.
Qed.

Lemma count_loop_spec cfg mn mx : (1 <= c_div cfg)%nat -> bounds_wf cfg mn mx ->
  forall l d,
  (forall s, In s l -> length (g_objs s) = c_nobjs cfg /\ inb (g_objs s) mn mx = true) ->
  length d = ncells cfg ->
  exists d', count_loop cfg mn mx l d = Some d' /\ length d' = ncells cfg /\
    forall c, (c < ncells cfg)%nat ->
      nth c d' 0%nat = (nth c d 0%nat + cell_count cfg mn mx c l)%nat.
Proof.
  intros HD W. induction l as [|s r IH]; intros d Hl Ld.
  - exists d. cbn [count_loop]. split; [reflexivity|]. split; [exact Ld|].
    intros c _. unfold cell_count. cbn. lia.
  - destruct (Hl s (or_introl eq_refl)) as [Ls Is].
    destruct (find_index_spec cfg mn mx (g_objs s) HD W Ls) as (z & Hz & Hr).
    rewrite Is in Hr. destruct Hr as (c0 & -> & Hc0).
    cbn [count_loop]. rewrite Hz. rewrite dens_upd_nat by lia.
    destruct (IH (upd_nth d c0 S) (fun t Ht => Hl t (or_intror Ht))) as (d' & E & Ld' & Hn).
    { rewrite upd_nth_length. exact Ld. }
    exists d'. split; [exact E|]. split; [exact Ld'|].
    intros c Hc. rewrite (Hn c Hc), upd_nth_nth by lia.
    rewrite cell_count_cons, (in_cell_at _ _ _ c c0 s Hz).
    destruct (Nat.eqb c c0); lia.
Qed.

(* ------------------------------------------------------------------ *)
(* the invariant                                                       *)
(* ------------------------------------------------------------------ *)
(* what the theorems assume of a configuration and of an offered solution *)
Definition cfg_ok (cfg : gcfg) : Prop :=
  (1 <= c_cap cfg)%nat /\ (1 <= c_div cfg)%nat /\ length (c_dirs cfg) = c_nobjs cfg.
Definition sol_ok (cfg : gcfg) (s : gsol) : Prop :=
  length (g_objs s) = c_nobjs cfg /\ xltb (g_cv s) xzero = false.

Definition gwf (cfg : gcfg) (a : garch) : Prop :=
  bounds_wf cfg (a_min a) (a_max a) /\ length (a_dens a) = ncells cfg.

(* the member lies inside [minimum, maximum]: find_index answers a cell number *)
Definition inside (cfg : gcfg) (a : garch) (s : gsol) : Prop :=
  exists c, gfi cfg a s = Some (Z.of_nat c) /\ (c < ncells cfg)%nat.

Definition nondom (cfg : gcfg) (l : list gsol) : Prop :=
  forall x y, In x l -> In y l -> g_cmp cfg x y = 0.

(* occupancy reported for every cell = number of members actually in that cell *)
Definition dens_ok (cfg : gcfg) (a : garch) : Prop :=
  forall c, (c < ncells cfg)%nat ->
    nth c (a_dens a) 0%nat = cell_count cfg (a_min a) (a_max a) c (a_cont a).

(* everything but the size bound (holds also while the candidate is temporarily appended) *)
Record GMid (cfg : gcfg) (a : garch) : Prop := {
  gm_wf : gwf cfg a;
  gm_sols : forall s, In s (a_cont a) -> sol_ok cfg s;
  gm_nondom : nondom cfg (a_cont a);
  gm_inside : forall s, In s (a_cont a) -> inside cfg a s;
  gm_dens : dens_ok cfg a
}.

Definition GInv (cfg : gcfg) (a : garch) : Prop :=
  (length (a_cont a) <= c_cap cfg)%nat /\ GMid cfg a.

Lemma repeat_Forall {A} (P : A -> Prop) x n : P x -> Forall P (repeat x n).
Proof. intro H. apply Forall_forall. intros y Hy. apply repeat_spec in Hy. subst. exact H. Qed.

Lemma inb_inside cfg a s : (1 <= c_div cfg)%nat -> gwf cfg a -> length (g_objs s) = c_nobjs cfg ->
  inb (g_objs s) (a_min a) (a_max a) = true -> inside cfg a s.
Proof.
  intros HD [W _] Ls I. destruct (find_index_spec cfg _ _ _ HD W Ls) as (z & Hz & Hr).
  rewrite I in Hr. destruct Hr as (c & -> & Hc). exists c. split; assumption.
Qed.

(* adapt_grid never fails on well-shaped members and re-establishes inside + density *)
Lemma adapt_grid_spec cfg a : (1 <= c_div cfg)%nat ->
  (forall s, In s (a_cont a) -> length (g_objs s) = c_nobjs cfg) ->
  exists a', ga_adapt_grid cfg a = Some a' /\ a_cont a' = a_cont a /\ gwf cfg a' /\
             (forall s, In s (a_cont a) -> inside cfg a' s) /\ dens_ok cfg a'.
Proof.
  intros HD Hs. unfold ga_adapt_grid.
  destruct (bounds_loop_spec (c_nobjs cfg) (a_cont a) (repeat PInf (c_nobjs cfg)) (repeat NInf (c_nobjs cfg))
              (repeat_length _ _) (repeat_length _ _) Hs)
    as (mn & mx & E & L1 & L2 & _ & _ & I & F1 & F2).
  rewrite E.
  assert (W : bounds_wf cfg mn mx).
  { split; [exact L1|]. split; [exact L2|]. split.
    - apply F1. apply repeat_Forall. discriminate.
    - apply F2. apply repeat_Forall. discriminate. }
  destruct (count_loop_spec cfg mn mx HD W (a_cont a) (repeat 0%nat (c_div cfg ^ c_nobjs cfg)))
    as (d & Ed & Ld & Hn).
  { intros s Hin. split; auto. }
  { apply repeat_length. }
  rewrite Ed. eexists. split; [reflexivity|]. cbn [a_cont].
  split; [reflexivity|].
  assert (G : gwf cfg (GA (a_cont a) mn mx d)) by (split; assumption).
  split; [exact G|]. split.
  - intros s Hin. apply inb_inside; auto.
  - intros c Hc. cbn [a_dens a_min a_max a_cont]. rewrite (Hn c Hc).
    rewrite nth_repeat. reflexivity.
Qed.

(* ------------------------------------------------------------------ *)
(* remove                                                              *)
(* ------------------------------------------------------------------ *)
Definition cell_of (cfg : gcfg) (a : garch) (s : gsol) : nat :=
  match gfi cfg a s with Some z => Z.to_nat z | None => 0%nat end.

Lemma inside_cell_of cfg a s : inside cfg a s ->
  gfi cfg a s = Some (Z.of_nat (cell_of cfg a s)) /\ (cell_of cfg a s < ncells cfg)%nat.
Proof. intros (c & H & Hc). unfold cell_of. rewrite H, Nat2Z.id. auto. Qed.

Lemma inside_ext cfg a a' s : a_min a' = a_min a -> a_max a' = a_max a ->
  inside cfg a s -> inside cfg a' s.
Proof. intros E1 E2 (c & H & Hc). exists c. unfold gfi in *. rewrite E1, E2. auto. Qed.

Lemma in_app_drop {A} (x : A) l1 l2 s : In s (l1 ++ l2) -> In s (l1 ++ x :: l2).
Proof. intro H. apply in_app_or in H. apply in_or_app. destruct H; [left|right; right]; assumption. Qed.

Lemma remove_spec cfg a x : (1 <= c_div cfg)%nat -> GMid cfg a -> In x (a_cont a) ->
  exists a' l1 l2, ga_remove cfg a x = Some (a', true) /\
    a_cont a = l1 ++ x :: l2 /\ a_cont a' = l1 ++ l2 /\ GMid cfg a'.
Proof.
  intros HD [[W Ld] Hs Hn Hi Hd] Hin.
  destruct (list_remove_in x _ Hin) as [r Hr].
  destruct (list_remove_some _ _ _ Hr) as (l1 & l2 & Ec & ->).
  unfold ga_remove. rewrite Hr.
  change (gfi cfg (set_cont a (l1 ++ l2)) x) with (gfi cfg a x).
  change (a_dens (set_cont a (l1 ++ l2))) with (a_dens a).
  destruct (Hi x Hin) as (c & Hc & Hlt). rewrite Hc.
  rewrite dens_get_nat by lia.
  assert (Sub : forall s, In s (l1 ++ l2) -> In s (a_cont a)).
  { intros s H. rewrite Ec. apply in_app_drop. exact H. }
  destruct (1 <? nth c (a_dens a) 0)%nat eqn:E1.
  - rewrite dens_upd_nat by lia.
    eexists; exists l1, l2. split; [reflexivity|]. split; [exact Ec|]. split; [reflexivity|].
    constructor.
    + split; [exact W|]. cbn. rewrite upd_nth_length. exact Ld.
    + intros s H. apply Hs. apply Sub. exact H.
    + intros s t H1 H2. apply Hn; apply Sub; assumption.
    + intros s H. eapply inside_ext; [reflexivity|reflexivity|]. apply Hi. apply Sub. exact H.
    + intros c' Hc'. cbn [set_dens set_cont a_dens a_min a_max a_cont].
      rewrite upd_nth_nth by lia. rewrite (Hd c' Hc'), Ec.
      rewrite !cell_count_app, cell_count_cons. unfold gfi in Hc.
      rewrite (in_cell_at _ _ _ c' c x Hc).
      destruct (Nat.eqb c' c) eqn:E2; [|lia].
      apply Nat.eqb_eq in E2. subst c'. lia.
  - destruct (adapt_grid_spec cfg (set_cont a (l1 ++ l2)) HD) as (a2 & E2 & C2 & W2 & I2 & D2).
    { intros s H. apply (Hs s). apply Sub. exact H. }
    rewrite E2. exists a2, l1, l2. split; [reflexivity|]. split; [exact Ec|]. split; [exact C2|].
    constructor; auto.
    + rewrite C2. intros s H. apply Hs. apply Sub. exact H.
    + rewrite C2. intros s t H1 H2. apply Hn; apply Sub; assumption.
    + rewrite C2. exact I2.
Qed.

(* ------------------------------------------------------------------ *)
(* find_densest / pick_from_densest                                    *)
(* ------------------------------------------------------------------ *)
Definition dens_at (cfg : gcfg) (a : garch) (y : gsol) : nat := nth (cell_of cfg a y) (a_dens a) 0%nat.

Lemma member_lookup cfg a y : gwf cfg a -> inside cfg a y ->
  gfi cfg a y = Some (Z.of_nat (cell_of cfg a y)) /\
  dens_get (a_dens a) (Z.of_nat (cell_of cfg a y)) = Some (dens_at cfg a y).
Proof.
  intros [_ Ld] I. destruct (inside_cell_of _ _ _ I) as [E H]. split; [exact E|].
  unfold dens_at. apply dens_get_nat. lia.
Qed.

Lemma fd_loop_spec cfg a : gwf cfg a -> forall l, (forall y, In y l -> inside cfg a y) ->
  forall index value, exists index' value', fd_loop cfg a l index value = Some index' /\
    value <= value' /\ (forall y, In y l -> Z.of_nat (dens_at cfg a y) <= value') /\
    ((index' = index /\ value' = value) \/
     exists y, In y l /\ index' = Z.of_nat (cell_of cfg a y) /\ value' = Z.of_nat (dens_at cfg a y)).
Proof.
  intros W. induction l as [|s r IH]; intros Hin index value.
  - exists index, value. cbn. split; [reflexivity|]. split; [lia|]. split; [intros ? []|]. left; auto.
  - destruct (member_lookup cfg a s W (Hin s (or_introl eq_refl))) as [E1 E2].
    cbn [fd_loop]. rewrite E1, E2.
    assert (Hr : forall y, In y r -> inside cfg a y) by (intros y Hy; apply Hin; right; exact Hy).
    destruct (value <? Z.of_nat (dens_at cfg a s)) eqn:C.
    + apply Z.ltb_lt in C.
      destruct (IH Hr (Z.of_nat (cell_of cfg a s)) (Z.of_nat (dens_at cfg a s))) as (i' & v' & E & Hv & Hall & Hd).
      exists i', v'. split; [exact E|]. split; [lia|]. split.
      * intros y [<-|Hy]; [lia|auto].
      * right. destruct Hd as [[-> ->]|(y & Hy & -> & ->)].
        -- exists s. split; [left; reflexivity|auto].
        -- exists y. split; [right; exact Hy|auto].
    + apply Z.ltb_ge in C.
      destruct (IH Hr index value) as (i' & v' & E & Hv & Hall & Hd).
      exists i', v'. split; [exact E|]. split; [lia|]. split.
      * intros y [<-|Hy]; [lia|auto].
      * destruct Hd as [Hd|(y & Hy & -> & ->)]; [left; exact Hd|].
        right. exists y. split; [right; exact Hy|auto].
Qed.

Lemma pk_loop_spec cfg a : gwf cfg a -> forall l, (forall y, In y l -> inside cfg a y) ->
  forall sol value, exists sol' value', pk_loop cfg a l sol value = Some sol' /\
    value <= value' /\ (forall y, In y l -> Z.of_nat (dens_at cfg a y) <= value') /\
    ((sol' = sol /\ value' = value) \/
     exists y, In y l /\ sol' = Some y /\ value' = Z.of_nat (dens_at cfg a y)).
Proof.
  intros W. induction l as [|s r IH]; intros Hin sol value.
  - exists sol, value. cbn. split; [reflexivity|]. split; [lia|]. split; [intros ? []|]. left; auto.
  - destruct (member_lookup cfg a s W (Hin s (or_introl eq_refl))) as [E1 E2].
    cbn [pk_loop]. rewrite E1, E2.
    assert (Hr : forall y, In y r -> inside cfg a y) by (intros y Hy; apply Hin; right; exact Hy).
    destruct (value <? Z.of_nat (dens_at cfg a s)) eqn:C.
    + apply Z.ltb_lt in C.
      destruct (IH Hr (Some s) (Z.of_nat (dens_at cfg a s))) as (i' & v' & E & Hv & Hall & Hd).
      exists i', v'. split; [exact E|]. split; [lia|]. split.
      * intros y [<-|Hy]; [lia|auto].
      * right. destruct Hd as [[-> ->]|(y & Hy & -> & ->)].
        -- exists s. split; [left; reflexivity|auto].
        -- exists y. split; [right; exact Hy|auto].
    + apply Z.ltb_ge in C.
      destruct (IH Hr sol value) as (i' & v' & E & Hv & Hall & Hd).
      exists i', v'. split; [exact E|]. split; [lia|]. split.
      * intros y [<-|Hy]; [lia|auto].
      * destruct Hd as [Hd|(y & Hy & -> & ->)]; [left; exact Hd|].
        right. exists y. split; [right; exact Hy|auto].
Qed.

(* a member x lies in a cell of maximal occupancy of the current grid *)
Definition maximal (cfg : gcfg) (a : garch) (x : gsol) : Prop :=
  forall c, (c < ncells cfg)%nat ->
    (cell_count cfg (a_min a) (a_max a) c (a_cont a) <=
     cell_count cfg (a_min a) (a_max a) (cell_of cfg a x) (a_cont a))%nat.

Lemma cell_count_pos cfg mn mx c l : (0 < cell_count cfg mn mx c l)%nat ->
  exists y, In y l /\ in_cell cfg mn mx c y = true.
Proof.
  unfold cell_count. intro H. destruct (filter (in_cell cfg mn mx c) l) as [|y t] eqn:E; [cbn in H; lia|].
  exists y. apply filter_In. rewrite E. left. reflexivity.
Qed.

(* the densest among the members' cells is densest among all cells *)
Lemma members_max_is_max cfg a x : GMid cfg a -> In x (a_cont a) ->
  (forall y, In y (a_cont a) -> (dens_at cfg a y <= dens_at cfg a x)%nat) -> maximal cfg a x.
Proof.
  intros [[W Ld] Hs Hn Hi Hd] Hx Hmax c Hc.
  destruct (inside_cell_of _ _ _ (Hi x Hx)) as [Ex Hcx].
  destruct (Nat.eq_dec (cell_count cfg (a_min a) (a_max a) c (a_cont a)) 0) as [Z0|NZ]; [lia|].
  assert (P : (0 < cell_count cfg (a_min a) (a_max a) c (a_cont a))%nat) by lia.
  destruct (cell_count_pos cfg _ _ c (a_cont a) P) as (y & Hy & Iy).
  specialize (Hmax y Hy). unfold dens_at in Hmax.
  destruct (inside_cell_of _ _ _ (Hi y Hy)) as [Ey Hcy].
  rewrite (Hd _ Hcy), (Hd _ Hcx) in Hmax.
  unfold gfi in Ey. rewrite (in_cell_at _ _ _ c _ y Ey) in Iy. apply Nat.eqb_eq in Iy. subst c. exact Hmax.
Qed.

(* ------------------------------------------------------------------ *)
(* the overflow step (core.py:1203-1213)                               *)
(* ------------------------------------------------------------------ *)
Lemma evict_spec cfg a2 s : (1 <= c_div cfg)%nat -> GMid cfg a2 -> In s (a_cont a2) ->
  (length (a_cont a2) <= S (c_cap cfg))%nat ->
  exists a3 r, ga_evict cfg a2 s (Z.of_nat (cell_of cfg a2 s)) = Some (a3, r) /\ GInv cfg a3 /\
    (((length (a_cont a2) <= c_cap cfg)%nat /\ a3 = a2 /\ r = true) \/
     ((c_cap cfg < length (a_cont a2))%nat /\
      exists l1 x l2, a_cont a2 = l1 ++ x :: l2 /\ a_cont a3 = l1 ++ l2 /\
                      maximal cfg a2 x /\ (r = false -> x = s))).
Proof.
  intros HD M Hs Hlen. pose proof M as [W _ _ Hi _].
  unfold ga_evict. destruct (length (a_cont a2) <=? c_cap cfg)%nat eqn:E0.
  - apply Nat.leb_le in E0. exists a2, true. split; [reflexivity|]. split; [split; assumption|]. left. auto.
  - apply Nat.leb_gt in E0.
    destruct (member_lookup cfg a2 s W (Hi s Hs)) as [_ Es]. rewrite Es.
    unfold ga_find_densest.
    destruct (fd_loop_spec cfg a2 W (a_cont a2) Hi (-1) (-1)) as (fd & v & E & _ & Hall & Hd).
    rewrite E.
    destruct Hd as [[_ ->]|(y & Hy & -> & ->)]; [specialize (Hall s Hs); lia|].
    destruct (member_lookup cfg a2 y W (Hi y Hy)) as [_ Ey]. rewrite Ey.
    destruct (dens_at cfg a2 s =? dens_at cfg a2 y)%nat eqn:Eq.
    + apply Nat.eqb_eq in Eq.
      destruct (remove_spec cfg a2 s HD M Hs) as (a3 & l1 & l2 & Er & Ec & Ec3 & M3).
      rewrite Er. exists a3, false. split; [reflexivity|].
      assert (L3 : (length (a_cont a3) <= c_cap cfg)%nat).
      { rewrite Ec3. rewrite Ec in Hlen. rewrite app_length in *. cbn [length] in Hlen. lia. }
      split; [split; assumption|]. right. split; [exact E0|].
      exists l1, s, l2. split; [exact Ec|]. split; [exact Ec3|]. split; [|reflexivity].
      apply members_max_is_max; auto. intros y' Hy'. specialize (Hall y' Hy'). lia.
    + unfold ga_pick_from_densest.
      destruct (pk_loop_spec cfg a2 W (a_cont a2) Hi None (-1)) as (p & v & Ep & _ & Hallp & Hp).
      rewrite Ep.
      destruct Hp as [[_ ->]|(x & Hx & -> & ->)]; [specialize (Hallp s Hs); lia|].
      destruct (remove_spec cfg a2 x HD M Hx) as (a3 & l1 & l2 & Er & Ec & Ec3 & M3).
      rewrite Er. exists a3, true. split; [reflexivity|].
      assert (L3 : (length (a_cont a3) <= c_cap cfg)%nat).
      { rewrite Ec3. rewrite Ec in Hlen. rewrite app_length in *. cbn [length] in Hlen. lia. }
      split; [split; assumption|]. right. split; [exact E0|].
      exists l1, x, l2. split; [exact Ec|]. split; [exact Ec3|]. split; [|discriminate].
      apply members_max_is_max; auto. intros y' Hy'. specialize (Hallp y' Hy'). lia.
Qed.

(* ------------------------------------------------------------------ *)
(* dominance facts used by add (from C02's theorems, carrier xq)       *)
(* ------------------------------------------------------------------ *)
Lemma g_wf cfg s : cfg_ok cfg -> sol_ok cfg s -> wf xq xltb xzero (c_dirs cfg) (g_dsol s).
Proof.
  intros (_ & _ & Ld) [Ls Hc]. split.
  - cbn. rewrite map_length. congruence.
  - exact Hc.
Qed.

Lemma g_cmp_antisym cfg s t : cfg_ok cfg -> sol_ok cfg s -> sol_ok cfg t ->
  g_cmp cfg t s = - g_cmp cfg s t.
Proof.
  intros C Hs Ht. unfold g_cmp, x_pareto_compare.
  apply (compare_antisym xq xltb xneg xzero xq_laws); apply g_wf; assumption.
Qed.

Lemma g_cmp_irrefl cfg s : cfg_ok cfg -> sol_ok cfg s -> g_cmp cfg s s = 0.
Proof.
  intros C Hs. unfold g_cmp, x_pareto_compare.
  apply (compare_irrefl xq xltb xneg xzero xq_laws). apply g_wf; assumption.
Qed.

Lemma g_cmp_range cfg s t : g_cmp cfg s t = -1 \/ g_cmp cfg s t = 0 \/ g_cmp cfg s t = 1.
Proof. unfold g_cmp, x_pareto_compare. apply (compare_range xq xltb xneg xzero xq_laws). Qed.

Lemma kept_filter cfg a s : ga_kept cfg a s = filter (fun m => g_cmp cfg s m =? 0) (a_cont a).
Proof. unfold ga_kept, ga_flags. rewrite map_map. apply compress_map. Qed.

Lemma kept_in cfg a s m : In m (ga_kept cfg a s) -> In m (a_cont a) /\ g_cmp cfg s m = 0.
Proof. rewrite kept_filter, filter_In, Z.eqb_eq. tauto. Qed.

Lemma kept_nondom cfg a s : cfg_ok cfg -> GMid cfg a -> sol_ok cfg s ->
  nondom cfg (ga_kept cfg a s ++ [s]) /\ (forall t, In t (ga_kept cfg a s ++ [s]) -> sol_ok cfg t).
Proof.
  intros C M Hs. destruct M as [_ Hsol Hn _ _].
  assert (S2 : forall t, In t (ga_kept cfg a s ++ [s]) -> sol_ok cfg t).
  { intros t H. apply in_app_or in H. destruct H as [H|[<-|[]]]; [|exact Hs].
    apply Hsol. apply (kept_in _ _ _ _ H). }
  split; [|exact S2].
  intros x y Hx Hy. apply in_app_or in Hx. apply in_app_or in Hy.
  destruct Hx as [Hx|[<-|[]]], Hy as [Hy|[<-|[]]].
  - apply Hn; [apply (kept_in _ _ _ _ Hx)|apply (kept_in _ _ _ _ Hy)].
  - destruct (kept_in _ _ _ _ Hx) as [Hx1 Hx2].
    rewrite (g_cmp_antisym cfg s x C Hs (Hsol x Hx1)), Hx2. reflexivity.
  - apply (kept_in _ _ _ _ Hy).
  - apply g_cmp_irrefl; assumption.
Qed.

(* ------------------------------------------------------------------ *)
(* lines 1185-1201: dropping the dominated members and placing the     *)
(* candidate in the grid re-establishes everything but the size bound  *)
(* ------------------------------------------------------------------ *)
Lemma place_spec cfg a s : cfg_ok cfg -> GMid cfg a -> sol_ok cfg s ->
  exists a2 oi, ga_place true cfg a s = Some (a2, oi) /\ GMid cfg a2 /\
    a_cont a2 = ga_kept cfg a s ++ [s] /\
    match oi with
    | None => ga_kept cfg a s = []
    | Some i => i = Z.of_nat (cell_of cfg a2 s)
    end.
Proof.
  intros C M Hs. pose proof C as (_ & HD & _).
  destruct (kept_nondom cfg a s C M Hs) as [N2 S2].
  pose proof M as [[W Ld] Hsol Hn Hi Hd].
  unfold ga_place.
  change (compress (a_cont a) (map (fun x => x =? 0) (ga_flags cfg a s))) with (ga_kept cfg a s).
  unfold set_cont. cbn [a_cont a_min a_max a_dens].
  set (K := ga_kept cfg a s) in *.
  assert (Hin_s : In s (K ++ [s])) by (apply in_or_app; right; left; reflexivity).
  destruct (length K =? 0)%nat eqn:E0.
  - apply Nat.eqb_eq in E0. destruct K as [|k K']; [|discriminate]. clear E0.
    destruct (adapt_grid_spec cfg (GA ([] ++ [s]) (a_min a) (a_max a) (a_dens a)) HD) as (a1 & E1 & C1 & W1 & I1 & D1).
    { intros t Ht. apply (S2 t Ht). }
    rewrite E1. exists a1, None. split; [reflexivity|]. cbn [a_cont] in C1, I1.
    split; [|split; [exact C1|reflexivity]].
    constructor; auto; rewrite C1; auto.
  - set (a1 := GA (K ++ [s]) (a_min a) (a_max a) (a_dens a)).
    change (gfi cfg a1 s) with (gfi cfg a s). unfold gfi at 1.
    destruct (find_index_spec cfg (a_min a) (a_max a) (g_objs s) HD W (proj1 Hs)) as (z & Hz & Hr).
    rewrite Hz.
    destruct ((z <? 0) || (true && negb (forallb id (map (fun x => x =? 0) (ga_flags cfg a s))))) eqn:B.
    + destruct (adapt_grid_spec cfg a1 HD) as (a2 & E2 & C2 & W2 & I2 & D2).
      { intros t Ht. apply (S2 t Ht). }
      rewrite E2. cbn [a1 a_cont] in C2, I2.
      destruct (inside_cell_of _ _ _ (I2 s Hin_s)) as [Es _]. rewrite Es.
      exists a2, (Some (Z.of_nat (cell_of cfg a2 s))). split; [reflexivity|].
      split; [|split; [exact C2|reflexivity]].
      constructor; auto; rewrite C2; auto.
    + apply orb_false_iff in B. destruct B as [B1 B2]. apply Z.ltb_ge in B1.
      cbn [andb] in B2. apply negb_false_iff in B2.
      assert (EK : K = a_cont a).
      { unfold K. rewrite kept_filter. apply filter_all_true.
        unfold ga_flags in B2. rewrite map_map in B2. exact B2. }
      destruct (inb (g_objs s) (a_min a) (a_max a)); [|lia].
      destruct Hr as (c & -> & Hc).
      cbn [a1 a_dens]. rewrite dens_upd_nat by lia.
      eexists; eexists. split; [reflexivity|].
      set (a2 := set_dens a1 (upd_nth (a_dens a) c S)).
      assert (G2 : gfi cfg a2 s = Some (Z.of_nat c)) by exact Hz.
      split; [|split; [reflexivity|]].
      * constructor.
        -- split; [exact W|]. cbn. rewrite upd_nth_length. exact Ld.
        -- exact S2.
        -- exact N2.
        -- intros t Ht. cbn [a2 set_dens a1 a_cont] in Ht. apply in_app_or in Ht.
           destruct Ht as [Ht|[<-|[]]].
           ++ apply (inside_ext cfg a a2); [reflexivity|reflexivity|]. apply Hi. rewrite <- EK. exact Ht.
           ++ exists c. split; [exact G2|exact Hc].
        -- intros c' Hc'. cbn [a2 set_dens a1 a_dens a_min a_max a_cont].
           rewrite upd_nth_nth by lia. rewrite (Hd c' Hc'), EK, cell_count_app, cell_count_cons.
           rewrite (in_cell_at _ _ _ c' c s Hz). change (cell_count cfg (a_min a) (a_max a) c' []) with 0%nat.
           destruct (Nat.eqb c' c); lia.
      * unfold cell_of. rewrite G2, Nat2Z.id. reflexivity.
Qed.

(* ------------------------------------------------------------------ *)
(* add                                                                 *)
(* ------------------------------------------------------------------ *)
Lemma filter_len_le {A} (f : A -> bool) l : (length (filter f l) <= length l)%nat.
Proof. induction l as [|x r IH]; cbn; [lia|]. destruct (f x); cbn; lia. Qed.

Lemma dominated_iff cfg a s :
  existsb id (map (fun x => 0 <? x) (ga_flags cfg a s)) = true <->
  exists m, In m (a_cont a) /\ 0 < g_cmp cfg s m.
Proof.
  unfold ga_flags. rewrite map_map, existsb_exists. split.
  - intros (b & Hb & Hid). apply in_map_iff in Hb. destruct Hb as (m & <- & Hm).
    exists m. split; [exact Hm|]. unfold id in Hid. apply Z.ltb_lt. exact Hid.
  - intros (m & Hm & Hlt). exists true. split; [|reflexivity].
    apply in_map_iff. exists m. split; [|exact Hm]. apply Z.ltb_lt. exact Hlt.
Qed.

Lemma not_dominated_existsb cfg a s : (forall m, In m (a_cont a) -> g_cmp cfg s m <= 0) ->
  existsb id (map (fun x => 0 <? x) (ga_flags cfg a s)) = false.
Proof.
  intro H. destruct (existsb id _) eqn:E; [|reflexivity].
  apply dominated_iff in E. destruct E as (m & Hm & Hlt). specialize (H m Hm). lia.
Qed.

(* a newcomer dominated by a member is rejected and nothing changes *)
Lemma add_dominated cfg a s : (exists m, In m (a_cont a) /\ 0 < g_cmp cfg s m) ->
  ga_add cfg a s = Some (a, false).
Proof. intro H. apply dominated_iff in H. unfold ga_add, ga_add_gen. rewrite H. reflexivity. Qed.

Lemma add_cases cfg a s : cfg_ok cfg -> GInv cfg a -> sol_ok cfg s ->
  (forall m, In m (a_cont a) -> g_cmp cfg s m <= 0) ->
  exists a2 oi a' r, ga_place true cfg a s = Some (a2, oi) /\ GMid cfg a2 /\
    a_cont a2 = ga_kept cfg a s ++ [s] /\
    ga_add cfg a s = Some (a', r) /\ GInv cfg a' /\
    (((length (ga_kept cfg a s) < c_cap cfg)%nat /\ a' = a2 /\ r = true) \/
     ((c_cap cfg <= length (ga_kept cfg a s))%nat /\
      exists l1 x l2, a_cont a2 = l1 ++ x :: l2 /\ a_cont a' = l1 ++ l2 /\
                      maximal cfg a2 x /\ (r = false -> x = s))).
Proof.
  intros C [Hlen M] Hs Hnd. pose proof C as (Hcap & HD & _).
  destruct (place_spec cfg a s C M Hs) as (a2 & oi & Ep & M2 & C2 & Hoi).
  exists a2, oi. unfold ga_add, ga_add_gen. rewrite (not_dominated_existsb cfg a s Hnd), Ep.
  assert (LK : (length (ga_kept cfg a s) <= length (a_cont a))%nat).
  { rewrite kept_filter. apply filter_len_le. }
  destruct oi as [i|].
  - subst i.
    destruct (evict_spec cfg a2 s HD M2) as (a3 & r & Ee & G3 & Hcase).
    { rewrite C2. apply in_or_app. right. left. reflexivity. }
    { rewrite C2, app_length. cbn [length]. lia. }
    exists a3, r. split; [reflexivity|]. split; [exact M2|]. split; [exact C2|].
    split; [exact Ee|]. split; [exact G3|].
    destruct Hcase as [(H1 & -> & ->)|(H1 & H2)].
    + left. split; [|auto]. rewrite C2, app_length in H1. cbn [length] in H1. lia.
    + right. split; [|exact H2]. rewrite C2, app_length in H1. cbn [length] in H1. lia.
  - exists a2, true. split; [reflexivity|]. split; [exact M2|]. split; [exact C2|].
    split; [reflexivity|]. rewrite Hoi in *. split.
    + split; [|exact M2]. rewrite C2. cbn. exact Hcap.
    + left. cbn. split; [lia|auto].
Qed.

(* the invariant is preserved by every add (and add never raises) *)
Theorem ginv_add_pres cfg a s : cfg_ok cfg -> GInv cfg a -> sol_ok cfg s ->
  exists a' r, ga_add cfg a s = Some (a', r) /\ GInv cfg a'.
Proof.
  intros C G Hs.
  destruct (existsb id (map (fun x => 0 <? x) (ga_flags cfg a s))) eqn:E.
  - exists a, false. split; [|exact G]. unfold ga_add, ga_add_gen. rewrite E. reflexivity.
  - assert (Hnd : forall m, In m (a_cont a) -> g_cmp cfg s m <= 0).
    { intros m Hm. destruct (Z_le_gt_dec (g_cmp cfg s m) 0) as [H|H]; [exact H|].
      assert (X : existsb id (map (fun x => 0 <? x) (ga_flags cfg a s)) = true).
      { apply dominated_iff. exists m. split; [exact Hm|lia]. }
      congruence. }
    destruct (add_cases cfg a s C G Hs Hnd) as (a2 & oi & a' & r & _ & _ & _ & Ea & G' & _).
    exists a', r. auto.
Qed.

Theorem ginv_init_holds cfg : cfg_ok cfg ->
  exists a, ga_init cfg = Some a /\ a_cont a = [] /\ GInv cfg a.
Proof.
  intros (Hcap & HD & _). unfold ga_init.
  destruct (adapt_grid_spec cfg (GA [] [] [] []) HD) as (a & E & Cc & W & I & D).
  { intros s []. }
  cbn [a_cont] in Cc. exists a. split; [exact E|]. split; [exact Cc|]. split.
  - rewrite Cc. cbn. lia.
  - constructor.
    + exact W.
    + rewrite Cc. intros ? [].
    + rewrite Cc. intros ? ? [].
    + rewrite Cc. intros ? [].
    + exact D.
Qed.

Lemma ginv_fold cfg : cfg_ok cfg -> forall l a, GInv cfg a -> Forall (sol_ok cfg) l ->
  exists a', ga_fold true cfg a l = Some a' /\ GInv cfg a'.
Proof.
  intro C. induction l as [|s r IH]; intros a G F.
  - exists a. split; [reflexivity|exact G].
  - inversion F as [|? ? Hs Fr]; subst.
    destruct (ginv_add_pres cfg a s C G Hs) as (a1 & b & E & G1).
    destruct (IH a1 G1 Fr) as (a' & E' & G').
    exists a'. split; [|exact G']. cbn [ga_fold]. change (ga_add_gen true) with ga_add. rewrite E. exact E'.
Qed.

(* ... for every insertion history *)
Theorem ginv_history cfg l : cfg_ok cfg -> Forall (sol_ok cfg) l ->
  exists a, ga_run cfg l = Some a /\ GInv cfg a.
Proof.
  intros C F. destruct (ginv_init_holds cfg C) as (a0 & E0 & _ & G0).
  destruct (ginv_fold cfg C l a0 G0 F) as (a & E & G).
  exists a. split; [|exact G]. unfold ga_run, ga_run_gen. rewrite E0. exact E.
Qed.

(* a non-dominated newcomer that fits is added; exactly the members it dominates leave *)
Theorem add_fits cfg a s : cfg_ok cfg -> GInv cfg a -> sol_ok cfg s ->
  (forall m, In m (a_cont a) -> g_cmp cfg s m <= 0) ->
  (length (ga_kept cfg a s) < c_cap cfg)%nat ->
  exists a', ga_add cfg a s = Some (a', true) /\ GInv cfg a' /\
    a_cont a' = filter (fun m => negb (g_cmp cfg s m =? -1)) (a_cont a) ++ [s].
Proof.
  intros C G Hs Hnd Hfit.
  destruct (add_cases cfg a s C G Hs Hnd) as (a2 & oi & a' & r & _ & _ & C2 & Ea & G' & Hcase).
  destruct Hcase as [(_ & -> & ->)|(H & _)]; [|lia].
  exists a2. split; [exact Ea|]. split; [exact G'|]. rewrite C2, kept_filter. f_equal.
  apply filter_ext_in. intros m Hm. specialize (Hnd m Hm).
  destruct (g_cmp_range cfg s m) as [E|[E|E]]; rewrite E in *; try reflexivity. lia.
Qed.

(* on overflow exactly one solution of (surviving members ++ [newcomer]) is dropped, and it lies in a
   cell of maximal occupancy of the grid a2 in which the decision is taken (a2 = result of ga_place,
   whose density table is the true occupancy: GMid a2) *)
Theorem add_overflow cfg a s : cfg_ok cfg -> GInv cfg a -> sol_ok cfg s ->
  (forall m, In m (a_cont a) -> g_cmp cfg s m <= 0) ->
  (c_cap cfg <= length (ga_kept cfg a s))%nat ->
  exists a2 oi a' r l1 x l2,
    ga_place true cfg a s = Some (a2, oi) /\ GMid cfg a2 /\ a_cont a2 = ga_kept cfg a s ++ [s] /\
    ga_add cfg a s = Some (a', r) /\ GInv cfg a' /\
    ga_kept cfg a s ++ [s] = l1 ++ x :: l2 /\ a_cont a' = l1 ++ l2 /\
    maximal cfg a2 x /\ (r = false -> x = s).
Proof.
  intros C G Hs Hnd Hov.
  destruct (add_cases cfg a s C G Hs Hnd) as (a2 & oi & a' & r & Ep & M2 & C2 & Ea & G' & Hcase).
  destruct Hcase as [(H & _)|(_ & l1 & x & l2 & E1 & E2 & Hm & Hr)]; [lia|].
  exists a2, oi, a', r, l1, x, l2. rewrite <- C2. auto 10.
Qed.

(* the public remove keeps the invariant too *)
Theorem remove_pres cfg a x : cfg_ok cfg -> GInv cfg a ->
  exists a' r, ga_remove cfg a x = Some (a', r) /\ GInv cfg a'.
Proof.
  intros (_ & HD & _) [Hlen M].
  destruct (list_remove x (a_cont a)) as [c'|] eqn:E.
  - destruct (list_remove_some _ _ _ E) as (l1 & l2 & Ec & _).
    assert (Hin : In x (a_cont a)) by (rewrite Ec; apply in_or_app; right; left; reflexivity).
    destruct (remove_spec cfg a x HD M Hin) as (a' & k1 & k2 & Er & Ec1 & Ec2 & M').
    exists a', true. split; [exact Er|]. split; [|exact M'].
    rewrite Ec2. rewrite Ec1, app_length in Hlen. cbn [length] in Hlen. rewrite app_length. lia.
  - exists a, false. unfold ga_remove. rewrite E. split; [reflexivity|split; assumption].
Qed.

(* the clauses of the invariant, spelled out *)
Lemma ginv_clauses cfg a : GInv cfg a <->
  (length (a_cont a) <= c_cap cfg)%nat /\
  nondom cfg (a_cont a) /\
  (forall s, In s (a_cont a) -> inside cfg a s) /\
  dens_ok cfg a /\
  gwf cfg a /\ (forall s, In s (a_cont a) -> sol_ok cfg s).
Proof.
  split.
  - intros [H [A B C D E]]. auto 10.
  - intros (H & C & D & E & A & B). split; [exact H|]. constructor; assumption.
Qed.

(* boolean recount check = the density clause *)
Lemma dens_consistent_false cfg a : dens_consistent_b cfg a = false ->
  ~ (length (a_dens a) = ncells cfg /\ dens_ok cfg a).
Proof.
  intros H [L D]. unfold dens_consistent_b in H. rewrite L, Nat.eqb_refl in H. cbn [andb] in H.
  assert (X : forallb (fun c => Nat.eqb (nth c (a_dens a) 0%nat)
                (cell_count cfg (a_min a) (a_max a) c (a_cont a))) (seq 0 (ncells cfg)) = true).
  { apply forallb_forall. intros c Hc. apply in_seq in Hc. apply Nat.eqb_eq. apply D. lia. }
  congruence.
Qed.

Lemma dens_consistent_true cfg a : dens_consistent_b cfg a = true ->
  length (a_dens a) = ncells cfg /\ dens_ok cfg a.
Proof.
  unfold dens_consistent_b. intro H. apply andb_true_iff in H. destruct H as [H1 H2].
  apply Nat.eqb_eq in H1. split; [exact H1|]. intros c Hc.
  rewrite forallb_forall in H2. apply Nat.eqb_eq. apply H2. apply in_seq. lia.
Qed.

(* ------------------------------------------------------------------ *)
(* the pre-repair add (no `or not all(nondominated)`) breaks the       *)
(* density clause: DESIGN.md section 7 row 2                           *)
(* ------------------------------------------------------------------ *)
Definition ex_cfg : gcfg := GC 4 2 2 false [false; false].
Definition ex_pt (i : nat) (x y : Z) : gsol := GS i [inject_Z x; inject_Z y] xzero.
Definition ex_hist : list gsol :=
  [ex_pt 0 0 6; ex_pt 1 3 4; ex_pt 2 2 0; ex_pt 3 3 4; ex_pt 4 4 5; ex_pt 5 1 0].

Lemma ex_cfg_ok : cfg_ok ex_cfg.
Proof. unfold cfg_ok, ex_cfg. cbn. lia. Qed.
Lemma ex_hist_ok : Forall (sol_ok ex_cfg) ex_hist.
Proof. repeat constructor. Qed.

Example ginv_old_refuted :
  exists cfg l a, cfg_ok cfg /\ Forall (sol_ok cfg) l /\
    ga_run_gen false cfg l = Some a /\ a_dens a = [0; 2; 1; 0]%nat /\
    map (fun c => cell_count cfg (a_min a) (a_max a) c (a_cont a)) (seq 0 (ncells cfg)) = [0; 1; 1; 0]%nat /\
    ~ GInv cfg a.
Proof.
  exists ex_cfg, ex_hist.
  destruct (ga_run_gen false ex_cfg ex_hist) as [a|] eqn:E; [|vm_compute in E; discriminate].
  exists a. split; [exact ex_cfg_ok|]. split; [exact ex_hist_ok|]. split; [reflexivity|].
  assert (Ea : Some a = ga_run_gen false ex_cfg ex_hist) by (symmetry; exact E).
  vm_compute in Ea. inversion Ea; subst a. clear.
  split; [reflexivity|]. split; [vm_compute; reflexivity|].
  intros [_ [[_ L] _ _ _ D]]. eapply dens_consistent_false; [|split; [exact L|exact D]].
  vm_compute. reflexivity.
Qed.

(* non-vacuity: the same history through the repaired add satisfies the invariant, ends with the
   recounted table, and exercises rejection, eviction of dominated members and overflow *)
Example ginv_history_example :
  exists a, ga_run ex_cfg ex_hist = Some a /\ GInv ex_cfg a /\
    map g_sid (a_cont a) = [0; 5]%nat /\ a_dens a = [0; 1; 1; 0]%nat.
Proof.
  destruct (ginv_history ex_cfg ex_hist ex_cfg_ok ex_hist_ok) as (a & E & G).
  exists a. split; [exact E|]. split; [exact G|].
  assert (Ea : Some a = ga_run ex_cfg ex_hist) by (symmetry; exact E).
  vm_compute in Ea. inversion Ea; subst a. split; reflexivity.
Qed.

(* a state at capacity: capacity 2, three mutually non-dominated points *)
Definition ex_cfg2 : gcfg := GC 2 2 2 false [false; false].
Lemma ex_cfg2_ok : cfg_ok ex_cfg2.
Proof. unfold cfg_ok, ex_cfg2. cbn. lia. Qed.
Definition ex_hist2 : list gsol := [ex_pt 0 0 4; ex_pt 1 4 0].

Lemma ex_state2 : exists a, ga_run ex_cfg2 ex_hist2 = Some a /\ GInv ex_cfg2 a /\
  a_cont a = ex_hist2.
Proof.
  destruct (ginv_history ex_cfg2 ex_hist2 ex_cfg2_ok) as (a & E & G); [repeat constructor|].
  exists a. split; [exact E|]. split; [exact G|].
  assert (Ea : Some a = ga_run ex_cfg2 ex_hist2) by (symmetry; exact E).
  vm_compute in Ea. inversion Ea; subst a. reflexivity.
Qed.

(* hypotheses of add_dominated / add_fits / add_overflow are satisfiable *)
Example add_dominated_example : exists a s, GInv ex_cfg2 a /\ sol_ok ex_cfg2 s /\
  (exists m, In m (a_cont a) /\ 0 < g_cmp ex_cfg2 s m).
Proof.
  destruct ex_state2 as (a & _ & G & Ec). exists a, (ex_pt 2 5 1).
  split; [exact G|]. split; [repeat constructor|].
  exists (ex_pt 1 4 0). rewrite Ec. split; [right; left; reflexivity|]. vm_compute. reflexivity.
Qed.

Example add_fits_example : exists a s, GInv ex_cfg2 a /\ sol_ok ex_cfg2 s /\
  (forall m, In m (a_cont a) -> g_cmp ex_cfg2 s m <= 0) /\
  (length (ga_kept ex_cfg2 a s) < c_cap ex_cfg2)%nat /\
  (exists m, In m (a_cont a) /\ g_cmp ex_cfg2 s m = -1).
Proof.
  destruct ex_state2 as (a & _ & G & Ec). exists a, (ex_pt 2 3 0).
  split; [exact G|]. split; [repeat constructor|].
  split; [|split].
  - rewrite Ec. intros m [<-|[<-|[]]]; vm_compute; discriminate.
  - unfold ga_kept, ga_flags. rewrite Ec. vm_compute. lia.
  - exists (ex_pt 1 4 0). rewrite Ec. split; [right; left; reflexivity|]. vm_compute. reflexivity.
Qed.

Example add_overflow_example : exists a s, GInv ex_cfg2 a /\ sol_ok ex_cfg2 s /\
  (forall m, In m (a_cont a) -> g_cmp ex_cfg2 s m <= 0) /\
  (c_cap ex_cfg2 <= length (ga_kept ex_cfg2 a s))%nat.
Proof.
  destruct ex_state2 as (a & _ & G & Ec). exists a, (ex_pt 2 1 1).
  split; [exact G|]. split; [repeat constructor|]. split.
  - rewrite Ec. intros m [<-|[<-|[]]]; vm_compute; discriminate.
  - unfold ga_kept, ga_flags. rewrite Ec. vm_compute. lia.
Qed.

(* ------------------------------------------------------------------ *)
(* size-cutting steps of the algorithms                                *)
(* ------------------------------------------------------------------ *)
(* offspring[:n] *)
Lemma slice_length {A} n (l : list A) : length (py_slice_to n l) = Nat.min n (length l).
Proof. apply firstn_length. Qed.

(* filters.truncate / truncate_fitness / nondominated_truncate: some reordering, then [:size] *)
Lemma truncate_length {A} n (l l' : list A) : Permutation l l' ->
  length (py_slice_to n l') = Nat.min n (length l).
Proof. intro P. rewrite slice_length, (Permutation_length P). reflexivity. Qed.

(* enough candidates => exactly the configured size (ES, NSGA-II, SPEA2, ... :
   offspring ++ population has at least population_size elements) *)
Lemma cut_exact {A} n (l l' : list A) : Permutation l l' -> (n <= length l)%nat ->
  length (py_slice_to n l') = n.
Proof. intros P H. rewrite (truncate_length n l l' P). lia. Qed.

Lemma cut_le {A} n (l l' : list A) : Permutation l l' -> (length (py_slice_to n l') <= n)%nat.
Proof. intros P. rewrite (truncate_length n l l' P). lia. Qed.

(* GA (algorithms.py:195-207): sorted(offspring + [fittest])[:population_size] with
   len(offspring) >= offspring_size *)
Lemma ga_population_size {A} pop off (offspring sorted : list A) (fittest : A) :
  (off <= length offspring)%nat -> Permutation (offspring ++ [fittest]) sorted ->
  (length (py_slice_to pop sorted) <= pop)%nat /\
  ((pop <= off + 1)%nat -> length (py_slice_to pop sorted) = pop).
Proof.
  intros H P. rewrite (truncate_length pop _ _ P), app_length. cbn [length]. split; lia.
Qed.

Example ga_population_size_example :
  length (py_slice_to 3 [5; 1; 2; 9]%nat) = 3%nat /\ length (py_slice_to 3 [5; 1]%nat) = 2%nat.
Proof. split; reflexivity. Qed.

(* the boolean size check used on the logged traces means what the property says *)
Definition size_prop (kind size aux : Z) (o : Z * Z) : Prop :=
  (kind = 0 -> fst o = size) /\
  (kind = 1 -> fst o <= size /\ (size <= aux -> fst o = size)) /\
  (kind = 2 -> fst o = size /\ snd o <= aux) /\
  (kind = 3 -> snd o <= aux) /\
  (0 <= kind <= 3).

Lemma size_ok_sound kind size aux o : size_ok kind size aux o = true -> size_prop kind size aux o.
Proof.
  unfold size_ok, size_prop. destruct o as [p q]. cbn [fst snd].
  destruct (kind =? 0) eqn:K0; [apply Z.eqb_eq in K0; rewrite Z.eqb_eq; intros; lia|].
  destruct (kind =? 1) eqn:K1.
  { apply Z.eqb_eq in K1. rewrite andb_true_iff, Z.leb_le. intros [A B].
    destruct (size <=? aux) eqn:E; [apply Z.leb_le in E; apply Z.eqb_eq in B|apply Z.leb_gt in E]; lia. }
  destruct (kind =? 2) eqn:K2.
  { apply Z.eqb_eq in K2. rewrite andb_true_iff, Z.eqb_eq, Z.leb_le. intros; lia. }
  destruct (kind =? 3) eqn:K3; [|discriminate].
  apply Z.eqb_eq in K3. rewrite Z.leb_le. intros; lia.
Qed.

Lemma size_trace_sound kind size aux l :
  forallb (size_ok kind size aux) l = true -> Forall (size_prop kind size aux) l.
Proof.
  intro H. apply Forall_forall. intros o Ho. apply size_ok_sound.
  rewrite forallb_forall in H. apply H. exact Ho.
Qed.

Example size_ok_example :
  size_ok 1 5 3 (4, 0) = true /\ size_ok 1 5 5 (4, 0) = false /\ size_ok 0 7 7 (7, 0) = true /\
  size_ok 2 6 3 (6, 3) = true /\ size_ok 2 6 3 (6, 4) = false /\ size_ok 3 0 4 (9, 4) = true.
Proof. repeat split; reflexivity. Qed.

(* bulk entry points (append / extend / +=) are folds of add *)
Lemma ginv_bulk cfg l a : cfg_ok cfg -> GInv cfg a -> Forall (sol_ok cfg) l ->
  exists a', ga_fold true cfg a l = Some a' /\ GInv cfg a'.
Proof. intros C G F. exact (ginv_fold cfg C l a G F). Qed.
