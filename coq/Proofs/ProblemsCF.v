(* Proofs/ProblemsCF.v — C18, part 9: the two-objective constrained CEC-2009 problems CF2, CF4-CF7 (CF1, CF3 are in ProblemsUF.v):
   generated objectives and constraint values = published formulas, exactly 2 objectives and nconstrs constraints. *)
From Coq Require Import Reals List ZArith Lia Lra Bool.
Import ListNotations.
From PV Require Import Base.RList Gen.Problems Model.ProblemsRef Proofs.ProblemsProofs Proofs.ProblemsUF.
Open Scope R_scope.
Set Default Timeout 60.

(* two accumulators (CF4-7): odd j feeds sum1, even j feeds sum2 *)
Definition step2 (Y1 Y2 : Z -> R) (st : R * R) (j : Z) : R * R :=
  let '(s1, s2) := st in if (j mod 2 =? 1)%Z then (s1 + Y1 j, s2) else (s1, s2 + Y2 j).
Lemma fold_step2 : forall Y1 Y2 m,
  fold_left (step2 Y1 Y2) (zrange 2 (2 + Z.of_nat m)) (0, 0) = (psum true Y1 m, psum false Y2 m).
Proof.
  intros Y1 Y2 m. rewrite (zrange_from 2 (2 + Z.of_nat m) m) by lia.
  induction m as [|m IH]; [reflexivity|].
  rewrite seq_S, map_app, fold_left_app, IH. cbn [map fold_left Nat.add]. unfold step2.
  rewrite parity_shift. unfold psum. cbn [big_sum].
  destruct (Nat.odd m); cbn [Bool.eqb]; f_equal; ring.
Qed.
Lemma if_plus : forall (b : bool) (s a a' : R), (if b then s + a else s + a') = s + (if b then a else a').
Proof. intros [|]; reflexivity. Qed.
Ltac canon_loop2 :=
  match goal with
  | |- context [fold_left ?F ?L ?I] =>
      let Y1 := fresh "Y1" in let Y2 := fresh "Y2" in
      evar (Y1 : Z -> R); evar (Y2 : Z -> R);
      let E := fresh "E" in
      assert (E : forall st j, F st j = step2 Y1 Y2 st j)
        by (intros [s1 s2] j; unfold step2, Y1, Y2; cbv beta iota zeta;
            destruct (j mod 2 =? 1)%Z; [reflexivity | first [reflexivity | (rewrite if_plus; reflexivity)]]);
      rewrite (fold_left_ext_fun _ _ L I E); clear E
  end.

(* sign(t) |t| = t  and  sign(u) sqrt|u| *)
Lemma sgn_abs : forall t, IZR (if Rleb 0 t then 1%Z else (-1)%Z) * Rabs t = t.
Proof.
  intros t. unfold Rleb. destruct (Rle_dec 0 t).
  - rewrite Rabs_right by lra. simpl. ring.
  - rewrite Rabs_left by lra. simpl. ring.
Qed.
Lemma sgn_sqrt : forall u, IZR (if Rleb 0 u then 1%Z else (-1)%Z) * sqrt (Rabs u) = cf_sgn u * sqrt (Rabs u).
Proof.
  intros u. unfold Rleb, cf_sgn. destruct (Rle_dec 0 u); destruct (Rlt_dec 0 u); try destruct (Rlt_dec u 0); simpl; try lra.
  assert (u = 0) by lra. subst. rewrite Rabs_R0, sqrt_0. ring.
Qed.
Lemma h2_eq : forall t thr, thr = 3 / 2 * (1 - sqrt 2 / 2) ->
  (if Rltb t thr then Rabs t else 1 / 8 + (t - 1) ^ 2) = cf_h2 t.
Proof. intros t thr ->. unfold Rltb, cf_h2. destruct (Rlt_dec t (3 / 2 * (1 - sqrt 2 / 2))); reflexivity. Qed.

Section CF.
  Variable n : nat.
  Variable x : list R.
  Hypothesis Hn : (4 <= n)%nat.
  Hypothesis Hl : length x = n.

  Ltac body t :=
    repeat rewrite (py_nth_eq x (2 + Z.of_nat t - 1)%Z (t + 1)) by lia;
    repeat rewrite (py_nth_eq x 0%Z 0) by reflexivity;
    replace (2 + Z.of_nat t)%Z with (Z.of_nat (t + 2)) by lia;
    rewrite <- ?INR_IZR_INZ; rewrite ?Hl;
    replace (t + 2 - 1)%nat with (t + 1)%nat by lia.
  Ltac loop2 :=
    cbv zeta; canon_loop2;
    replace (Z.of_nat n + 1)%Z with (2 + Z.of_nat (n - 1))%Z by lia; rewrite fold_step2; cbv beta iota.
  Ltac two_objs := apply cons_eq; [|apply cons_eq; [|reflexivity]].
  Ltac heads :=
    cbv zeta; rewrite ?Hl; repeat rewrite (py_nth_eq x 0%Z 0) by reflexivity; repeat rewrite (py_nth_eq x 1%Z 1) by reflexivity;
    repeat rewrite (py_nth_eq x 3%Z 3) by reflexivity; rewrite <- ?INR_IZR_INZ; unfold X.
  Lemma j_is_2 : forall t, (2 + Z.of_nat t =? 2)%Z = Nat.eqb (t + 2) 2.
  Proof. intros t. destruct (Z.eqb_spec (2 + Z.of_nat t) 2); destruct (Nat.eqb_spec (t + 2) 2); try reflexivity; lia. Qed.
  Lemma j_is_4 : forall t, (2 + Z.of_nat t =? 4)%Z = Nat.eqb (t + 2) 4.
  Proof. intros t. destruct (Z.eqb_spec (2 + Z.of_nat t) 4); destruct (Nat.eqb_spec (t + 2) 4); try reflexivity; lia. Qed.

  (* ---- CF4 *)
  Lemma cf4_gen_eq_ref : CF4_eval 2 (Z.of_nat n) x = cf4_objs x.
  Proof.
    unfold CF4_eval. loop2.
    rewrite (psum_sumJ true Y1 (fun j => uf_y1 x j ^ 2) n),
            (psum_sumJ false Y2 (fun j => if Nat.eqb j 2 then cf_h2 (uf_y1 x j) else uf_y1 x j ^ 2) n).
    2:{ intros t Ht Hodd. unfold Y2. cbv beta. rewrite j_is_2. rewrite (h2_eq _ (3 / 2 - 3 / 4 * sqrt 2)) by field.
        unfold uf_y1, X. body t. destruct (Nat.eqb (t + 2) 2); [f_equal|]; real_eq. }
    2:{ intros t Ht Hodd. unfold Y1. cbv beta. unfold uf_y1, X. body t. real_eq. }
    unfold cf4_objs. heads. two_objs; real_eq.
  Qed.

  Ltac drop_fold2 :=
    cbv zeta; match goal with |- context [fold_left ?F ?L ?I] => destruct (fold_left F L I) as [? ?] end.
  Lemma cf4_constr_gen_eq_ref : CF4_constr_eval 2 (Z.of_nat n) x = cf4_constr x.
  Proof.
    unfold CF4_constr_eval. drop_fold2. rewrite py_set_single. unfold cf4_constr, cf_squash. heads.
    apply cons_eq; [|reflexivity]. unfold Rdiv at 1. rewrite sgn_abs. same_arg' Rabs. real_eq.
  Qed.

  (* ---- CF5, CF6, CF7: y_j with a cos (odd j) / sin (even j) *)
  Lemma ycs_odd : forall a t, Nat.odd (t + 2) = true ->
    nth (t + 1) x 0 - a * cos (6 * PI * nth 0 x 0 + INR (t + 2) * PI / INR n) = cf_ycs a x (t + 2).
  Proof. intros a t H. unfold cf_ycs, X. cbv zeta. rewrite H, Hl. replace (t + 2 - 1)%nat with (t + 1)%nat by lia. reflexivity. Qed.
  Lemma ycs_even : forall a t, Nat.odd (t + 2) = false ->
    nth (t + 1) x 0 - a * sin (6 * PI * nth 0 x 0 + INR (t + 2) * PI / INR n) = cf_ycs a x (t + 2).
  Proof. intros a t H. unfold cf_ycs, X. cbv zeta. rewrite H, Hl. replace (t + 2 - 1)%nat with (t + 1)%nat by lia. reflexivity. Qed.

  Lemma cf6_gen_eq_ref : CF6_eval 2 (Z.of_nat n) x = cf6_objs x.
  Proof.
    unfold CF6_eval. loop2.
    rewrite (psum_sumJ true Y1 (fun j => cf_ycs (4 / 5 * X x 0) x j ^ 2) n), (psum_sumJ false Y2 (fun j => cf_ycs (4 / 5 * X x 0) x j ^ 2) n).
    2:{ intros t Ht Hodd. unfold Y2. cbv beta. rewrite <- (ycs_even _ t Hodd). unfold X. body t. real_eq. }
    2:{ intros t Ht Hodd. unfold Y1. cbv beta. rewrite <- (ycs_odd _ t Hodd). unfold X. body t. real_eq. }
    unfold cf6_objs. heads. two_objs; real_eq.
  Qed.
  Lemma cf5_gen_eq_ref : CF5_eval 2 (Z.of_nat n) x = cf5_objs x.
  Proof.
    unfold CF5_eval. loop2.
    rewrite (psum_sumJ true Y1 (fun j => uf5_h (cf_ycs (4 / 5 * X x 0) x j)) n),
            (psum_sumJ false Y2 (fun j => if Nat.eqb j 2 then cf_h2 (cf_ycs (4 / 5 * X x 0) x j) else uf5_h (cf_ycs (4 / 5 * X x 0) x j)) n).
    2:{ intros t Ht Hodd. unfold Y2. cbv beta. rewrite j_is_2. rewrite (h2_eq _ (3 / 2 - 3 / 4 * sqrt 2)) by field.
        rewrite <- (ycs_even _ t Hodd). unfold uf5_h, X. body t. destruct (Nat.eqb (t + 2) 2); [f_equal|]; real_eq. }
    2:{ intros t Ht Hodd. unfold Y1. cbv beta. rewrite <- (ycs_odd _ t Hodd). unfold uf5_h, X. body t. real_eq. }
    unfold cf5_objs. heads. two_objs; real_eq.
  Qed.
  Lemma cf7_gen_eq_ref : CF7_eval 2 (Z.of_nat n) x = cf7_objs x.
  Proof.
    unfold CF7_eval. loop2.
    rewrite (psum_sumJ true Y1 (fun j => uf5_h (cf_ycs 1 x j)) n),
            (psum_sumJ false Y2 (fun j => if orb (Nat.eqb j 2) (Nat.eqb j 4) then cf_ycs 1 x j ^ 2 else uf5_h (cf_ycs 1 x j)) n).
    2:{ intros t Ht Hodd. unfold Y2. cbv beta. rewrite j_is_2, j_is_4.
        rewrite <- (ycs_even _ t Hodd). unfold uf5_h, X. body t. destruct (orb (Nat.eqb (t + 2) 2) (Nat.eqb (t + 2) 4)); real_eq. }
    2:{ intros t Ht Hodd. unfold Y1. cbv beta. rewrite <- (ycs_odd _ t Hodd). unfold uf5_h, X. body t. real_eq. }
    unfold cf7_objs. heads. two_objs; real_eq.
  Qed.
  Lemma cf5_constr_gen_eq_ref : CF5_constr_eval 2 (Z.of_nat n) x = cf5_constr x.
  Proof.
    unfold CF5_constr_eval. drop_fold2. rewrite py_set_single. unfold cf5_constr. heads. apply cons_eq; [|reflexivity]. real_eq.
  Qed.
  Lemma cf6_constr_gen_eq_ref : CF6_constr_eval 2 (Z.of_nat n) x = cf67_constr (4 / 5 * X x 0) x.
  Proof.
    unfold CF6_constr_eval. drop_fold2. unfold cf67_constr. heads. rewrite !sgn_sqrt.
    apply cons_eq; [|apply cons_eq; [|reflexivity]].
    - replace ((nth 0 x 0 - 1 / 2) * (1 - nth 0 x 0)) with (1 / 2 * (1 - nth 0 x 0) - (1 - nth 0 x 0) ^ 2) by field. real_eq.
    - real_eq.
  Qed.
  Lemma cf7_constr_gen_eq_ref : CF7_constr_eval 2 (Z.of_nat n) x = cf67_constr 1 x.
  Proof.
    unfold CF7_constr_eval. drop_fold2. unfold cf67_constr. heads. rewrite !sgn_sqrt.
    apply cons_eq; [|apply cons_eq; [|reflexivity]].
    - replace ((nth 0 x 0 - 1 / 2) * (1 - nth 0 x 0)) with (1 / 2 * (1 - nth 0 x 0) - (1 - nth 0 x 0) ^ 2) by field. real_eq.
    - real_eq.
  Qed.

  (* ---- CF2 (four accumulators as UF1; sin for odd j, cos for even j) *)
  Lemma cf2_gen_eq_ref : CF2_eval 2 (Z.of_nat n) x = cf2_objs x.
  Proof.
    unfold CF2_eval. cbv zeta. canon_loop4.
    replace (Z.of_nat n + 1)%Z with (2 + Z.of_nat (n - 1))%Z by lia. rewrite fold_step4. cbv beta iota. rewrite !IZR_pcnt_cntJ.
    rewrite (psum_sumJ true Y1 (fun j => cf2_y x j ^ 2) n), (psum_sumJ false Y2 (fun j => cf2_y x j ^ 2) n).
    2:{ intros t Ht Hodd. unfold Y2, cf2_y, X. cbv beta zeta. rewrite Hodd. body t. real_eq. }
    2:{ intros t Ht Hodd. unfold Y1, cf2_y, X. cbv beta zeta. rewrite Hodd. body t. real_eq. }
    unfold cf2_objs. heads. pose proof (cntJ_pos_odd n ltac:(lia)). pose proof (cntJ_pos_even n ltac:(lia)). two_objs; real_eq.
  Qed.
  Lemma cf2_constr_gen_eq_ref : CF2_constr_eval 2 (Z.of_nat n) x = cf2_constr x.
  Proof.
    pose proof cf2_gen_eq_ref as E. unfold CF2_eval in E. unfold CF2_constr_eval. cbv zeta in *. revert E.
    match goal with |- context [fold_left ?F ?L ?I] => destruct (fold_left F L I) as [[[? ?] ?] ?] end. intros E.
    match type of E with [?a; ?b] = _ => set (f1 := a) in *; set (f2 := b) in * end.
    rewrite py_set_single. unfold cf2_constr, cf_squash. cbv zeta. rewrite <- E. cbn [nth].
    apply cons_eq; [|reflexivity]. unfold Rdiv at 1. rewrite sgn_abs. same_arg' Rabs. real_eq.
  Qed.

  (* ---- exactly 2 objectives and the declared number of constraints *)
  Lemma cf2_out_length : length (CF2_eval 2 (Z.of_nat n) x) = 2%nat /\ length (CF2_constr_eval 2 (Z.of_nat n) x) = 1%nat.
  Proof. now rewrite cf2_gen_eq_ref, cf2_constr_gen_eq_ref. Qed.
  Lemma cf4_out_length : length (CF4_eval 2 (Z.of_nat n) x) = 2%nat /\ length (CF4_constr_eval 2 (Z.of_nat n) x) = 1%nat.
  Proof. now rewrite cf4_gen_eq_ref, cf4_constr_gen_eq_ref. Qed.
  Lemma cf5_out_length : length (CF5_eval 2 (Z.of_nat n) x) = 2%nat /\ length (CF5_constr_eval 2 (Z.of_nat n) x) = 1%nat.
  Proof. now rewrite cf5_gen_eq_ref, cf5_constr_gen_eq_ref. Qed.
  Lemma cf6_out_length : length (CF6_eval 2 (Z.of_nat n) x) = 2%nat /\ length (CF6_constr_eval 2 (Z.of_nat n) x) = 2%nat.
  Proof. now rewrite cf6_gen_eq_ref, cf6_constr_gen_eq_ref. Qed.
  Lemma cf7_out_length : length (CF7_eval 2 (Z.of_nat n) x) = 2%nat /\ length (CF7_constr_eval 2 (Z.of_nat n) x) = 2%nat.
  Proof. now rewrite cf7_gen_eq_ref, cf7_constr_gen_eq_ref. Qed.
End CF.
