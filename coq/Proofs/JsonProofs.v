(* Proofs/JsonProofs.v — round-trip theorems for the model of platypus/io.py (C19).

   Facts proved here are about the ABSTRACT STRUCTURE (trees, the encoder's shapes, the decoder's
   bottom-up hook, the placeholder/rebuild logic, FixedLengthArray assignment, violation recomputation).
   Facts ASSUMED about CPython (hypotheses of the sections, tied by the float sweep and by the
   correspondence through real files, not proved):
     RT   : jparse (jprint f) = f   for every non-NaN float f      (json: float.__repr__ + float(), 'Infinity')
     ORT  : oparse (oprint f) = f   for every non-NaN float f      (str(float) + float())
   and, implicit in the tree-level model: json's character level (scanner, string escapes, whitespace,
   decimal ints) and " ".join/split of the objectives file reproduce the tree / the token lines.
   H0 : Constraint("==0") parses (to anything) - the default constraint of a fresh Problem. *)
From Coq Require Import ZArith QArith Qabs Bool List String Ascii Lia Lqa.
Import ListNotations.
From PV Require Import Base.Num Model.JsonModel.
Open Scope Z_scope.

(* ------------------------------------------------------------------ *)
(* generic helpers                                                    *)
(* ------------------------------------------------------------------ *)
Definition is_some {A} (o : option A) : bool := match o with Some _ => true | None => false end.

(* induction principle for the nested type jvalue *)
Section JInd.
  Variable N : Type.
  Variable P : jvalue N -> Prop.
  Hypothesis HNull : P JNull.
  Hypothesis HBool : forall b, P (JBool b).
  Hypothesis HInt : forall z, P (JInt z).
  Hypothesis HNum : forall n, P (JNum n).
  Hypothesis HStr : forall s, P (JStr s).
  Hypothesis HArr : forall l, Forall P l -> P (JArr l).
  Hypothesis HObj : forall kv, Forall (fun p => P (snd p)) kv -> P (JObj kv).

  Fixpoint jvalue_ind2 (j : jvalue N) : P j :=
    match j with
    | JNull => HNull
    | JBool b => HBool b
    | JInt z => HInt z
    | JNum n => HNum n
    | JStr s => HStr s
    | JArr l => HArr l ((fix go (l : list (jvalue N)) : Forall P l :=
                           match l with
                           | [] => Forall_nil _
                           | x :: r => Forall_cons _ (jvalue_ind2 x) (go r)
                           end) l)
    | JObj kv => HObj kv ((fix go (l : list (string * jvalue N)) : Forall (fun p => P (snd p)) l :=
                             match l with
                             | [] => Forall_nil _
                             | p :: r => Forall_cons _ (jvalue_ind2 (snd p)) (go r)
                             end) kv)
    end.
End JInd.

Lemma rbind_ok {A B} (a : A) (f : A -> res B) : rbind (Ok a) f = f a.
Proof. reflexivity. Qed.

Lemma mapM_ok_length {A B} (f : A -> res B) l l' : mapM f l = Ok l' -> List.length l' = List.length l.
Proof.
  revert l'; induction l as [|x r IH]; intros l' H; simpl in H.
  - inversion H; reflexivity.
  - destruct (f x); simpl in H; [|discriminate].
    destruct (mapM f r); simpl in H; [|discriminate].
    inversion H; subst; simpl; f_equal; apply IH; reflexivity.
Qed.

(* ------------------------------------------------------------------ *)
(* text layer: parse o print = id on NaN-free trees                   *)
(* ------------------------------------------------------------------ *)
Section TextLayer.
  Variables F T : Type.
  Variable fv : F -> option xq.
  Variable pr : F -> T.
  Variable pa : T -> F.
  Hypothesis RT : forall f, fv f <> None -> pa (pr f) = f.

  Definition nonan (j : jvalue F) : bool := jall (fun f => is_some (fv f)) j.

  Lemma jmap_roundtrip : forall j, nonan j = true -> jmap pa (jmap pr j) = j.
  Proof.
    induction j as [| | | n | | l IH | kv IH] using jvalue_ind2; intros H; simpl; try reflexivity.
    - f_equal. apply RT. unfold nonan in H; simpl in H. destruct (fv n); [discriminate|discriminate H].
    - f_equal. unfold nonan in H; simpl in H.
      induction l as [|x r IHr]; simpl; [reflexivity|].
      simpl in H. apply andb_true_iff in H as [Hx Hr].
      inversion IH; subst. f_equal; [apply H1; exact Hx | apply IHr; assumption].
    - f_equal. unfold nonan in H; simpl in H.
      induction kv as [|[k x] r IHr]; simpl; [reflexivity|].
      simpl in H. apply andb_true_iff in H as [Hx Hr].
      inversion IH; subst. f_equal; [f_equal; apply H1; exact Hx | apply IHr; assumption].
  Qed.
End TextLayer.

(* ------------------------------------------------------------------ *)
(* the decoder on the encoder's output                                *)
(* ------------------------------------------------------------------ *)
Section RoundTrip.
  Variable F : Type.
  Variable fv : F -> option xq.
  Variable cparse : string -> option (js_cop * xq).
  Variable cfun : Z -> js_fval -> js_fval.
  Notation jv := (jvalue F).
  Notation psol := (psol F).
  Notation pval := (pval F).
  Notation dec := (dec F fv cparse cfun).
  Notation dec_list := (dec_list F fv cparse cfun).
  Notation dec_fields := (dec_fields F fv cparse cfun).
  Notation hook := (hook F fv cparse cfun).
  Notation js_viol := (js_viol F fv cparse cfun).
  Notation nonan := (nonan F fv).

  (* ---- unfolding lemmas for the nested fixpoint ---- *)
  Lemma dec_arr : forall o ph l st,
    dec o ph (JArr l) st = (r <- dec_list o ph l st ;; Ok (fst r, PList F (snd r))).
  Proof.
    intros. simpl.
    match goal with |- rbind (?g l st) _ = _ =>
      assert (E : forall l st, g l st = dec_list o ph l st) end.
    { induction l0 as [|x r IH]; intros; simpl; [reflexivity|].
      destruct (dec o ph x st0); simpl; [rewrite IH|]; reflexivity. }
    rewrite E. reflexivity.
  Qed.

  Lemma dec_obj : forall o ph kv st,
    dec o ph (JObj kv) st = (r <- dec_fields o ph kv st ;; hook o ph (snd r) (fst r)).
  Proof.
    intros. simpl.
    match goal with |- rbind (?g kv st) _ = _ =>
      assert (E : forall l st, g l st = dec_fields o ph l st) end.
    { induction l as [|[k x] r IH]; intros; simpl; [reflexivity|].
      destruct (dec o ph x st0); simpl; [rewrite IH|]; reflexivity. }
    rewrite E. reflexivity.
  Qed.

  (* ---- values without objects are returned as they are, the decoder state is untouched ---- *)
  Lemma dec_objfree : forall o ph j st, objfree j = true -> dec o ph j st = Ok (st, embed F j).
  Proof.
    intros o ph j. induction j as [| | | | | l IH | kv IH] using jvalue_ind2; intros st H;
      try reflexivity; [|discriminate H].
    rewrite dec_arr. simpl in H.
    assert (E : dec_list o ph l st = Ok (st, map (embed F) l)).
    { induction l as [|x r IHr]; simpl; [reflexivity|].
      simpl in H. apply andb_true_iff in H as [Hx Hr]. inversion IH; subst.
      rewrite H1 by exact Hx. simpl. rewrite IHr by assumption. reflexivity. }
    rewrite E. reflexivity.
  Qed.

  Lemma dec_list_objfree : forall o ph l st, forallb objfree l = true ->
    dec_list o ph l st = Ok (st, map (embed F) l).
  Proof.
    induction l as [|x r IH]; intros st H; simpl; [reflexivity|].
    simpl in H. apply andb_true_iff in H as [Hx Hr].
    rewrite dec_objfree by exact Hx. simpl. rewrite IH by exact Hr. reflexivity.
  Qed.

  Lemma dec_fields_objfree : forall o ph kv st, forallb (fun p => objfree (snd p)) kv = true ->
    dec_fields o ph kv st = Ok (st, map (fun p => (fst p, embed F (snd p))) kv).
  Proof.
    induction kv as [|[k x] r IH]; intros st H; simpl; [reflexivity|].
    simpl in H. apply andb_true_iff in H as [Hx Hr].
    rewrite dec_objfree by exact Hx. simpl. rewrite IH by exact Hr. reflexivity.
  Qed.

  Lemma plain_of_embed : forall j, plain_of F (embed F j) = Some j.
  Proof.
    induction j as [| | | | | l IH | kv IH] using jvalue_ind2; try reflexivity; simpl.
    - match goal with |- match ?g (map _ l) with _ => _ end = _ => assert (E : g (map (embed F) l) = Some l) end.
      { induction l as [|x r IHr]; simpl; [reflexivity|]. inversion IH; subst.
        rewrite H1, IHr by assumption. reflexivity. }
      rewrite E. reflexivity.
    - match goal with |- match ?g (map ?f kv) with _ => _ end = _ => assert (E : g (map f kv) = Some kv) end.
      { induction kv as [|[k x] r IHr]; simpl; [reflexivity|]. inversion IH; subst. simpl in H1.
        rewrite H1, IHr by assumption. reflexivity. }
      rewrite E. reflexivity.
  Qed.

  Lemma plain_list_embed : forall l, plain_list F (PList F (map (embed F) l)) = Ok l.
  Proof.
    intros. unfold plain_list. change (PList F (map (embed F) l)) with (embed F (JArr l)).
    rewrite plain_of_embed. reflexivity.
  Qed.

  (* ---- one solution object ---- *)
  Definition fields_objfree (s : psol) : bool :=
    forallb objfree (ps_vars F s) && forallb objfree (ps_objs F s) && forallb objfree (ps_cons F s).

  (* what the hook makes of an encoded solution, given the decoder's current problem (io.py:132-147) *)
  Definition load_sol (st : option problem) (s : psol) : res (problem * psol) :=
    let p := match st with
             | Some p => p
             | None => new_problem Placeholder (List.length (ps_vars F s)) (List.length (ps_objs F s)) (List.length (ps_cons F s))
             end in
    let cons := fla_assign F (p_nconstrs p) (ps_cons F s) in
    cv <- js_viol (p_cons p) cons ;;
    Ok (p, mkSol F p (fla_assign F (p_nvars p) (ps_vars F s)) (fla_assign F (p_nobjs p) (ps_objs F s)) cons cv (js_fzero cv)).

  Lemma dec_enc_sol : forall o ph s st, fields_objfree s = true ->
    dec o ph (enc_sol F s) st = (r <- load_sol st s ;; Ok (Some (fst r), PSol F (snd r))).
  Proof.
    intros o ph s st H. unfold fields_objfree in H.
    apply andb_true_iff in H as [H Hc]. apply andb_true_iff in H as [Hv Ho].
    unfold enc_sol. rewrite dec_obj.
    rewrite dec_fields_objfree by (cbn [forallb snd objfree]; rewrite Hv, Ho, Hc; reflexivity).
    cbn [rbind fst snd map embed].
    unfold hook. cbn [pd_has pd_get String.eqb Ascii.eqb Bool.eqb andb].
    unfold hook_solution. cbn [pd_item pd_get String.eqb Ascii.eqb Bool.eqb rbind].
    rewrite !plain_list_embed. cbn [rbind].
    unfold load_sol. destruct (js_viol _ _); reflexivity.
  Qed.

  (* ---- a list of solution objects ---- *)
  Fixpoint load_sols (st : option problem) (sols : list psol) : res (option problem * list psol) :=
    match sols with
    | [] => Ok (st, [])
    | s :: r => a <- load_sol st s ;;
                b <- load_sols (Some (fst a)) r ;;
                Ok (fst b, snd a :: snd b)
    end.

  Lemma dec_list_enc_sols : forall o ph sols st, forallb fields_objfree sols = true ->
    dec_list o ph (map (enc_sol F) sols) st = (r <- load_sols st sols ;; Ok (fst r, map (PSol F) (snd r))).
  Proof.
    induction sols as [|s r IH]; intros st H; [reflexivity|].
    simpl in H. apply andb_true_iff in H as [Hs Hr].
    cbn [map dec_list load_sols]. rewrite dec_enc_sol by exact Hs.
    destruct (load_sol st s) as [[p s']|e]; [|reflexivity]. cbn [rbind fst snd].
    rewrite IH by exact Hr.
    destruct (load_sols (Some p) r) as [[st' outs]|e]; reflexivity.
  Qed.

  (* ---- attaching a saved solution to a problem of the right shape ---- *)
  Definition attach (p : problem) (s : psol) : res psol :=
    cv <- js_viol (p_cons p) (ps_cons F s) ;;
    Ok (mkSol F p (ps_vars F s) (ps_objs F s) (ps_cons F s) cv (js_fzero cv)).

  Definition shape_of (nv no nc : nat) (s : psol) : bool :=
    Nat.eqb (List.length (ps_vars F s)) nv && Nat.eqb (List.length (ps_objs F s)) no && Nat.eqb (List.length (ps_cons F s)) nc.

  Definition pshape (nv no nc : nat) (p : problem) : bool :=
    Nat.eqb (p_nvars p) nv && Nat.eqb (p_nobjs p) no && Nat.eqb (p_nconstrs p) nc.

  Lemma fla_assign_same : forall n l, Nat.eqb (List.length l) n = true -> fla_assign F n l = l.
  Proof. intros n l H. unfold fla_assign. rewrite H. reflexivity. Qed.

  Lemma load_sol_some : forall p s nv no nc, pshape nv no nc p = true -> shape_of nv no nc s = true ->
    load_sol (Some p) s = (o <- attach p s ;; Ok (p, o)).
  Proof.
    intros p s nv no nc Hp Hs. unfold pshape in Hp. unfold shape_of in Hs.
    apply andb_true_iff in Hp as [Hp Hp3]. apply andb_true_iff in Hp as [Hp1 Hp2].
    apply andb_true_iff in Hs as [Hs Hs3]. apply andb_true_iff in Hs as [Hs1 Hs2].
    apply Nat.eqb_eq in Hp1, Hp2, Hp3. subst nv no nc.
    unfold load_sol, attach. rewrite !fla_assign_same by assumption.
    destruct (js_viol _ _); reflexivity.
  Qed.

  Lemma load_sols_some : forall sols p nv no nc, pshape nv no nc p = true ->
    forallb (shape_of nv no nc) sols = true ->
    load_sols (Some p) sols = (outs <- mapM (attach p) sols ;; Ok (Some p, outs)).
  Proof.
    induction sols as [|s r IH]; intros p nv no nc Hp H; [reflexivity|].
    simpl in H. apply andb_true_iff in H as [Hs Hr].
    cbn [load_sols mapM]. rewrite (load_sol_some p s nv no nc) by assumption.
    destruct (attach p s) as [o|e]; [|reflexivity]. cbn [rbind fst snd].
    rewrite (IH p nv no nc) by assumption.
    destruct (mapM (attach p) r); reflexivity.
  Qed.

  Lemma pshape_placeholder : forall o nv no nc, pshape nv no nc (new_problem o nv no nc) = true.
  Proof. intros. unfold pshape, new_problem; simpl. rewrite !Nat.eqb_refl. reflexivity. Qed.

  (* no problem yet: the first solution creates the placeholder (io.py:133-136), the rest reuse it *)
  Lemma load_sols_none : forall sols nv no nc, forallb (shape_of nv no nc) sols = true ->
    load_sols None sols =
      match sols with
      | [] => Ok (None, [])
      | _ => outs <- mapM (attach (new_problem Placeholder nv no nc)) sols ;;
             Ok (Some (new_problem Placeholder nv no nc), outs)
      end.
  Proof.
    intros [|s r] nv no nc H; [reflexivity|].
    simpl in H. apply andb_true_iff in H as [Hs Hr].
    assert (E : load_sol None s = load_sol (Some (new_problem Placeholder nv no nc)) s).
    { unfold shape_of in Hs. apply andb_true_iff in Hs as [Hs Hs3]. apply andb_true_iff in Hs as [Hs1 Hs2].
      apply Nat.eqb_eq in Hs1, Hs2, Hs3. unfold load_sol. rewrite Hs1, Hs2, Hs3. reflexivity. }
    cbn [load_sols mapM]. rewrite E.
    rewrite (load_sol_some _ s nv no nc) by (try apply pshape_placeholder; assumption).
    destruct (attach _ s) as [o|e]; [|reflexivity]. cbn [rbind fst snd].
    rewrite (load_sols_some r _ nv no nc) by (try apply pshape_placeholder; assumption).
    destruct (mapM _ r); reflexivity.
  Qed.

  (* ---- what "read back exactly" means for one solution ---- *)
  Definition same_as (p : problem) (s o : psol) : Prop :=
    ps_vars F o = ps_vars F s /\ ps_objs F o = ps_objs F s /\ ps_cons F o = ps_cons F s /\
    ps_prob F o = p /\
    js_viol (p_cons p) (ps_cons F s) = Ok (ps_cv F o) /\
    ps_feas F o = js_fzero (ps_cv F o).

  Lemma attach_same : forall p s o, attach p s = Ok o -> same_as p s o.
  Proof.
    intros p s o H. unfold attach in H. destruct (js_viol (p_cons p) (ps_cons F s)) as [cv|e] eqn:E; [|discriminate].
    simpl in H. inversion H; subst. unfold same_as; simpl. repeat split; try reflexivity. exact E.
  Qed.

  Lemma mapM_attach_same : forall p sols outs, mapM (attach p) sols = Ok outs -> Forall2 (same_as p) sols outs.
  Proof.
    induction sols as [|s r IH]; intros outs H; simpl in H.
    - inversion H. constructor.
    - destruct (attach p s) as [o|e] eqn:E; [|discriminate]. simpl in H.
      destruct (mapM (attach p) r) as [os|e] eqn:E2; [|discriminate]. simpl in H. inversion H; subst.
      constructor; [apply attach_same; exact E | apply IH; reflexivity].
  Qed.

  (* ---- well-formedness: when the recomputation cannot raise ---- *)
  Definition is_num (j : jv) : bool :=
    match j with JInt _ => true | JBool _ => true | JNum f => is_some (fv f) | _ => false end.
  Definition cons_ok (cs : list cdecl) : bool :=
    forallb (fun c => match c with DOp s => is_some (cparse s) | DFun _ => true end) cs.
  (* declarations that have a text (operator strings): the ones a file can hold *)
  Definition all_dop (cs : list cdecl) : bool :=
    forallb (fun c => match c with DOp _ => true | DFun _ => false end) cs.
  (* proof helper, only used under all_dop *)
  Definition decl_text (c : cdecl) : string := match c with DOp s => s | DFun _ => EmptyString end.

  Lemma js_terms_ok : forall cs xs, cons_ok cs = true -> forallb is_num xs = true ->
    exists ts, js_terms F fv cparse cfun cs xs = Ok ts.
  Proof.
    induction cs as [|c cs IH]; intros xs Hc Hx; [exists []; reflexivity|].
    destruct xs as [|x xs]; [exists []; reflexivity|].
    simpl in Hc, Hx. apply andb_true_iff in Hc as [Hc1 Hc2]. apply andb_true_iff in Hx as [Hx1 Hx2].
    destruct (IH xs Hc2 Hx2) as [ts E]. cbn [js_terms]. unfold js_term.
    destruct c as [s|k].
    - destruct (cparse s) as [[op y]|]; [|discriminate].
      destruct x; simpl in Hx1; try discriminate; simpl; rewrite E; simpl; eexists; reflexivity.
    - destruct x; simpl in Hx1; try discriminate; simpl; rewrite E; simpl; eexists; reflexivity.
  Qed.

  Lemma js_viol_ok : forall cs xs, cons_ok cs = true -> forallb is_num xs = true ->
    exists v, js_viol cs xs = Ok v.
  Proof.
    intros cs xs Hc Hx. destruct (js_terms_ok cs xs Hc Hx) as [ts E].
    unfold JsonModel.js_viol. rewrite E. eexists; reflexivity.
  Qed.

  Lemma mapM_attach_ok : forall p sols, cons_ok (p_cons p) = true ->
    forallb (fun s => forallb is_num (ps_cons F s)) sols = true ->
    exists outs, mapM (attach p) sols = Ok outs.
  Proof.
    induction sols as [|s r IH]; intros Hc H; [exists []; reflexivity|].
    simpl in H. apply andb_true_iff in H as [Hs Hr].
    destruct (IH Hc Hr) as [outs E]. destruct (js_viol_ok _ _ Hc Hs) as [v Ev].
    cbn [mapM]. unfold attach at 1. rewrite Ev. cbn [rbind]. rewrite E. eexists; reflexivity.
  Qed.

  (* attaching twice = attaching to the last problem (io.py:125-128 after io.py:138-144) *)
  Lemma reattach_one : forall p0 p s o, attach p0 s = Ok o ->
    reattach F fv cparse cfun p (PSol F o) = (o' <- attach p s ;; Ok (PSol F o')).
  Proof.
    intros p0 p s o E. unfold attach in E.
    destruct (js_viol (p_cons p0) (ps_cons F s)); [|discriminate]. simpl in E. inversion E; subst o. clear E.
    unfold reattach, attach. simpl.
    destruct (js_viol (p_cons p) (ps_cons F s)); reflexivity.
  Qed.

  Lemma reattach_attach : forall p0 p sols outs, mapM (attach p0) sols = Ok outs ->
    mapM (reattach F fv cparse cfun p) (map (PSol F) outs) = (outs' <- mapM (attach p) sols ;; Ok (map (PSol F) outs')).
  Proof.
    induction sols as [|s r IH]; intros outs H; simpl in H.
    - inversion H; reflexivity.
    - destruct (attach p0 s) as [o|e] eqn:E; [|discriminate]. simpl in H.
      destruct (mapM (attach p0) r) as [os|e] eqn:E2; [|discriminate]. simpl in H. inversion H; subst outs. clear H.
      specialize (IH os eq_refl).
      cbn [map mapM]. rewrite IH. rewrite (reattach_one p0 p s o E).
      destruct (attach p s); [|reflexivity]. cbn [rbind].
      destruct (mapM (attach p) r); reflexivity.
  Qed.

  (* ------------------------------------------------------------------ *)
  (* well-formed inputs (boolean, so that Examples compute)             *)
  (* ------------------------------------------------------------------ *)
  (* a field element: JSON-native (no objects), no NaN *)
  Definition wf_field (j : jv) : bool := objfree j && nonan j.
  Definition wf_sol (nv no nc : nat) (s : psol) : bool :=
    shape_of nv no nc s &&
    forallb wf_field (ps_vars F s) && forallb wf_field (ps_objs F s) &&
    forallb (fun j => is_num j) (ps_cons F s).
  Definition wf_sols (nv no nc : nat) (sols : list psol) : bool := forallb (wf_sol nv no nc) sols.
  (* the problem handed to load_json, if any: right shape, parsable constraint declarations *)
  Definition wf_supplied (nv no nc : nat) (sup : option problem) : bool :=
    match sup with None => true | Some p => pshape nv no nc p && cons_ok (p_cons p) end.
  (* the problem of a live algorithm *)
  Definition wf_problem (p : problem) : bool :=
    Nat.eqb (List.length (p_dirs p)) (p_nobjs p) && Nat.eqb (List.length (p_cons p)) (p_nconstrs p) && cons_ok (p_cons p) &&
    all_dop (p_cons p).
  Definition wf_algo (a : algo F) : bool :=
    wf_problem (a_problem F a) &&
    wf_sols (p_nvars (a_problem F a)) (p_nobjs (a_problem F a)) (p_nconstrs (a_problem F a)) (a_result F a).

  Lemma is_num_field : forall j, is_num j = true -> wf_field j = true.
  Proof. intros [] H; simpl in H; try discriminate; unfold wf_field, JsonProofs.nonan; simpl; try reflexivity. exact H. Qed.

  Lemma wf_sol_parts : forall nv no nc s, wf_sol nv no nc s = true ->
    shape_of nv no nc s = true /\ fields_objfree s = true /\ forallb is_num (ps_cons F s) = true /\
    nonan (enc_sol F s) = true.
  Proof.
    intros nv no nc s H. unfold wf_sol in H.
    apply andb_true_iff in H as [H Hc]. apply andb_true_iff in H as [H Ho]. apply andb_true_iff in H as [Hs Hv].
    assert (A : forall l, forallb wf_field l = true -> forallb objfree l = true /\ forallb (jall (fun f => is_some (fv f))) l = true).
    { induction l as [|x r IH]; intros Hl; [split; reflexivity|]. simpl in Hl. apply andb_true_iff in Hl as [Hx Hr].
      unfold wf_field in Hx. apply andb_true_iff in Hx as [Hx1 Hx2]. destruct (IH Hr) as [I1 I2].
      simpl. rewrite Hx1, I1. unfold JsonProofs.nonan in Hx2. rewrite Hx2, I2. split; reflexivity. }
    assert (B : forallb wf_field (ps_cons F s) = true).
    { clear -Hc. induction (ps_cons F s) as [|x r IH]; [reflexivity|]. simpl in Hc. apply andb_true_iff in Hc as [Hx Hr].
      simpl. rewrite (is_num_field x Hx), (IH Hr). reflexivity. }
    destruct (A _ Hv) as [V1 V2]. destruct (A _ Ho) as [O1 O2]. destruct (A _ B) as [C1 C2].
    repeat split; try assumption.
    - unfold fields_objfree. rewrite V1, O1, C1. reflexivity.
    - unfold JsonProofs.nonan, enc_sol. simpl. rewrite V2, O2, C2. reflexivity.
  Qed.

  Lemma wf_sols_parts : forall nv no nc sols, wf_sols nv no nc sols = true ->
    forallb (shape_of nv no nc) sols = true /\ forallb fields_objfree sols = true /\
    forallb (fun s => forallb is_num (ps_cons F s)) sols = true /\
    forallb nonan (map (enc_sol F) sols) = true.
  Proof.
    induction sols as [|s r IH]; intros H; [repeat split; reflexivity|].
    simpl in H. apply andb_true_iff in H as [Hs Hr].
    destruct (wf_sol_parts _ _ _ _ Hs) as (A & B & C & D). destruct (IH Hr) as (A' & B' & C' & D').
    simpl. rewrite A, A', B, B', C, C', D, D'. repeat split; reflexivity.
  Qed.

  (* ------------------------------------------------------------------ *)
  (* value-level round trips: decode (encode x)                          *)
  (* ------------------------------------------------------------------ *)
  Definition load_problem (sup : option problem) (nv no nc : nat) : problem :=
    match sup with Some p => p | None => new_problem Placeholder nv no nc end.

  Hypothesis H0 : cparse "==0" <> None.

  Lemma cons_ok_default : forall n, cons_ok (repeat (DOp "==0") n) = true.
  Proof.
    induction n as [|n IH]; [reflexivity|]. simpl. rewrite IH.
    destruct (cparse "==0"); [reflexivity|contradiction H0; reflexivity].
  Qed.

  Lemma cons_ok_load_problem : forall sup nv no nc, wf_supplied nv no nc sup = true ->
    cons_ok (p_cons (load_problem sup nv no nc)) = true /\ pshape nv no nc (load_problem sup nv no nc) = true.
  Proof.
    intros [p|] nv no nc H; simpl in *.
    - apply andb_true_iff in H as [A B]. split; assumption.
    - split; [apply cons_ok_default | apply pshape_placeholder].
  Qed.

  (* a JSON array of solution objects (written from a list or an archive) *)
  Lemma decode_sol_array : forall sup sols nv no nc,
    wf_sols nv no nc sols = true -> wf_supplied nv no nc sup = true ->
    exists st outs,
      decode F fv cparse cfun false sup (JArr (map (enc_sol F) sols)) = Ok (st, PList F (map (PSol F) outs)) /\
      Forall2 (same_as (load_problem sup nv no nc)) sols outs /\
      (sols <> [] -> st = Some (load_problem sup nv no nc)).
  Proof.
    intros sup sols nv no nc Hw Hs.
    destruct (wf_sols_parts _ _ _ _ Hw) as (Sh & Of & Nm & _).
    destruct (cons_ok_load_problem sup nv no nc Hs) as [Ck Ps].
    destruct (mapM_attach_ok (load_problem sup nv no nc) sols Ck Nm) as [outs E].
    unfold decode. rewrite dec_arr, dec_list_enc_sols by exact Of.
    destruct sup as [p|]; simpl load_problem in *.
    - rewrite (load_sols_some sols p nv no nc) by assumption. rewrite E. cbn [rbind fst snd].
      exists (Some p), outs. repeat split; [apply mapM_attach_same; exact E].
    - rewrite (load_sols_none sols nv no nc) by assumption.
      destruct sols as [|s r].
      + simpl in E. inversion E; subst. exists None, []. repeat split; [constructor | intros C; contradiction C; reflexivity].
      + rewrite E. cbn [rbind fst snd]. exists (Some (new_problem Placeholder nv no nc)), outs.
        repeat split. apply mapM_attach_same; exact E.
  Qed.

  (* ---- the algorithm object ---- *)
  (* the Problem the repaired hook builds from the saved definition (io.py:119-123) *)
  Definition rebuilt_of (p : problem) : problem :=
    mkProblem Rebuilt "Problem" (p_nvars p) (p_nobjs p) (p_nconstrs p) None (repeat None (p_nvars p)) (p_dirs p) (p_cons p).

  Lemma opt_str_objfree : forall l, forallb objfree (map (opt_str F) l) = true.
  Proof. induction l as [|[s|] r IH]; simpl; auto. Qed.

  Lemma to_direction_name : forall d, to_direction F (PStr F (dir_name d)) = Ok d.
  Proof. intros []; reflexivity. Qed.

  Lemma assign_dirs_enc : forall ds n, Nat.eqb (List.length ds) n = true ->
    assign_dirs F n (PList F (map (embed F) (map (fun d => JStr (dir_name d)) ds))) = Ok ds.
  Proof.
    intros ds n H. unfold assign_dirs.
    assert (E : mapM (to_direction F) (map (embed F) (map (fun d => JStr (dir_name d)) ds)) = Ok ds).
    { clear H. induction ds as [|d r IH]; [reflexivity|]. cbn [map mapM embed].
      rewrite to_direction_name. cbn [rbind]. rewrite IH. reflexivity. }
    rewrite E. cbn [rbind]. rewrite H. reflexivity.
  Qed.

  Lemma assign_cons_enc : forall cs n, all_dop cs = true -> cons_ok cs = true -> Nat.eqb (List.length cs) n = true ->
    assign_cons F cparse n (PList F (map (embed F) (map (fun c => JStr (decl_text c)) cs))) = Ok cs.
  Proof.
    intros cs n Hd Hc H. unfold assign_cons.
    assert (E : mapM (to_constraint F cparse) (map (embed F) (map (fun c => JStr (decl_text c)) cs)) = Ok cs).
    { clear H. induction cs as [|c r IH]; [reflexivity|]. simpl in Hc, Hd.
      apply andb_true_iff in Hc as [Hc1 Hc2]. apply andb_true_iff in Hd as [Hd1 Hd2].
      destruct c as [s|k]; [|discriminate].
      cbn [map mapM embed to_constraint decl_text]. destruct (cparse s); [|discriminate]. cbn [rbind]. rewrite IH by assumption. reflexivity. }
    rewrite E. cbn [rbind]. rewrite H. reflexivity.
  Qed.

  Lemma p_size_of_nat : forall n, p_size F (PInt F (Z.of_nat n)) = Ok n.
  Proof.
    intros n. unfold p_size. assert (E : (0 <=? Z.of_nat n) = true) by (apply Z.leb_le; lia).
    rewrite E, Nat2Z.id. reflexivity.
  Qed.

  (* the inner objects of a saved algorithm come out of their hooks as plain dicts, state untouched *)
  Lemma dec_algorithm_dict : forall o ph nm nfe st,
    dec o ph (JObj [("name"%string, JStr nm); ("nfe"%string, JInt nfe)]) st =
      Ok (st, PDict F [("name"%string, PStr F nm); ("nfe"%string, PInt F nfe)]).
  Proof. reflexivity. Qed.

  (* the trees the encoder produces when every declaration has a text *)
  Definition enc_problem_tree (p : problem) : jv :=
    JObj [ ("name"%string, JStr (p_name p));
           ("nvars"%string, JInt (Z.of_nat (p_nvars p)));
           ("nobjs"%string, JInt (Z.of_nat (p_nobjs p)));
           ("nconstrs"%string, JInt (Z.of_nat (p_nconstrs p)));
           ("function"%string, opt_str F (p_function p));
           ("types"%string, JArr (map (opt_str F) (p_types p)));
           ("directions"%string, JArr (map (fun d => JStr (dir_name d)) (p_dirs p)));
           ("constraints"%string, JArr (map (fun c => JStr (decl_text c)) (p_cons p))) ].
  Definition enc_algo_tree (a : algo F) : jv :=
    JObj [ ("algorithm"%string, JObj [ ("name"%string, JStr (a_name F a)); ("nfe"%string, JInt (a_nfe F a)) ]);
           ("problem"%string, enc_problem_tree (a_problem F a));
           ("result"%string, JArr (map (enc_sol F) (a_result F a))) ].
  Definition encode_tree (x : saved F) : jv :=
    match x with
    | SvList _ l => JArr (map (enc_sol F) l)
    | SvArchive _ l => JArr (map (enc_sol F) l)
    | SvAlgorithm _ a => enc_algo_tree a
    end.
  (* what can be written: an algorithm whose constraints all have a text *)
  Definition saveable (x : saved F) : bool :=
    match x with SvAlgorithm _ a => all_dop (p_cons (a_problem F a)) | _ => true end.

  Lemma enc_decls_ok : forall cs, all_dop cs = true ->
    mapM (enc_decl F) cs = Ok (map (fun c => JStr (decl_text c)) cs).
  Proof.
    induction cs as [|c r IH]; intros H; [reflexivity|]. simpl in H. apply andb_true_iff in H as [H1 H2].
    destruct c; [|discriminate]. cbn [mapM enc_decl rbind map decl_text]. rewrite IH by exact H2. reflexivity.
  Qed.

  Lemma encode_ok : forall x, saveable x = true -> encode F x = Ok (encode_tree x).
  Proof.
    intros [l|l|a] H; try reflexivity. simpl in H.
    unfold encode, enc_algo, enc_problem. rewrite enc_decls_ok by exact H. reflexivity.
  Qed.

  (* a callable declaration has no text: saving such an algorithm raises TypeError *)
  Lemma encode_callable_raises : forall a, all_dop (p_cons (a_problem F a)) = false ->
    encode F (SvAlgorithm F a) = Err EType.
  Proof.
    intros a H. unfold encode, enc_algo, enc_problem.
    assert (E : mapM (enc_decl F) (p_cons (a_problem F a)) = Err EType).
    { induction (p_cons (a_problem F a)) as [|c r IH]; [discriminate|]. simpl in H.
      destruct c; [|reflexivity]. simpl in H. cbn [mapM enc_decl rbind]. rewrite IH by exact H. reflexivity. }
    rewrite E. reflexivity.
  Qed.

  Definition problem_dict (p : problem) : list (string * pval) :=
    [ ("name"%string, PStr F (p_name p));
      ("nvars"%string, PInt F (Z.of_nat (p_nvars p)));
      ("nobjs"%string, PInt F (Z.of_nat (p_nobjs p)));
      ("nconstrs"%string, PInt F (Z.of_nat (p_nconstrs p)));
      ("function"%string, embed F (opt_str F (p_function p)));
      ("types"%string, PList F (map (embed F) (map (opt_str F) (p_types p))));
      ("directions"%string, PList F (map (embed F) (map (fun d => JStr (dir_name d)) (p_dirs p))));
      ("constraints"%string, PList F (map (embed F) (map (fun c => JStr (decl_text c)) (p_cons p)))) ].

  Lemma dec_problem_dict : forall o ph p st,
    dec o ph (enc_problem_tree p) st = Ok (st, PDict F (problem_dict p)).
  Proof.
    intros. unfold enc_problem_tree. rewrite dec_obj.
    assert (Ofn : objfree (opt_str F (p_function p)) = true) by (destruct (p_function p); reflexivity).
    assert (Od : forallb objfree (map (fun d => @JStr F (dir_name d)) (p_dirs p)) = true)
      by (induction (p_dirs p); simpl; auto).
    assert (Oc : forallb objfree (map (fun c => @JStr F (decl_text c)) (p_cons p)) = true)
      by (induction (p_cons p); simpl; auto).
    rewrite dec_fields_objfree
      by (cbn [forallb snd objfree]; rewrite Ofn, Od, Oc, opt_str_objfree; reflexivity).
    reflexivity.
  Qed.

  Lemma hook_algorithm_new : forall A p R st,
    hook false true [("algorithm"%string, A); ("problem"%string, PDict F (problem_dict p)); ("result"%string, R)] st =
      (nv <- p_size F (PInt F (Z.of_nat (p_nvars p))) ;;
       no <- p_size F (PInt F (Z.of_nat (p_nobjs p))) ;;
       nc <- p_size F (PInt F (Z.of_nat (p_nconstrs p))) ;;
       ds <- assign_dirs F no (PList F (map (embed F) (map (fun d => JStr (dir_name d)) (p_dirs p)))) ;;
       cs <- assign_cons F cparse nc (PList F (map (embed F) (map (fun c => JStr (decl_text c)) (p_cons p)))) ;;
       let p' := mkProblem Rebuilt "Problem" nv no nc None (repeat None nv) ds cs in
       match R with
       | PList _ l => l' <- mapM (reattach F fv cparse cfun p') l ;; Ok (Some p', PList F l')
       | _ => Err EType
       end).
  Proof. reflexivity. Qed.

  Lemma hook_algorithm_supplied : forall A p R st,
    hook false false [("algorithm"%string, A); ("problem"%string, PDict F (problem_dict p)); ("result"%string, R)] st =
      Ok (st, R).
  Proof. reflexivity. Qed.

  Lemma decode_algorithm_none : forall a, wf_algo a = true ->
    exists outs,
      decode F fv cparse cfun false None (enc_algo_tree a) = Ok (Some (rebuilt_of (a_problem F a)), PList F (map (PSol F) outs)) /\
      Forall2 (same_as (rebuilt_of (a_problem F a))) (a_result F a) outs.
  Proof.
    intros a Hw. unfold wf_algo in Hw. apply andb_true_iff in Hw as [Hp Hs].
    unfold wf_problem in Hp. apply andb_true_iff in Hp as [Hp Hdop]. apply andb_true_iff in Hp as [Hp Hck]. apply andb_true_iff in Hp as [Hd Hc].
    set (p := a_problem F a) in *. set (sols := a_result F a) in *.
    destruct (wf_sols_parts _ _ _ _ Hs) as (Sh & Of & Nm & _).
    (* against the placeholder *)
    set (p0 := new_problem Placeholder (p_nvars p) (p_nobjs p) (p_nconstrs p)).
    assert (Ck0 : cons_ok (p_cons p0) = true) by apply cons_ok_default.
    destruct (mapM_attach_ok p0 sols Ck0 Nm) as [outs0 E0].
    (* against the rebuilt problem *)
    assert (Ck1 : cons_ok (p_cons (rebuilt_of p)) = true) by exact Hck.
    destruct (mapM_attach_ok (rebuilt_of p) sols Ck1 Nm) as [outs E1].
    exists outs. split; [|apply mapM_attach_same; exact E1].
    unfold decode, enc_algo_tree. fold p sols. rewrite dec_obj. cbn [dec_fields].
    rewrite dec_algorithm_dict. cbn [rbind fst snd].
    rewrite dec_problem_dict. cbn [rbind fst snd].
    rewrite dec_arr, dec_list_enc_sols by exact Of.
    rewrite (load_sols_none sols _ _ _ Sh).
    assert (R : forall st l0, mapM (attach p0) sols = Ok l0 ->
              hook false true [("algorithm"%string, PDict F [("name"%string, PStr F (a_name F a)); ("nfe"%string, PInt F (a_nfe F a))]);
                               ("problem"%string, PDict F (problem_dict p));
                               ("result"%string, PList F (map (PSol F) l0))] st =
              Ok (Some (rebuilt_of p), PList F (map (PSol F) outs))).
    { intros st l0 El0. rewrite hook_algorithm_new. rewrite !p_size_of_nat. cbn [rbind].
      rewrite assign_dirs_enc by exact Hd. cbn [rbind].
      rewrite assign_cons_enc by assumption. cbn [rbind].
      change (mkProblem Rebuilt "Problem" (p_nvars p) (p_nobjs p) (p_nconstrs p) None (repeat None (p_nvars p)) (p_dirs p) (p_cons p))
        with (rebuilt_of p).
      cbv zeta. rewrite (reattach_attach p0 (rebuilt_of p) sols l0 El0). rewrite E1. reflexivity. }
    destruct sols as [|s r] eqn:Es.
    - cbn [rbind fst snd map]. simpl in E1. inversion E1; subst outs.
      apply (R None []). reflexivity.
    - rewrite <- Es in *. fold p0. rewrite E0. cbn [rbind fst snd]. apply R. exact E0.
  Qed.

  Lemma decode_algorithm_some : forall a q, wf_algo a = true ->
    wf_supplied (p_nvars (a_problem F a)) (p_nobjs (a_problem F a)) (p_nconstrs (a_problem F a)) (Some q) = true ->
    exists outs,
      decode F fv cparse cfun false (Some q) (enc_algo_tree a) = Ok (Some q, PList F (map (PSol F) outs)) /\
      Forall2 (same_as q) (a_result F a) outs.
  Proof.
    intros a q Hw Hq. unfold wf_algo in Hw. apply andb_true_iff in Hw as [Hp Hs].
    set (p := a_problem F a) in *. set (sols := a_result F a) in *.
    destruct (wf_sols_parts _ _ _ _ Hs) as (Sh & Of & Nm & _).
    simpl in Hq. apply andb_true_iff in Hq as [Hq1 Hq2].
    destruct (mapM_attach_ok q sols Hq2 Nm) as [outs E].
    exists outs. split; [|apply mapM_attach_same; exact E].
    unfold decode, enc_algo_tree. fold p sols. rewrite dec_obj. cbn [dec_fields].
    rewrite dec_algorithm_dict. cbn [rbind fst snd].
    rewrite dec_problem_dict. cbn [rbind fst snd].
    rewrite dec_arr, dec_list_enc_sols by exact Of.
    rewrite (load_sols_some sols q _ _ _ Hq1 Sh). rewrite E. cbn [rbind fst snd].
    apply hook_algorithm_supplied.
  Qed.
End RoundTrip.

(* ------------------------------------------------------------------ *)
(* file-level round trips: load_json (save_json x)                    *)
(* ------------------------------------------------------------------ *)
Definition algo_roundtrip_stmt (F T : Type) (fv : F -> option xq) (cparse : string -> option (js_cop * xq))
  (cfun : Z -> js_fval -> js_fval) (pr : F -> T) (pa : T -> F) (old : bool) (a : algo F) : Prop :=
  exists outs,
    save_then_load F fv cparse cfun T pr pa old None (SvAlgorithm F a)
      = Ok (Some (rebuilt_of (a_problem F a)), PList F (map (PSol F) outs)) /\
    Forall2 (same_as F fv cparse cfun (rebuilt_of (a_problem F a))) (a_result F a) outs.

Section Files.
  Variables F T : Type.
  Variable fv : F -> option xq.
  Variable cparse : string -> option (js_cop * xq).
  Variable cfun : Z -> js_fval -> js_fval.
  Variable pr : F -> T.
  Variable pa : T -> F.
  Hypothesis RT : forall f, fv f <> None -> pa (pr f) = f.
  Hypothesis H0 : cparse "==0" <> None.
  Notation psol := (psol F).
  Notation nonan := (nonan F fv).

  Lemma nonan_sol_array : forall nv no nc sols, wf_sols F fv nv no nc sols = true ->
    nonan (JArr (map (enc_sol F) sols)) = true.
  Proof.
    intros nv no nc sols H. destruct (wf_sols_parts F fv nv no nc sols H) as (_ & _ & _ & D). exact D.
  Qed.

  Lemma nonan_enc_problem : forall p, nonan (enc_problem_tree F p) = true.
  Proof.
    intros p. unfold JsonProofs.nonan, enc_problem_tree. cbn [jall forallb].
    assert (A : forall l, forallb (jall (fun f : F => is_some (fv f))) (map (opt_str F) l) = true)
      by (induction l as [|[s|] r IH]; simpl; auto).
    assert (B : forallb (jall (fun f : F => is_some (fv f))) (map (fun d => JStr (dir_name d)) (p_dirs p)) = true)
      by (induction (p_dirs p); simpl; auto).
    assert (C : forallb (jall (fun f : F => is_some (fv f))) (map (fun c => JStr (decl_text c)) (p_cons p)) = true)
      by (induction (p_cons p); simpl; auto).
    rewrite A, B, C. destruct (p_function p); reflexivity.
  Qed.

  Lemma load_save : forall old sup x, saveable F x = true -> nonan (encode_tree F x) = true ->
    save_then_load F fv cparse cfun T pr pa old sup x = decode F fv cparse cfun old sup (encode_tree F x).
  Proof.
    intros old sup x Hs H. unfold save_then_load, save_json, load_json_gen. rewrite (encode_ok F x Hs). cbn [rbind].
    rewrite (jmap_roundtrip F T fv pr pa RT) by exact H. reflexivity.
  Qed.

  (* written from a Python list *)
  Lemma json_roundtrip_list : forall sup sols nv no nc,
    wf_sols F fv nv no nc sols = true -> wf_supplied cparse nv no nc sup = true ->
    exists st outs,
      save_then_load F fv cparse cfun T pr pa false sup (SvList F sols) = Ok (st, PList F (map (PSol F) outs)) /\
      Forall2 (same_as F fv cparse cfun (load_problem sup nv no nc)) sols outs /\
      (sols <> [] -> st = Some (load_problem sup nv no nc)).
  Proof.
    intros sup sols nv no nc Hw Hs.
    rewrite load_save by (try reflexivity; apply (nonan_sol_array nv no nc); exact Hw).
    apply decode_sol_array; assumption.
  Qed.

  (* written from an Archive *)
  Lemma json_roundtrip_archive : forall sup sols nv no nc,
    wf_sols F fv nv no nc sols = true -> wf_supplied cparse nv no nc sup = true ->
    exists st outs,
      save_then_load F fv cparse cfun T pr pa false sup (SvArchive F sols) = Ok (st, PList F (map (PSol F) outs)) /\
      Forall2 (same_as F fv cparse cfun (load_problem sup nv no nc)) sols outs /\
      (sols <> [] -> st = Some (load_problem sup nv no nc)).
  Proof.
    intros sup sols nv no nc Hw Hs.
    rewrite load_save by (try reflexivity; apply (nonan_sol_array nv no nc); exact Hw).
    apply decode_sol_array; assumption.
  Qed.

  Lemma wf_algo_saveable : forall a, wf_algo F fv cparse a = true -> saveable F (SvAlgorithm F a) = true.
  Proof.
    intros a H. unfold wf_algo in H. apply andb_true_iff in H as [Hp _].
    unfold wf_problem in Hp. apply andb_true_iff in Hp as [_ Hd]. exact Hd.
  Qed.

  Lemma nonan_enc_algo : forall a, wf_algo F fv cparse a = true -> nonan (encode_tree F (SvAlgorithm F a)) = true.
  Proof.
    intros a H. unfold wf_algo in H. apply andb_true_iff in H as [_ Hs].
    pose proof (nonan_sol_array _ _ _ _ Hs) as N. pose proof (nonan_enc_problem (a_problem F a)) as P.
    unfold JsonProofs.nonan in *. cbn [encode_tree enc_algo_tree jall forallb] in *. rewrite P, N. reflexivity.
  Qed.

  (* written from a live algorithm, no problem supplied on load: the saved problem is rebuilt,
     every solution is attached to it, violation/feasibility are recomputed against the SAVED constraints *)
  Lemma json_roundtrip_algorithm : forall a, wf_algo F fv cparse a = true ->
    algo_roundtrip_stmt F T fv cparse cfun pr pa false a.
  Proof.
    intros a H. unfold algo_roundtrip_stmt.
    rewrite load_save by (try apply wf_algo_saveable; try apply nonan_enc_algo; exact H).
    apply decode_algorithm_none; assumption.
  Qed.

  (* an algorithm whose problem declares a constraint by a function cannot be written at all (TypeError) *)
  Lemma json_algorithm_callable_raises : forall old sup a, all_dop (p_cons (a_problem F a)) = false ->
    save_then_load F fv cparse cfun T pr pa old sup (SvAlgorithm F a) = Err EType.
  Proof.
    intros old sup a H. unfold save_then_load, save_json. rewrite (encode_callable_raises F a H). reflexivity.
  Qed.

  (* the rebuilt problem has the saved shape, directions and constraint declarations *)
  Lemma rebuilt_of_spec : forall p,
    p_origin (rebuilt_of p) = Rebuilt /\
    p_nvars (rebuilt_of p) = p_nvars p /\ p_nobjs (rebuilt_of p) = p_nobjs p /\ p_nconstrs (rebuilt_of p) = p_nconstrs p /\
    p_dirs (rebuilt_of p) = p_dirs p /\ p_cons (rebuilt_of p) = p_cons p.
  Proof. intros p. repeat split; reflexivity. Qed.

  (* written from a live algorithm, problem supplied on load: the supplied problem is used *)
  Lemma json_roundtrip_algorithm_supplied : forall a q, wf_algo F fv cparse a = true ->
    wf_supplied cparse (p_nvars (a_problem F a)) (p_nobjs (a_problem F a)) (p_nconstrs (a_problem F a)) (Some q) = true ->
    exists outs,
      save_then_load F fv cparse cfun T pr pa false (Some q) (SvAlgorithm F a) = Ok (Some q, PList F (map (PSol F) outs)) /\
      Forall2 (same_as F fv cparse cfun q) (a_result F a) outs.
  Proof.
    intros a q H Hq.
    rewrite load_save by (try apply wf_algo_saveable; try apply nonan_enc_algo; exact H).
    apply decode_algorithm_some; assumption.
  Qed.

  (* ---------------- objectives text file ---------------- *)
  Variable opr : F -> T.
  Variable opa : T -> F.
  Hypothesis ORT : forall f, fv f <> None -> opa (opr f) = f.

  Definition is_float (j : jvalue F) : bool := match j with JNum f => is_some (fv f) | _ => false end.
  Definition wf_objs (no : nat) (s : psol) : bool :=
    Nat.eqb (List.length (ps_objs F s)) no && forallb is_float (ps_objs F s).

  Lemma obj_line : forall objs, forallb is_float objs = true ->
    exists line, mapM (obj_token F T opr) objs = Ok line /\
                 map (fun t => JNum (opa t)) line = objs /\ List.length line = List.length objs.
  Proof.
    induction objs as [|j r IH]; intros H; [exists []; repeat split|].
    simpl in H. apply andb_true_iff in H as [Hj Hr]. destruct (IH Hr) as (line & E & M & L).
    destruct j; simpl in Hj; try discriminate.
    exists (opr n :: line). cbn [mapM obj_token rbind]. rewrite E. cbn [rbind map List.length].
    repeat split; [|congruence].
    rewrite M, ORT; [reflexivity|]. destruct (fv n); [discriminate|discriminate Hj].
  Qed.

  Lemma load_objectives_some : forall sols p no, (1 <= no)%nat -> p_nobjs p = no ->
    forallb (wf_objs no) sols = true ->
    exists lines, save_objectives F T opr sols = Ok lines /\
      load_objectives_loop F T opa lines (Some p) = map (fun s => mkOSol F p (ps_objs F s)) sols.
  Proof.
    induction sols as [|s r IH]; intros p no Hn Hp H; [exists []; split; reflexivity|].
    simpl in H. apply andb_true_iff in H as [Hs Hr].
    unfold wf_objs in Hs. apply andb_true_iff in Hs as [Hl Hf]. apply Nat.eqb_eq in Hl.
    destruct (obj_line _ Hf) as (line & E & M & L).
    destruct (IH p no Hn Hp Hr) as (lines & E2 & L2).
    exists (line :: lines). unfold save_objectives in *. cbn [mapM]. rewrite E. cbn [rbind]. rewrite E2. cbn [rbind].
    split; [reflexivity|].
    destruct line as [|t ts]; [simpl in L; lia|].
    cbn [load_objectives_loop]. rewrite L2. cbn [map]. f_equal. f_equal.
    unfold fla_assign. change (JNum (opa t) :: map (fun t0 => JNum (opa t0)) ts) with (map (fun t0 => @JNum F (opa t0)) (t :: ts)).
    rewrite M. rewrite Hp, Hl, Nat.eqb_refl. reflexivity.
  Qed.

  Lemma objectives_roundtrip : forall sup sols no, (1 <= no)%nat ->
    forallb (wf_objs no) sols = true ->
    match sup with Some p => p_nobjs p = no | None => True end ->
    exists lines, save_objectives F T opr sols = Ok lines /\
      load_objectives F T opa sup lines =
        map (fun s => mkOSol F (match sup with Some p => p | None => new_problem Placeholder 0 no 0 end) (ps_objs F s)) sols.
  Proof.
    intros [p|] sols no Hn H Hp; unfold load_objectives.
    - apply (load_objectives_some sols p no); assumption.
    - destruct sols as [|s r]; [exists []; split; reflexivity|].
      destruct (load_objectives_some (s :: r) (new_problem Placeholder 0 no 0) no Hn eq_refl H) as (lines & E & L).
      exists lines. split; [exact E|]. rewrite <- L.
      (* the first line creates exactly that placeholder *)
      simpl in H. apply andb_true_iff in H as [Hs _].
      unfold wf_objs in Hs. apply andb_true_iff in Hs as [Hl Hf]. apply Nat.eqb_eq in Hl.
      destruct (obj_line _ Hf) as (line & E1 & M & Ln).
      unfold save_objectives in E. cbn [mapM] in E. rewrite E1 in E. cbn [rbind] in E.
      destruct (mapM (fun s0 : psol => mapM (obj_token F T opr) (ps_objs F s0)) r); [|discriminate].
      cbn [rbind] in E. inversion E; subst lines.
      destruct line as [|t ts]; [simpl in Ln; lia|].
      cbn [load_objectives_loop]. rewrite map_length.
      replace (List.length (t :: ts)) with no by congruence. reflexivity.
  Qed.

  (* a solution without objectives is written as a blank line, which the loader skips: nothing comes back *)
  Lemma objectives_roundtrip_zero_objs : forall sup sols, forallb (wf_objs 0) sols = true ->
    exists lines, save_objectives F T opr sols = Ok lines /\ load_objectives F T opa sup lines = [].
  Proof.
    intros sup sols. unfold load_objectives. generalize sup as st.
    induction sols as [|s r IH]; intros st H; [exists []; split; reflexivity|].
    simpl in H. apply andb_true_iff in H as [Hs Hr]. destruct (IH st Hr) as (lines & E & L).
    unfold wf_objs in Hs. apply andb_true_iff in Hs as [Hl _]. apply Nat.eqb_eq in Hl.
    destruct (ps_objs F s) eqn:Eo; [|discriminate].
    exists ([] :: lines). unfold save_objectives in *. cbn [mapM]. rewrite Eo. cbn [mapM rbind]. rewrite E. cbn [rbind].
    split; [reflexivity|]. cbn [load_objectives_loop]. exact L.
  Qed.
End Files.

(* ------------------------------------------------------------------ *)
(* feasibility = every declared relation holds (exact arithmetic)     *)
(* ------------------------------------------------------------------ *)
Section Feasible.
  Local Open Scope Q_scope.


  Definition nonneg (v : js_fval) : Prop :=
    match v with None => True | Some a => xleb xzero a = true end.

  Lemma xeqb_fin_zero : forall q, xeqb (Fin q) xzero = Qle_bool 0 q && Qle_bool q 0.
  Proof. intros q. unfold xeqb, xltb, xzero, Qltb. rewrite !negb_involutive. reflexivity. Qed.
  Lemma xleb_zero_fin : forall q, xleb xzero (Fin q) = Qle_bool 0 q.
  Proof. intros q. unfold xleb, xltb, xzero, Qltb. rewrite negb_involutive. reflexivity. Qed.
  Lemma fzero_fin : forall q, js_fzero (Some (Fin q)) = Qle_bool 0 q && Qle_bool q 0.
  Proof. intros q. apply xeqb_fin_zero. Qed.

  Lemma nonneg_fin : forall q, nonneg (Some (Fin q)) <-> 0 <= q.
  Proof.
    intros q. unfold nonneg, xleb, xltb, xzero, Qltb. rewrite negb_involutive. apply Qle_bool_iff.
  Qed.

  Lemma beq_iff : forall a b : bool, (a = true <-> b = true) -> a = b.
  Proof.
    intros [] [] [H1 H2]; try reflexivity.
    - symmetry; apply H1; reflexivity.
    - apply H2; reflexivity.
  Qed.

  Lemma fadd_zero : forall a b, nonneg a -> nonneg b ->
    js_fzero (js_fadd a b) = js_fzero a && js_fzero b /\ nonneg (js_fadd a b).
  Proof.
    intros [[|x|]|] [[|y|]|] Ha Hb; simpl in *; try discriminate; try (split; [reflexivity | exact I || reflexivity]);
      try (split; [symmetry; apply andb_false_r | exact I || reflexivity]).
    apply nonneg_fin in Ha. apply nonneg_fin in Hb.
    split.
    - rewrite !xeqb_fin_zero. apply beq_iff. rewrite !andb_true_iff, !Qle_bool_iff. split; intros; repeat split; lra.
    - rewrite xleb_zero_fin. apply Qle_bool_iff. lra.
  Qed.

  Lemma js_sum_zero_acc : forall ts acc, Forall nonneg ts -> nonneg acc ->
    js_fzero (fold_left js_fadd ts acc) = js_fzero acc && forallb js_fzero ts.
  Proof.
    induction ts as [|t r IH]; intros acc Hts Hacc; simpl; [rewrite andb_true_r; reflexivity|].
    inversion Hts; subst. destruct (fadd_zero acc t Hacc H1) as [Z N].
    rewrite IH by assumption. rewrite Z. rewrite andb_assoc. reflexivity.
  Qed.

  Lemma js_sum_zero : forall ts, Forall nonneg ts -> js_fzero (js_sum ts) = forallb js_fzero ts.
  Proof.
    intros ts H. unfold js_sum. rewrite js_sum_zero_acc; [reflexivity | exact H | reflexivity].
  Qed.

  Lemma fabs_nonneg : forall v, nonneg (js_fabs v).
  Proof.
    intros [[|q|]|]; simpl; try reflexivity; try exact I.
    apply nonneg_fin. apply Qabs_nonneg.
  Qed.

  Lemma delta_pos : exists d, js_delta = Fin d /\ 0 < d.
  Proof. eexists. split; [reflexivity|]. vm_compute. reflexivity. Qed.

  Lemma Qabs_zero_iff : forall q, Qabs q <= 0 <-> q == 0.
  Proof.
    intros q. split; intros H.
    - apply Qabs_Qle_condition in H. lra.
    - rewrite H. vm_compute. discriminate.
  Qed.

  Lemma fzero_abs_fin : forall q, js_fzero (Some (Fin (Qabs q))) = Qeq_bool q 0.
  Proof.
    intros q. rewrite fzero_fin. apply beq_iff. rewrite andb_true_iff, !Qle_bool_iff, Qeq_bool_iff.
    pose proof (Qabs_nonneg q). pose proof (Qabs_zero_iff q). tauto.
  Qed.

  Lemma Qeq_bool_abs : forall z, Qeq_bool (Qabs z) 0 = Qeq_bool z 0.
  Proof.
    intros z. apply beq_iff. rewrite !Qeq_bool_iff. pose proof (Qabs_nonneg z). pose proof (Qabs_zero_iff z).
    split; intros E; [apply H0; lra | apply H0 in E; lra].
  Qed.

  Lemma js_fzero_fabs : forall w, js_fzero (js_fabs w) = js_fzero w.
  Proof.
    intros [[|q|]|]; try reflexivity. unfold js_fabs, js_xabs. rewrite fzero_abs_fin, fzero_fin.
    apply beq_iff. rewrite andb_true_iff, !Qle_bool_iff, Qeq_bool_iff. split; intros; [split|]; lra.
  Qed.

  (* one term of the sum is zero exactly when the declared relation holds (finite threshold) *)
  Lemma js_term_zero_iff : forall op q x, js_fzero (js_fabs (js_cfun op (Fin q) x)) = js_holds op (Fin q) x.
  Proof.
    destruct delta_pos as (d & Ed & Hd).
    intros op q [[|a|]|]; destruct op; try reflexivity;
      unfold js_cfun, js_holds, js_fleb, js_fgeb, js_fltb, js_fgtb, js_feqb, js_fsub, xneg, xadd.
    - (* == *)
      unfold js_fabs, js_xabs. rewrite fzero_abs_fin, Qeq_bool_abs. unfold xeqb, xltb, Qltb. rewrite !negb_involutive.
      apply beq_iff. rewrite andb_true_iff, !Qle_bool_iff, Qeq_bool_iff. split; intros; [split|]; lra.
    - (* <= *)
      unfold xleb, xltb, Qltb. rewrite negb_involutive.
      destruct (Qle_bool a q) eqn:E; [reflexivity|].
      unfold js_fabs, js_xabs. rewrite fzero_abs_fin, Qeq_bool_abs. apply not_true_is_false. intros C.
      apply Qeq_bool_iff in C. assert (a <= q) by lra. apply Qle_bool_iff in H. congruence.
    - (* >= *)
      unfold xleb, xltb, Qltb. rewrite negb_involutive.
      destruct (Qle_bool q a) eqn:E; [reflexivity|].
      unfold js_fabs, js_xabs. rewrite fzero_abs_fin, Qeq_bool_abs. apply not_true_is_false. intros C.
      apply Qeq_bool_iff in C. assert (q <= a) by lra. apply Qle_bool_iff in H. congruence.
    - (* != *)
      destruct (negb (xeqb (Fin a) (Fin q))); reflexivity.
    - (* < *)
      unfold xltb, Qltb. destruct (Qle_bool q a) eqn:E; [|reflexivity]. simpl negb. cbv iota.
      rewrite Ed. unfold js_fabs, js_fadd, js_xabs, xadd. rewrite fzero_abs_fin.
      apply not_true_is_false. intros C. apply Qeq_bool_iff in C.
      pose proof (Qabs_nonneg (a + - q)). lra.
    - (* > *)
      unfold xltb, Qltb. destruct (Qle_bool a q) eqn:E; [|reflexivity]. simpl negb. cbv iota.
      rewrite Ed. unfold js_fabs, js_fadd, js_xabs, xadd. rewrite fzero_abs_fin.
      apply not_true_is_false. intros C. apply Qeq_bool_iff in C.
      pose proof (Qabs_nonneg (a + - q)). lra.
  Qed.
End Feasible.

Section FeasibleViol.
  Variable F : Type.
  Variable fv : F -> option xq.
  Variable cparse : string -> option (js_cop * xq).
  Variable cfun : Z -> js_fval -> js_fval.

  (* what one (declaration, value) pair demands: the operator's relation, or - for a callable - that it returns 0
     ("any non-zero value is a violation"); false when it cannot be evaluated *)
  Definition pair_holds (c : cdecl) (x : jvalue F) : bool :=
    match c, js_numval F fv x with
    | DOp s, Ok v => match cparse s with Some (op, y) => js_holds op y v | None => false end
    | DFun k, Ok v => js_fzero (cfun k v)
    | _, Err _ => false
    end.
  Definition finite_thresholds (cs : list cdecl) : Prop :=
    forall s op y, In (DOp s) cs -> cparse s = Some (op, y) -> exists q, y = Fin q.

  (* solution.feasible (violation == 0.0) holds exactly when every declaration is satisfied *)
  Lemma js_feasible_iff : forall cs xs v, finite_thresholds cs ->
    js_viol F fv cparse cfun cs xs = Ok v ->
    js_fzero v = forallb (fun p => pair_holds (fst p) (snd p)) (combine cs xs).
  Proof.
    intros cs xs v Hfin H. unfold js_viol in H.
    destruct (js_terms F fv cparse cfun cs xs) as [ts|e] eqn:E; [|discriminate]. simpl in H. inversion H; subst v. clear H.
    assert (A : Forall nonneg ts /\ forallb js_fzero ts = forallb (fun p => pair_holds (fst p) (snd p)) (combine cs xs)).
    { revert xs ts E. induction cs as [|c cs IH]; intros xs ts E.
      - simpl in E. inversion E. split; [constructor|reflexivity].
      - destruct xs as [|x xs]; [simpl in E; inversion E; split; [constructor|reflexivity]|].
        cbn [js_terms] in E. unfold js_term in E.
        assert (Hfin' : finite_thresholds cs) by (intros s0 op0 y0 Hin; apply (Hfin s0 op0 y0); right; exact Hin).
        destruct c as [s|k].
        + destruct (cparse s) as [[op y]|] eqn:Ec; [|discriminate].
          destruct (js_numval F fv x) as [vx|e] eqn:Ex; [|discriminate]. cbn [rbind] in E.
          destruct (js_terms F fv cparse cfun cs xs) as [ts'|e] eqn:E'; [|discriminate]. cbn [rbind] in E. inversion E; subst ts.
          destruct (IH Hfin' xs ts' E') as [N Z].
          split; [constructor; [apply fabs_nonneg|exact N]|].
          cbn [combine forallb fst snd]. f_equal; [|exact Z]. unfold pair_holds. rewrite Ec, Ex.
          destruct (Hfin s op y (or_introl eq_refl) Ec) as [q Eq]. subst y.
          apply js_term_zero_iff.
        + destruct (js_numval F fv x) as [vx|e] eqn:Ex; [|discriminate]. cbn [rbind] in E.
          destruct (js_terms F fv cparse cfun cs xs) as [ts'|e] eqn:E'; [|discriminate]. cbn [rbind] in E. inversion E; subst ts.
          destruct (IH Hfin' xs ts' E') as [N Z].
          split; [constructor; [apply fabs_nonneg|exact N]|].
          cbn [combine forallb fst snd]. f_equal; [|exact Z]. unfold pair_holds. rewrite Ex.
          apply js_fzero_fabs. }
    destruct A as [N Z]. rewrite js_sum_zero by exact N. exact Z.
  Qed.
End FeasibleViol.

(* ------------------------------------------------------------------ *)
(* the executable instance (float token = IEEE bit pattern, printing  *)
(* and parsing = identity), non-vacuity, and the pre-repair decoder   *)
(* ------------------------------------------------------------------ *)
Definition xid (z : Z) : Z := z.

Lemma inst_RT : forall f : Z, f64_val f <> None -> xid (xid f) = f.
Proof. reflexivity. Qed.

Definition ex_tab : list (string * (js_cop * xq)) :=
  [ ("==0"%string, (JsEq, xzero)); ("<=0.5"%string, (JsLeq, F 1 (-1))) ].
Definition ex_cparse := ctab_lookup ex_tab.

Lemma inst_H0 : ex_cparse "==0" <> None.
Proof. discriminate. Qed.

(* test callables of the instance: key 0 = lambda x: x - 0.25, key 1 = lambda x: x *)
Definition ex_cfun := ftab_lookup [ (0, (0, F 1 (-2))); (1, (3, xzero)) ].
(* canonical form of a violation value for stating examples (Q is not normalised) *)
Definition js_fval_same (a : js_fval) : option (option Q) :=
  match a with
  | None => None
  | Some (Fin q) => Some (Some (Qred q))
  | Some _ => Some None
  end.

(* bit patterns: 0.25, 0.75, 1.5, 2.0, -0.0, +inf *)
Definition b_quarter := 4598175219545276416.
Definition b_3quarter := 4604930618986332160.
Definition b_1half := 4609434218613702656.
Definition b_two := 4611686018427387904.
Definition b_negzero := 9223372036854775808.
Definition b_inf := 9218868437227405312.

(* a live algorithm on a problem built from a function f, one MAXIMISED objective, constraint "<=0.5";
   first solution: constraint value 0.25 (feasible for "<=0.5", not for "==0"), second: 0.75 *)
Definition ex_problem : problem :=
  mkProblem Supplied "Problem" 1 1 1 (Some "f"%string) [Some "Real(0.000000, 1.000000)"%string] [Maximize] [DOp "<=0.5"].
Definition ex_algo : algo Z :=
  mkAlgo Z "NSGAII" 8 ex_problem
    [ mkSol Z ex_problem [JNum b_quarter] [JNum b_1half] [JNum b_quarter] (Some xzero) true;
      mkSol Z ex_problem [JNum b_3quarter] [JNum b_two] [JNum b_3quarter] (Some (F 1 (-2))) false ].

Definition sols_of (r : res (option problem * pval Z)) : list (psol Z) :=
  match r with
  | Ok (_, PList _ l) => flat_map (fun v => match v with PSol _ s => [s] | _ => [] end) l
  | _ => []
  end.
Notation ex_roundtrip := (save_then_load Z f64_val ex_cparse ex_cfun Z xid xid).

Example ex_algo_wf : wf_algo Z f64_val ex_cparse ex_algo = true.
Proof. vm_compute. reflexivity. Qed.

(* the repaired decoder: problem rebuilt with the saved direction/constraint, feasibility w.r.t. "<=0.5" *)
Example ex_algo_repaired :
  exists outs,
    ex_roundtrip false None (SvAlgorithm Z ex_algo)
      = Ok (Some (rebuilt_of ex_problem), PList Z (map (PSol Z) outs)) /\
    map (ps_feas Z) outs = [true; false] /\
    p_dirs (rebuilt_of ex_problem) = [Maximize] /\ p_cons (rebuilt_of ex_problem) = [DOp "<=0.5"].
Proof.
  exists (sols_of (ex_roundtrip false None (SvAlgorithm Z ex_algo))).
  split; [vm_compute; reflexivity | repeat split].
Qed.

(* the decoder before fix dc48d2e: the placeholder created by the first inner solution wins -
   MINIMIZE, "==0", and the first solution is reported infeasible *)
Example ex_algo_old_decoder :
  exists outs,
    ex_roundtrip true None (SvAlgorithm Z ex_algo)
      = Ok (Some (new_problem Placeholder 1 1 1), PList Z (map (PSol Z) outs)) /\
    map (ps_feas Z) outs = [false; false] /\
    p_dirs (new_problem Placeholder 1 1 1) = [Minimize] /\ p_cons (new_problem Placeholder 1 1 1) = [DOp "==0"].
Proof.
  exists (sols_of (ex_roundtrip true None (SvAlgorithm Z ex_algo))).
  split; [vm_compute; reflexivity | repeat split].
Qed.

Lemma json_decoder_old_refuted :
  exists a, wf_algo Z f64_val ex_cparse a = true /\
            ~ algo_roundtrip_stmt Z Z f64_val ex_cparse ex_cfun xid xid true a.
Proof.
  exists ex_algo. split; [exact ex_algo_wf|].
  intros [outs [E _]]. vm_compute in E. discriminate E.
Qed.

(* non-vacuity of the list/archive theorems: Binary/Integer bits, a string permutation, an int
   permutation, +inf objective, -0.0 constraint value; with and without a supplied problem *)
Definition ex_sols : list (psol Z) :=
  [ mkSol Z ex_problem [JArr [JBool true; JBool false]; JArr [JStr "b"; JStr "a"]; JArr [JInt 2; JInt 0; JInt 1]; JNum b_quarter]
      [JNum b_inf; JNum b_negzero] [JNum b_negzero] (Some xzero) true;
    mkSol Z ex_problem [JArr [JBool false; JBool false]; JArr [JStr "a"; JStr "b"]; JArr [JInt 0; JInt 1; JInt 2]; JNum b_two]
      [JNum b_1half; JNum b_two] [JNum b_3quarter] (Some xzero) true ].
Definition ex_supplied : problem :=
  mkProblem Supplied "Problem" 4 2 1 None [None; None; None; None] [Minimize; Maximize] [DOp "<=0.5"].
(* a supplied problem whose constraint is declared by a function: key 0 = lambda x: x - 0.25 (signed) *)
Definition ex_supplied_fn : problem :=
  mkProblem Supplied "Problem" 4 2 1 None [None; None; None; None] [Minimize; Maximize] [DFun 0].

Example ex_sols_wf : wf_sols Z f64_val 4 2 1 ex_sols = true /\ wf_sols Z f64_val 4 2 1 [] = true /\
  wf_supplied ex_cparse 4 2 1 None = true /\ wf_supplied ex_cparse 4 2 1 (Some ex_supplied) = true /\
  wf_supplied ex_cparse 4 2 1 (Some ex_supplied_fn) = true.
Proof. vm_compute. repeat split. Qed.

Example ex_sols_feasibility :
  exists st outs,
    ex_roundtrip false (Some ex_supplied) (SvList Z ex_sols)
      = Ok (st, PList Z (map (PSol Z) outs)) /\ map (ps_feas Z) outs = [true; false].
Proof.
  exists (Some ex_supplied).
  exists (sols_of (ex_roundtrip false (Some ex_supplied) (SvList Z ex_sols))).
  split; [vm_compute; reflexivity | reflexivity].
Qed.

(* callable declaration x - 0.25 on constraint values -0.0 and 0.75: the callable returns -0.25 and +0.5, the
   violations are |-0.25| = 0.25 and 0.5 (never negative, no cancellation) *)
Example ex_sols_callable :
  exists st outs,
    ex_roundtrip false (Some ex_supplied_fn) (SvList Z ex_sols)
      = Ok (st, PList Z (map (PSol Z) outs)) /\
    map (ps_feas Z) outs = [false; false] /\
    map (fun o => js_fval_same (ps_cv Z o)) outs = map js_fval_same [Some (F 1 (-2)); Some (F 1 (-1))].
Proof.
  exists (Some ex_supplied_fn).
  exists (sols_of (ex_roundtrip false (Some ex_supplied_fn) (SvList Z ex_sols))).
  split; [vm_compute; reflexivity | split; reflexivity].
Qed.

(* an algorithm whose problem declares a constraint by a function cannot be written: TypeError *)
Example ex_callable_algorithm_raises :
  ex_roundtrip false None (SvAlgorithm Z (mkAlgo Z "NSGAII" 8 ex_supplied_fn [])) = Err EType.
Proof. reflexivity. Qed.

Example ex_objs_wf : forallb (wf_objs Z f64_val 2) ex_sols = true.
Proof. vm_compute. reflexivity. Qed.

(* non-vacuity of js_feasible_iff: finite thresholds, a feasible and an infeasible value vector, with a callable among them *)
Example ex_feasible_iff :
  finite_thresholds ex_cparse [DOp "==0"; DOp "<=0.5"; DFun 0] /\
  (exists v, js_viol Z f64_val ex_cparse ex_cfun [DOp "==0"; DOp "<=0.5"; DFun 0] [JNum b_negzero; JNum b_quarter; JNum b_quarter] = Ok v /\ js_fzero v = true) /\
  (exists v, js_viol Z f64_val ex_cparse ex_cfun [DOp "==0"; DOp "<=0.5"; DFun 0] [JNum b_negzero; JNum b_quarter; JNum b_negzero] = Ok v /\ js_fzero v = false).
Proof.
  split; [|split; eexists; split; vm_compute; reflexivity].
  intros s op y [H|[H|[H|[]]]] E; inversion H; subst s; vm_compute in E; inversion E; subst; eexists; reflexivity.
Qed.
