(* Proofs/AlgSkeletonProofs.v — the skeleton invariants (C01 theorem 3, C07) and the
   soundness of the executable trace checker. *)
From Coq Require Import ZArith Bool List Lia Sorting.Permutation.
Import ListNotations.
From PV Require Import Model.Evaluate Model.AlgSkeleton Proofs.EvaluateProofs.
Open Scope Z_scope.

Section SkeletonProofs.
  Variable Val : Type.
  Variable Num : Type.
  Variable Ty  : Type.
  Variable decode : Ty -> Val -> Val.
  Variable encode : Ty -> Val -> Val.
  Variable F : list Val -> list Num * list Num.
  Variable C : list (Num -> Num).
  Variable nabs : Num -> Num.
  Variable nadd : Num -> Num -> Num.
  Variable nzero : Num.
  Variable niszero : Num -> bool.
  Variable types : list Ty.
  Variable val_eqb : Val -> Val -> bool.
  Variable num_eqb : Num -> Num -> bool.

  Hypothesis roundtrip : forall t v, In t types -> decode t (encode t (decode t v)) = decode t v.
  Hypothesis val_eqb_sound : forall a b, val_eqb a b = true -> a = b.
  Hypothesis num_eqb_sound : forall a b, num_eqb a b = true -> a = b.

  Notation sol := (sol Val Num).
  Notation problem_call := (problem_call Val Num Ty decode encode F C nabs nadd nzero niszero types).
  Notation evaluate_all := (evaluate_all Val Num).
  Notation ev_inplace := (ev_inplace Val Num Ty decode encode F C nabs nadd nzero niszero types).
  Notation ev_spec := (ev_spec Val Num Ty decode encode F C nabs nadd nzero niszero types).
  Notation deepcopy := (deepcopy Val Num).
  Notation decode_vars := (decode_vars Val Ty decode types).
  Notation encode_vars := (encode_vars Val Ty encode types).
  Notation viol := (viol Num C nabs nadd nzero).
  Notation Good := (Good Val Num Ty decode F C nabs nadd nzero niszero types).
  Notation Safe := (Safe Val Num Ty decode F C nabs nadd nzero niszero types).
  Notation same_fields := (same_fields Val Num).
  Notation flag_discipline := (flag_discipline Val Num).
  Notation produced := (produced Val Num).
  Notation batch_ok := (batch_ok Val Num).
  Notation batches_ok := (batches_ok Val Num).
  Notation step_ok := (step_ok Val Num).
  Notation steps_ok := (steps_ok Val Num).
  Notation trace_ok := (trace_ok Val Num).
  Notation pool_after := (pool_after Val Num).
  Notation fields_eqb := (fields_eqb Val Num val_eqb num_eqb).
  Notation sol_eqb := (sol_eqb Val Num val_eqb num_eqb).
  Notation produced_b := (produced_b Val Num val_eqb num_eqb).
  Notation produced_all_b := (produced_all_b Val Num val_eqb num_eqb).
  Notation batch_b := (batch_b Val Num Ty decode encode F C nabs nadd nzero niszero types val_eqb num_eqb).
  Notation batches_b := (batches_b Val Num Ty decode encode F C nabs nadd nzero niszero types val_eqb num_eqb).
  Notation step_b := (step_b Val Num Ty decode encode F C nabs nadd nzero niszero types val_eqb num_eqb).
  Notation steps_b := (steps_b Val Num Ty decode encode F C nabs nadd nzero niszero types val_eqb num_eqb).
  Notation accepts := (accepts Val Num Ty decode encode F C nabs nadd nzero niszero types val_eqb num_eqb).
  Notation good_b := (good_b Val Num Ty decode F C nabs nadd nzero niszero types num_eqb).
  Notation safe_b := (safe_b Val Num Ty decode F C nabs nadd nzero niszero types num_eqb).

  Notation ARGS_E lemma := (lemma Val Num Ty decode encode F C nabs nadd nzero niszero types) (only parsing).
  Notation ARGS_D lemma := (lemma Val Num Ty decode F C nabs nadd nzero niszero types) (only parsing).

  (* ---------------- C01: the invariant ---------------- *)
  Lemma good_safe s : Good s -> Safe s.
  Proof. intros G _. exact G. Qed.

  Lemma produced_safe pool s : Forall Safe pool -> produced pool s -> Safe s.
  Proof.
    intros HP H. induction H as [s I|s E|p k _ IH|p c _ IH D].
    - rewrite Forall_forall in HP. now apply HP.
    - intro E'. congruence.
    - now apply (ARGS_D deepcopy_safe).
    - intro E. eapply (ARGS_D same_fields_good); [apply D, E|]. apply IH. destruct (D E) as (_ & _ & _ & _ & _ & Ev). congruence.
  Qed.

  Lemma batch_good ev pool b : ev_spec ev -> Forall Safe pool -> batch_ok ev pool b -> Forall Good (b_after b).
  Proof.
    intros S HP [HB HA]. rewrite HA. apply (ARGS_E evaluate_all_good roundtrip); [exact S|].
    rewrite Forall_forall in *. intros s I. eapply produced_safe; [|apply HB, I]. now apply Forall_forall.
  Qed.

  Lemma forall_good_safe l : Forall Good l -> Forall Safe l.
  Proof. intro H. eapply Forall_impl; [|exact H]. apply good_safe. Qed.

  Lemma batches_safe ev : ev_spec ev -> forall bs pool, Forall Safe pool -> batches_ok ev pool bs ->
    Forall Safe (pool_after pool bs).
  Proof.
    intro S. induction bs as [|b bs IH]; intros pool HP H; simpl in *; [exact HP|].
    destruct H as [Hb Hr]. apply IH; [|exact Hr].
    apply Forall_app. split; [exact HP|]. apply forall_good_safe. eapply batch_good; eauto.
  Qed.

  (* (3) one step of the skeleton: everything exposed afterwards is Good *)
  Theorem step_good ev pool st : ev_spec ev -> Forall Safe pool -> step_ok ev pool st ->
    Forall Good (s_exposed st).
  Proof.
    intros S HP (HB & HI & HE).
    pose proof (batches_safe ev S _ _ HP HB) as HS.
    rewrite Forall_forall in *. intros s I. apply HS; [apply HI, I|apply HE, I].
  Qed.

  Theorem skeleton_invariant ev exposed st : ev_spec ev ->
    Forall Good exposed -> step_ok ev exposed st -> Forall Good (s_exposed st).
  Proof. intros S G. apply step_good; [exact S|now apply forall_good_safe]. Qed.

  (* lifted to every step boundary of every trace *)
  Theorem steps_good ev : ev_spec ev -> forall sts pool, Forall Safe pool -> steps_ok ev pool sts ->
    Forall (fun st => Forall Good (s_exposed st)) sts.
  Proof.
    intro S. induction sts as [|st sts IH]; intros pool HP H; simpl in *; constructor.
    - eapply step_good; [exact S|exact HP|apply H].
    - apply (IH (s_exposed st)); [|apply H]. apply forall_good_safe. eapply step_good; [exact S|exact HP|apply H].
  Qed.

  Theorem trace_good ev t : ev_spec ev -> Forall Safe (t_init t) -> trace_ok ev t ->
    Forall (fun st => Forall Good (s_exposed st)) (t_steps t).
  Proof. intros S HI H. eapply steps_good; eauto. Qed.

  (* init: a run that starts from nothing injected *)
  Corollary trace_good_from_scratch ev sts : ev_spec ev -> steps_ok ev [] sts ->
    Forall (fun st => Forall Good (s_exposed st)) sts.
  Proof. intros S H. eapply steps_good; eauto. Qed.

  (* ---------------- soundness of the checker ---------------- *)
  Lemma list_eqb_sound {A} (eqb : A -> A -> bool) :
    (forall a b, eqb a b = true -> a = b) -> forall a b, list_eqb eqb a b = true -> a = b.
  Proof.
    intros H. induction a as [|x a IH]; intros [|y b] E; simpl in E; try discriminate; [reflexivity|].
    apply andb_true_iff in E as [E1 E2]. f_equal; [now apply H|now apply IH].
  Qed.

  Lemma fields_eqb_sound a b : fields_eqb a b = true -> same_fields a b.
  Proof.
    unfold AlgSkeleton.fields_eqb. intro E.
    repeat (apply andb_true_iff in E as [E ?]).
    repeat split.
    - now apply (list_eqb_sound val_eqb).
    - now apply (list_eqb_sound num_eqb).
    - now apply (list_eqb_sound num_eqb).
    - now apply num_eqb_sound.
    - now apply eqb_prop.
    - now apply eqb_prop.
  Qed.

  Lemma sol_eqb_sound a b : sol_eqb a b = true -> a = b.
  Proof.
    unfold AlgSkeleton.sol_eqb. intro E. apply andb_true_iff in E as [E1 E2].
    apply Nat.eqb_eq in E1. apply fields_eqb_sound in E2 as (H1 & H2 & H3 & H4 & H5 & H6).
    destruct a, b; simpl in *. now subst.
  Qed.

  Lemma produced_b_sound pool s prov : produced_b pool s prov = true -> produced pool s.
  Proof.
    unfold AlgSkeleton.produced_b. intro H. apply orb_true_iff in H as [H|H].
    - apply P_fresh. now apply negb_true_iff.
    - assert (exists q, In q pool /\ fields_eqb s q = true) as (q & I & E).
      { destruct prov as [p|]; apply existsb_exists in H as (q & I & E); exists q; split; auto.
        now apply andb_true_iff in E as [_ E]. }
      apply (P_vary _ _ pool q s); [now apply P_member|]. intros _. now apply fields_eqb_sound.
  Qed.

  Lemma produced_all_b_sound pool : forall ss provs, produced_all_b pool ss provs = true -> Forall (produced pool) ss.
  Proof.
    induction ss as [|s ss IH]; intros provs H; simpl in H; constructor.
    - apply andb_true_iff in H as [H _]. eapply produced_b_sound; eauto.
    - apply andb_true_iff in H as [_ H]. eapply IH; eauto.
  Qed.

  Lemma batch_b_sound pool b : batch_b pool b = true -> batch_ok ev_inplace pool b.
  Proof.
    unfold AlgSkeleton.batch_b. intro H. apply andb_true_iff in H as [H1 H2]. split.
    - eapply produced_all_b_sound; eauto.
    - apply (list_eqb_sound sol_eqb); [apply sol_eqb_sound|exact H2].
  Qed.

  Lemma batches_b_sound : forall bs pool, batches_b pool bs = true -> batches_ok ev_inplace pool bs.
  Proof.
    induction bs as [|b bs IH]; intros pool H; simpl in *; [exact I|].
    apply andb_true_iff in H as [H1 H2]. split; [now apply batch_b_sound|now apply IH].
  Qed.

  Lemma step_b_sound pool st : step_b pool st = true -> step_ok ev_inplace pool st.
  Proof.
    unfold AlgSkeleton.step_b. intro H. apply andb_true_iff in H as [H1 H2].
    rewrite forallb_forall in H2. repeat split.
    - now apply batches_b_sound.
    - intros s I. specialize (H2 s I). apply andb_true_iff in H2 as [_ H2].
      apply existsb_exists in H2 as (q & Iq & E). apply sol_eqb_sound in E. now subst.
    - apply Forall_forall. intros s I. specialize (H2 s I). now apply andb_true_iff in H2 as [H2 _].
  Qed.

  Lemma steps_b_sound : forall sts pool, steps_b pool sts = true -> steps_ok ev_inplace pool sts.
  Proof.
    induction sts as [|st sts IH]; intros pool H; simpl in *; [exact I|].
    apply andb_true_iff in H as [H1 H2]. split; [now apply step_b_sound|now apply IH].
  Qed.

  (* an accepted trace is a trace of the skeleton *)
  Theorem accepts_sound t : accepts t = true -> trace_ok ev_inplace t.
  Proof. apply steps_b_sound. Qed.

  Lemma good_b_sound s : good_b s = true -> Good s.
  Proof.
    unfold AlgSkeleton.good_b. intro E. repeat (apply andb_true_iff in E as [E ?]).
    repeat split.
    - exact E.
    - now apply (list_eqb_sound num_eqb).
    - now apply (list_eqb_sound num_eqb).
    - now apply num_eqb_sound.
    - now apply eqb_prop.
  Qed.

  Lemma safe_b_sound s : safe_b s = true -> Safe s.
  Proof.
    unfold AlgSkeleton.safe_b. intros H E. apply orb_true_iff in H as [H|H].
    - rewrite E in H. discriminate.
    - now apply good_b_sound.
  Qed.

  (* accepted trace + consistent injected solutions => every exposed solution is
     Good at every step boundary *)
  Theorem accepts_good t : accepts t = true -> forallb safe_b (t_init t) = true ->
    Forall (fun st => Forall Good (s_exposed st)) (t_steps t).
  Proof.
    intros A I. apply (trace_good ev_inplace).
    - apply (ARGS_E ev_inplace_spec).
    - apply Forall_forall. intros s Hs. apply safe_b_sound. rewrite forallb_forall in I. now apply I.
    - now apply accepts_sound.
  Qed.

  (* the same trace is a trace of the skeleton for every evaluator that meets the
     contract (copying evaluators included): evaluate_all does not depend on it *)
  Lemma batches_ok_any_ev ev : ev_spec ev -> forall bs pool, batches_ok ev_inplace pool bs -> batches_ok ev pool bs.
  Proof.
    intro S. induction bs as [|b bs IH]; intros pool H; simpl in *; [exact I|].
    destruct H as [[H1 H2] H3]. split; [|now apply IH].
    split; [exact H1|]. rewrite H2. symmetry. now apply (ARGS_E evaluate_all_copy_irrelevant).
  Qed.

  Theorem accepts_sound_any_ev ev t : ev_spec ev -> accepts t = true -> trace_ok ev t.
  Proof.
    intros S A. apply accepts_sound in A. unfold AlgSkeleton.trace_ok in *.
    revert A. generalize (t_init t). induction (t_steps t) as [|st sts IH]; intros pool H; simpl in *; [exact I|].
    destruct H as [(H1 & H2 & H3) H4]. split; [|now apply IH].
    repeat split; [now apply batches_ok_any_ev|exact H2|exact H3].
  Qed.

  (* ---------------- C07 on the same skeleton ---------------- *)
  Variable dom_enc : Ty -> Val -> Prop.
  Variable dom_dec : Ty -> Val -> Prop.
  Variable Op : list sol -> sol -> Prop.
  Notation InDomainEnc := (InDomainEnc Val Ty types dom_enc).
  Notation InDomain := (InDomain Val Ty types dom_dec).
  Notation producedD := (producedD Val Num Op).
  Notation batchD_ok := (batchD_ok Val Num Op).
  Notation batchesD_ok := (batchesD_ok Val Num Op).
  Notation stepD_ok := (stepD_ok Val Num Op).
  Notation stepsD_ok := (stepsD_ok Val Num Op).
  Notation calls_of := (calls_of Val Num Ty decode types).
  Notation all_calls := (all_calls Val Num Ty decode types).
  Definition EncOK (s : sol) : Prop := InDomainEnc (vars s).

  (* decode maps valid encoded values to valid values, encode back (Type.decode / Type.encode) *)
  Hypothesis decode_dom : forall t v, In t types -> dom_enc t v -> dom_dec t (decode t v).
  Hypothesis encode_dom : forall t v, In t types -> dom_dec t v -> dom_enc t (encode t v).
  (* every producer used by the algorithm yields in-domain variables from in-domain
     parents (Type.rand, C06 validity of the variators, the PSO clamp, the CMA-ES rejection test) *)
  Hypothesis Op_dom : forall ps c, Forall EncOK ps -> Op ps c -> EncOK c.

  Lemma map2_decode_dom : forall ts vs, incl ts types -> Forall2 dom_enc ts vs -> Forall2 dom_dec ts (ev_map2 decode ts vs).
  Proof.
    induction ts as [|t ts IH]; intros vs I H; inversion H; subst; simpl; constructor.
    - apply decode_dom; [apply I; now left|assumption].
    - apply IH; [intros x Hx; apply I; now right|assumption].
  Qed.
  Lemma map2_encode_dom : forall ts vs, incl ts types -> Forall2 dom_dec ts vs -> Forall2 dom_enc ts (ev_map2 encode ts vs).
  Proof.
    induction ts as [|t ts IH]; intros vs I H; inversion H; subst; simpl; constructor.
    - apply encode_dom; [apply I; now left|assumption].
    - apply IH; [intros x Hx; apply I; now right|assumption].
  Qed.

  (* what the user function receives for an in-domain solution is in-domain *)
  Lemma call_in_domain s : EncOK s -> InDomain (decode_vars (vars s)).
  Proof. intro H. apply map2_decode_dom; [apply incl_refl|exact H]. Qed.

  Lemma problem_call_encok s : EncOK s -> EncOK (problem_call s).
  Proof.
    intro H. unfold EncOK, Evaluate.problem_call; cbn [vars].
    apply map2_encode_dom; [apply incl_refl|]. now apply call_in_domain.
  Qed.

  (* induction principle for the nested relation *)
  Lemma producedD_ind' (pool : list sol) (P : sol -> Prop) :
    (forall s, In s pool -> P s) ->
    (forall ps c, Forall (producedD pool) ps -> Forall P ps -> Op ps c -> P c) ->
    forall s, producedD pool s -> P s.
  Proof.
    intros Hm Ho. fix IH 2. intros s H. destruct H as [s I|ps c Hps O].
    - now apply Hm.
    - apply (Ho ps c Hps); [|exact O]. clear O.
      induction Hps as [|x l Hx Hl IHl]; constructor; [exact (IH x Hx)|exact IHl].
  Qed.

  Lemma producedD_encok pool s : Forall EncOK pool -> producedD pool s -> EncOK s.
  Proof.
    intros HP. apply (producedD_ind' pool EncOK).
    - rewrite Forall_forall in HP. exact HP.
    - intros ps c _ IH O. apply (Op_dom ps c); [exact IH|exact O].
  Qed.

  Lemma evaluate_all_encok ev sols : ev_spec ev -> Forall EncOK sols -> Forall EncOK (evaluate_all ev sols).
  Proof.
    intros S H. rewrite (ARGS_E evaluate_all_char) by assumption.
    induction H as [|s sols Hs _ IH]; simpl; constructor; [|exact IH].
    destruct (evaluated s); [exact Hs|now apply problem_call_encok].
  Qed.

  (* every solution handed to evaluate_all is in the encoded domain, every
     argument vector the user function receives is in the domain, and the pool
     stays in the encoded domain *)
  Lemma batchD_dom ev pool b : ev_spec ev -> Forall EncOK pool -> batchD_ok ev pool b ->
    Forall EncOK (b_before b) /\ Forall InDomain (calls_of b) /\ Forall EncOK (pool ++ b_after b).
  Proof.
    intros S HP [HB HA].
    assert (Forall EncOK (b_before b)) as HE.
    { rewrite Forall_forall in *. intros s I. eapply producedD_encok; [|apply HB, I]. now apply Forall_forall. }
    split; [exact HE|]. split.
    - unfold AlgSkeleton.calls_of. apply Forall_forall. intros a Ia.
      apply in_map_iff in Ia as (s & <- & Is). apply filter_In in Is as [Is _].
      apply call_in_domain. rewrite Forall_forall in HE. now apply HE.
    - apply Forall_app. split; [exact HP|]. rewrite HA. now apply evaluate_all_encok.
  Qed.

  Lemma batchesD_dom ev : ev_spec ev -> forall bs pool, Forall EncOK pool -> batchesD_ok ev pool bs ->
    Forall InDomain (flat_map calls_of bs) /\ Forall EncOK (pool_after pool bs).
  Proof.
    intro S. induction bs as [|b bs IH]; intros pool HP H; simpl in *; [split; [constructor|exact HP]|].
    destruct H as [Hb Hr]. destruct (batchD_dom ev pool b S HP Hb) as (_ & Hc & Hp).
    destruct (IH _ Hp Hr) as [Hc' Hp']. split; [|exact Hp']. apply Forall_app. now split.
  Qed.

  Lemma incl_Forall_local {A} (P : A -> Prop) l l' : incl l l' -> Forall P l' -> Forall P l.
  Proof. intros I H. rewrite Forall_forall in *. intros x Hx. apply H, I, Hx. Qed.

  (* the C07 invariant lifted over all traces (injected initial solutions in-domain) *)
  Theorem calls_in_domain ev : ev_spec ev -> forall sts pool, Forall EncOK pool -> stepsD_ok ev pool sts ->
    Forall InDomain (all_calls sts).
  Proof.
    intro S. induction sts as [|st sts IH]; intros pool HP H; simpl in *; [constructor|].
    destruct H as [[Hb Hi] Hr]. destruct (batchesD_dom ev S _ _ HP Hb) as [Hc Hp].
    unfold AlgSkeleton.all_calls. simpl. apply Forall_app. split; [exact Hc|].
    apply (IH (s_exposed st)); [|exact Hr]. eapply incl_Forall_local; eauto.
  Qed.

  Theorem submitted_in_domain ev pool b : ev_spec ev -> Forall EncOK pool -> batchD_ok ev pool b ->
    Forall EncOK (b_before b).
  Proof. intros S HP H. now destruct (batchD_dom ev pool b S HP H). Qed.
End SkeletonProofs.

(* ------------------------------------------------------------------------- *)
(* Concrete domains and producers (C07)                                      *)
(* ------------------------------------------------------------------------- *)

Lemma ev_mem_In x l : ev_mem x l = true <-> In x l.
Proof.
  induction l as [|y l IH]; simpl; [split; [discriminate|tauto]|].
  rewrite orb_true_iff, IH, Z.eqb_eq. split; intros [H|H]; auto.
Qed.

Lemma ev_nodup_b_sound l : ev_nodup_b l = true -> NoDup l.
Proof.
  induction l as [|x l IH]; simpl; intro H; constructor.
  - apply andb_true_iff in H as [H _]. apply negb_true_iff in H. intro I. apply ev_mem_In in I. congruence.
  - apply andb_true_iff in H as [_ H]. now apply IH.
Qed.

Lemma ev_incl_b_sound l els : ev_incl_b l els = true -> incl l els.
Proof. unfold ev_incl_b. rewrite forallb_forall. intros H x I. apply ev_mem_In, H, I. Qed.

Lemma ev_wf_ty_b_sound t : ev_wf_ty_b t = true -> ev_wf_ty t.
Proof.
  destruct t as [lb ub|n|mn mx k|els|els k]; simpl; intro H; try exact I; try exact H.
  - repeat (apply andb_true_iff in H as [H ?]). apply Z.ltb_lt in H. apply Z.leb_le in H1. apply Z.ltb_lt in H0. lia.
  - now apply ev_nodup_b_sound.
  - apply andb_true_iff in H as [H1 H2]. split; [now apply Nat.leb_le|now apply ev_nodup_b_sound].
Qed.

Lemma ev_dom_dec_b_sound t v : ev_dom_dec_b t v = true -> ev_dom_dec t v.
Proof.
  destruct t as [lb ub|n|mn mx k|els|els k], v as [x|b|z|l]; simpl; intro H; try discriminate.
  - now apply andb_true_iff in H.
  - now apply Nat.eqb_eq.
  - apply andb_true_iff in H as [H1 H2]. apply Z.leb_le in H1, H2. lia.
  - repeat (apply andb_true_iff in H as [H ?]). apply Nat.eqb_eq in H0.
    apply Permutation_sym, NoDup_Permutation_bis; [now apply ev_nodup_b_sound|lia|now apply ev_incl_b_sound].
  - repeat (apply andb_true_iff in H as [H ?]).
    split; [now apply ev_nodup_b_sound|]. split; [now apply Nat.eqb_eq|now apply ev_incl_b_sound].
Qed.

Lemma ev_forall2b_sound {A B} (f : A -> B -> bool) (P : A -> B -> Prop) :
  (forall a b, f a b = true -> P a b) -> forall a b, ev_forall2b f a b = true -> Forall2 P a b.
Proof.
  intro H. induction a as [|x a IH]; intros [|y b] E; simpl in E; try discriminate; constructor.
  - apply H. now apply andb_true_iff in E.
  - apply IH. now apply andb_true_iff in E.
Qed.

(* the boolean run on every logged call decides the property's domain predicate *)
Theorem in_domain_b_sound types args : in_domain_b types args = true ->
  Forall ev_wf_ty types /\ Forall2 ev_dom_dec types args.
Proof.
  unfold in_domain_b. intro H. apply andb_true_iff in H as [H1 H2]. split.
  - apply Forall_forall. intros t I. apply ev_wf_ty_b_sound. rewrite forallb_forall in H1. now apply H1.
  - eapply ev_forall2b_sound; [apply ev_dom_dec_b_sound|exact H2].
Qed.

(* ---- Type.decode / Type.encode respect the domains ---- *)
Theorem decode_in_domain t v : ev_wf_ty t -> ev_dom_enc t v -> ev_dom_dec t (ev_decode t v).
Proof.
  intros W H. destruct t as [lb ub|n|mn mx k|els|els k0]; try (destruct v; exact H).
  destruct v as [x|g|z|l]; simpl in H; try contradiction.
  destruct (ev_decode_integer_range mn mx k g W H) as (z & E & R). rewrite E. exact R.
Qed.

Theorem encode_in_domain t v : ev_dom_dec t v -> ev_dom_enc t (ev_encode t v).
Proof.
  intros H. destruct t as [lb ub|n|mn mx k|els|els k0]; try (destruct v; exact H).
  destruct v as [x|g|z|l]; simpl in H; try contradiction.
  destruct (ev_encode_integer_length mn mx k z) as (g & E & L). rewrite E. exact L.
Qed.

(* ---- Type.rand ---- *)
Theorem rand_real_in_domain lb ub r : ev_leb lb r = true -> ev_leb r ub = true ->
  ev_dom_enc (TReal lb ub) (rand_real r).
Proof. intros; split; assumption. Qed.

Theorem rand_binary_in_domain n tape v : rand_binary n tape = Some v -> ev_dom_enc (TBinary n) v.
Proof.
  unfold rand_binary. destruct (Nat.leb n (length tape)) eqn:E; [|discriminate].
  intros [= <-]. simpl. apply firstn_length_le. now apply Nat.leb_le.
Qed.

Theorem rand_integer_in_domain mn mx k z : ev_wf_ty (TInteger mn mx k) -> mn <= z <= mx ->
  ev_dom_enc (TInteger mn mx k) (rand_integer (TInteger mn mx k) z) /\
  ev_decode (TInteger mn mx k) (rand_integer (TInteger mn mx k) z) = VInt z.
Proof.
  intros W R. split; [apply encode_in_domain; exact R|now apply ev_decode_encode_integer].
Qed.

Lemma map_nth_seq : forall (els : list Z), map (fun i => nth i els 0) (seq 0 (length els)) = els.
Proof.
  induction els as [|a els IH]; [reflexivity|].
  simpl length. simpl seq. simpl map at 1. f_equal.
  rewrite <- seq_shift, map_map. simpl. exact IH.
Qed.

Theorem rand_perm_in_domain els p : Permutation (seq 0 (length els)) p ->
  ev_dom_enc (TPerm els) (rand_perm els p).
Proof.
  intro H. simpl. rewrite <- (map_nth_seq els) at 1. now apply Permutation_map.
Qed.

Lemma NoDup_firstn {A} : forall k (l : list A), NoDup l -> NoDup (firstn k l).
Proof.
  induction k as [|k IH]; intros l H; [constructor|].
  destruct l as [|x l]; [constructor|]. simpl. inversion H as [|? ? Hx Hl]; subst. constructor.
  - intro I. apply Hx. rewrite <- (firstn_skipn k l). apply in_or_app. now left.
  - now apply IH.
Qed.

Theorem rand_subset_in_domain els k p : ev_wf_ty (TSubset els k) ->
  Permutation (seq 0 (length els)) p -> ev_dom_enc (TSubset els k) (rand_subset els k p).
Proof.
  intros [Hk Hnd] H. simpl.
  assert (Permutation els (map (fun i => nth i els 0) p)) as HP.
  { rewrite <- (map_nth_seq els) at 1. now apply Permutation_map. }
  rewrite <- firstn_map. repeat split.
  - apply NoDup_firstn. eapply Permutation_NoDup; eauto.
  - apply firstn_length_le. rewrite <- (Permutation_length HP). exact Hk.
  - intros x I. apply (Permutation_in x (Permutation_sym HP)).
    rewrite <- (firstn_skipn k (map _ p)). apply in_or_app. now left.
Qed.

(* ---- ParticleSwarm._update_positions ---- *)
Lemma ev_ltb_irrefl x : ev_ltb x x = false.
Proof. destruct x; simpl; try reflexivity. apply Z.ltb_irrefl. Qed.

Lemma ev_leb_nonnan a b : ev_leb a b = true -> ev_isnan a = false /\ ev_isnan b = false.
Proof. unfold ev_leb. intro H. repeat (apply andb_true_iff in H as [H ?]). split; now apply negb_true_iff. Qed.

Lemma ev_leb_refl a : ev_isnan a = false -> ev_leb a a = true.
Proof. intro H. unfold ev_leb. now rewrite H, ev_ltb_irrefl. Qed.

Lemma ev_leb_of_not_ltb a b : ev_isnan a = false -> ev_isnan b = false -> ev_ltb b a = false -> ev_leb a b = true.
Proof. intros Ha Hb H. unfold ev_leb. now rewrite Ha, Hb, H. Qed.

(* given a candidate that is not NaN the new position is within the bounds *)
Theorem pso_position_in_domain lb ub value vel :
  ev_leb lb ub = true -> ev_isnan value = false ->
  ev_dom_enc (TReal lb ub) (VNum (fst (pso_clamp lb ub value vel))).
Proof.
  intros W N. destruct (ev_leb_nonnan _ _ W) as [Nl Nu]. unfold pso_clamp. simpl.
  destruct (ev_ltb value lb) eqn:E1; simpl.
  - split; [now apply ev_leb_refl|exact W].
  - destruct (ev_ltb ub value) eqn:E2; simpl.
    + split; [exact W|now apply ev_leb_refl].
    + split; now apply ev_leb_of_not_ltb.
Qed.

(* the velocity is reflected exactly when the position was clamped *)
Theorem pso_velocity_reflected lb ub value vel :
  snd (pso_clamp lb ub value vel) = if ev_ltb value lb || ev_ltb ub value then ev_neg vel else vel.
Proof. unfold pso_clamp. destruct (ev_ltb value lb), (ev_ltb ub value); reflexivity. Qed.

Theorem pso_update_positions_in_domain : forall types values vels,
  Forall2 (fun t v => exists lb ub, t = TReal lb ub /\ ev_leb lb ub = true /\ ev_isnan v = false) types values ->
  length vels = length values ->
  Forall2 ev_dom_enc types (fst (pso_update_positions types values vels)).
Proof.
  induction types as [|t ts IH]; intros values vels H L; inversion H as [|? v ? vs (lb & ub & -> & W & N) Hr]; subst.
  - constructor.
  - destruct vels as [|w ws]; [discriminate|]. simpl. constructor.
    + now apply pso_position_in_domain.
    + apply IH; [exact Hr|simpl in L; lia].
Qed.

(* without the hypothesis the clamp lets a NaN through: both tests are False *)
Lemma pso_nan_passes lb ub vel : fst (pso_clamp lb ub NNaN vel) = NNaN.
Proof. unfold pso_clamp. simpl. destruct ub; reflexivity. Qed.

(* ---- CMAES.sample ---- *)
Lemma cma_try_in_domain : forall types cand v,
  Forall ev_wf_ty types -> Forall (fun x => ev_isnan x = false) cand ->
  cma_try types cand = Some v -> Forall2 ev_dom_enc types v.
Proof.
  induction types as [|t ts IH]; intros cand v W N H; simpl in H.
  - injection H as <-. constructor.
  - destruct t as [lb ub| | | |]; try discriminate. destruct cand as [|x xs]; [discriminate|].
    destruct (ev_ltb x lb) eqn:E1; [discriminate|]. destruct (ev_ltb ub x) eqn:E2; [discriminate|]. simpl in H.
    destruct (cma_try ts xs) as [r|] eqn:E; [|discriminate]. injection H as <-.
    inversion W as [|? ? Wt Wr]; subst. inversion N as [|? ? Nx Nr]; subst.
    destruct (ev_leb_nonnan _ _ Wt) as [Nl Nu].
    constructor; [split; now apply ev_leb_of_not_ltb|]. eapply IH; eauto.
Qed.

(* whatever the rejection loop returns passed min <= v <= max on every coordinate *)
Theorem cmaes_sample_in_domain : forall fuel types tape v,
  Forall ev_wf_ty types -> Forall (Forall (fun x => ev_isnan x = false)) tape ->
  cma_sample fuel types tape = Some v -> Forall2 ev_dom_enc types v.
Proof.
  induction fuel as [|f IH]; intros types tape v W N H; simpl in H; [discriminate|].
  destruct tape as [|c r]; [discriminate|]. inversion N as [|? ? Nc Nr]; subst.
  destruct (cma_try types c) as [u|] eqn:E.
  - injection H as <-. eapply cma_try_in_domain; eauto.
  - eapply IH; eauto.
Qed.

(* a candidate inside the box is accepted at once: the loop needs fuel only for rejections *)
Theorem cma_try_accepts : forall types cand,
  Forall2 (fun t x => ev_dom_enc t (VNum x)) types cand -> exists v, cma_try types cand = Some v.
Proof.
  induction types as [|t ts IH]; intros cand H; inversion H as [|? x ? xs Hx Hr]; subst; simpl; [eexists; reflexivity|].
  destruct t as [lb ub| | | |]; simpl in Hx; try contradiction. destruct Hx as [H1 H2].
  unfold ev_leb in H1, H2. repeat (apply andb_true_iff in H1 as [H1 ?]). repeat (apply andb_true_iff in H2 as [H2 ?]).
  apply negb_true_iff in H0, H4. rewrite H0, H4. simpl.
  destruct (IH xs Hr) as (v & ->). eexists; reflexivity.
Qed.

(* ---- default operators ---- *)
Lemma default_op_applicable reg : 
  (forall k o, In (k, o) reg -> op_acts_on o = k) ->
  (forall k o, In (k, o) reg -> k <> KInteger) ->
  forall ts o, default_op reg ts = Some o -> Forall (fun t => isinst t (op_acts_on o) = true) ts.
Proof.
  intros Hreg Hni ts o H. unfold default_op in H. destruct ts as [|base r]; [discriminate|].
  destruct (forallb (fun t => isinst t base) (base :: r)) eqn:FA; [|discriminate].
  assert (isinst base (op_acts_on o) = true) as HB.
  { destruct (reg_exact reg base) as [o'|] eqn:E.
    - injection H as ->. clear FA. induction reg as [|[k o''] reg IH]; [discriminate|]. simpl in E.
      destruct (tcls_eqb k base) eqn:K.
      + injection E as ->. rewrite (Hreg k o) by now left. destruct k, base; try discriminate; reflexivity.
      + apply IH; auto; intros; [apply Hreg|eapply Hni]; right; eauto.
    - clear E FA. induction reg as [|[k o''] reg IH]; [discriminate|]. simpl in H.
      destruct (isinst base k) eqn:K.
      + injection H as ->. rewrite (Hreg k o) by now left. exact K.
      + apply IH; auto; intros; [apply Hreg|eapply Hni]; right; eauto. }
  apply Forall_forall. intros t I. rewrite forallb_forall in FA. specialize (FA t I).
  destruct t, base, (op_acts_on o); try discriminate; reflexivity.
Qed.

Theorem default_variator_applicable ts o : default_variator ts = Some o ->
  Forall (fun t => isinst t (op_acts_on o) = true) ts.
Proof.
  apply default_op_applicable.
  - intros k o' [H|[H|[H|[H|[]]]]]; injection H as <- <-; reflexivity.
  - intros k o' [H|[H|[H|[H|[]]]]]; injection H as <- <-; discriminate.
Qed.

Theorem default_mutator_applicable ts o : default_mutator ts = Some o ->
  Forall (fun t => isinst t (op_acts_on o) = true) ts.
Proof.
  apply default_op_applicable.
  - intros k o' [H|[H|[H|[H|[]]]]]; injection H as <- <-; reflexivity.
  - intros k o' [H|[H|[H|[H|[]]]]]; injection H as <- <-; discriminate.
Qed.

(* mixed types are rejected, Integer is served by the Binary operators *)
Theorem default_mixed_rejected reg ts : (exists a b, In a ts /\ In b ts /\ isinst a b = false /\ isinst b a = false) ->
  default_op reg ts = None.
Proof.
  intros (a & b & Ia & Ib & Hab & Hba). unfold default_op. destruct ts as [|base r]; [reflexivity|].
  destruct (forallb (fun t => isinst t base) (base :: r)) eqn:FA; [|reflexivity].
  rewrite forallb_forall in FA. pose proof (FA a Ia) as Ha. pose proof (FA b Ib) as Hb.
  destruct a, b, base; discriminate.
Qed.

Theorem default_integer_binary n : (0 < n)%nat ->
  default_variator (repeat KInteger n) = Some Op_HUX_BitFlip /\ default_mutator (repeat KInteger n) = Some Op_BitFlip.
Proof.
  intro H. destruct n as [|n]; [lia|].
  assert (forallb (fun t => isinst t KInteger) (repeat KInteger n) = true) as E.
  { apply forallb_forall. intros t I. apply repeat_spec in I. now subst. }
  unfold default_variator, default_mutator, default_op. simpl. rewrite E. split; reflexivity.
Qed.

(* ------------------------------------------------------------------------- *)
(* The executable carrier instantiates the generic theorems                  *)
(* ------------------------------------------------------------------------- *)
Section Concrete.
  Variable types : list ev_ty.
  Variable tab : list ev_call.
  Variable cs : list ev_cdecl.
  Hypothesis types_wf : Forall ev_wf_ty types.

  Definition ev_Good := Good ev_val ev_num ev_ty ev_decode (ev_lookup tab) (ev_cfuns cs) ev_abs ev_add ev_zero ev_iszero types.
  Definition ev_accepts := accepts ev_val ev_num ev_ty ev_decode ev_encode (ev_lookup tab) (ev_cfuns cs)
                                   ev_abs ev_add ev_zero ev_iszero types ev_val_eqb ev_num_eqb.
  Definition ev_safe_b := safe_b ev_val ev_num ev_ty ev_decode (ev_lookup tab) (ev_cfuns cs)
                                 ev_abs ev_add ev_zero ev_iszero types ev_num_eqb.
  Definition ev_good_b := good_b ev_val ev_num ev_ty ev_decode (ev_lookup tab) (ev_cfuns cs)
                                 ev_abs ev_add ev_zero ev_iszero types ev_num_eqb.

  Lemma ev_roundtrip_types : forall t v, In t types -> ev_decode t (ev_encode t (ev_decode t v)) = ev_decode t v.
  Proof. intros t v I. apply ev_roundtrip. rewrite Forall_forall in types_wf. now apply types_wf. Qed.

  Theorem ev_accepts_good (t : trace ev_val ev_num) :
    ev_accepts t = true -> forallb ev_safe_b (t_init t) = true ->
    Forall (fun st => Forall ev_Good (s_exposed st)) (t_steps t).
  Proof.
    apply accepts_good.
    - exact ev_roundtrip_types.
    - intros a b H. now apply ev_val_eqb_eq.
    - intros a b H. now apply ev_num_eqb_eq.
  Qed.

  Theorem ev_good_b_sound s : ev_good_b s = true -> ev_Good s.
  Proof. apply good_b_sound. intros a b H. now apply ev_num_eqb_eq. Qed.
End Concrete.

(* C07 skeleton invariant at the executable carrier: the only hypotheses left are
   the well-formedness of the declared types and the domain-preservation of the
   producers the algorithm uses *)
Section ConcreteD.
  Variable types : list ev_ty.
  Variable tab : list ev_call.
  Variable cs : list ev_cdecl.
  Hypothesis types_wf : Forall ev_wf_ty types.
  Variable Op : list ev_sol -> ev_sol -> Prop.
  Definition ev_EncOK (s : ev_sol) : Prop := Forall2 ev_dom_enc types (vars s).
  Hypothesis Op_dom : forall ps c, Forall ev_EncOK ps -> Op ps c -> ev_EncOK c.

  Theorem ev_calls_in_domain ev sts pool :
    ev_spec ev_val ev_num ev_ty ev_decode ev_encode (ev_lookup tab) (ev_cfuns cs) ev_abs ev_add ev_zero ev_iszero types ev ->
    Forall ev_EncOK pool ->
    stepsD_ok ev_val ev_num Op ev pool sts ->
    Forall (Forall2 ev_dom_dec types) (all_calls ev_val ev_num ev_ty ev_decode types sts).
  Proof.
    intros S HP H.
    refine (calls_in_domain ev_val ev_num ev_ty ev_decode ev_encode (ev_lookup tab) (ev_cfuns cs)
                            ev_abs ev_add ev_zero ev_iszero types ev_dom_enc ev_dom_dec Op _ _ Op_dom ev S sts pool HP H).
    - intros t v I. apply decode_in_domain. rewrite Forall_forall in types_wf. now apply types_wf.
    - intros t v _. apply encode_in_domain.
  Qed.
End ConcreteD.

(* ------------------------------------------------------------------------- *)
(* Non-vacuity: concrete instances on which the hypotheses hold              *)
(* ------------------------------------------------------------------------- *)
Module Examples.
  (* one Integer(0,5) variable (3 bits), user function f(2) = 2.0, f(3) = 3.0 *)
  Definition tys := [TInteger 0 5 3%nat].
  Definition tab : list ev_call := [([VInt 2], ([NFin 1 1], [])); ([VInt 3], ([NFin 3 0], []))].
  (* Gray word 100 = binary 111 = 7 > 5, wraps to 2: evaluation canonicalises the bits to 011 *)
  Definition s0  : ev_sol := mkSol 0%nat [VBits [true; false; false]] [] [] ev_zero false false.
  Definition s0' : ev_sol := mkSol 0%nat [VBits [false; true; true]] [NFin 1 1] [] ev_zero true true.
  (* an untouched copy (flag still set) and a mutated copy (flag cleared, objectives stale) *)
  Definition c1  : ev_sol := mkSol 1%nat [VBits [false; true; true]] [NFin 1 1] [] ev_zero true true.
  Definition d2  : ev_sol := mkSol 2%nat [VBits [false; true; false]] [NFin 1 1] [] ev_zero true false.
  Definition d2' : ev_sol := mkSol 2%nat [VBits [false; true; false]] [NFin 3 0] [] ev_zero true true.
  Definition tr : trace ev_val ev_num :=
    mkTrace [] [mkStep [mkBatch [s0] [None] [s0']] [s0'];
                mkStep [mkBatch [c1; d2] [Some 0%nat; Some 0%nat] [c1; d2']] [s0'; c1; d2']].

  Example tys_wf : Forall ev_wf_ty tys.
  Proof. repeat constructor; simpl; lia. Qed.

  Example tr_accepted : ev_accepts tys tab [] tr = true.
  Proof. vm_compute. reflexivity. Qed.

  (* the theorem applies and gives Good at both boundaries *)
  Example tr_all_good : Forall (fun st => Forall (ev_Good tys tab []) (s_exposed st)) (t_steps tr).
  Proof. apply (ev_accepts_good tys tab [] tys_wf tr); vm_compute; reflexivity. Qed.

  (* a variator that forgets `evaluated = False`: the mutated copy keeps its flag -> rejected *)
  Definition d2bad : ev_sol := mkSol 2%nat [VBits [false; true; false]] [NFin 1 1] [] ev_zero true true.
  Definition tr_bad : trace ev_val ev_num :=
    mkTrace [] [mkStep [mkBatch [s0] [None] [s0']] [s0'];
                mkStep [mkBatch [c1; d2bad] [Some 0%nat; Some 0%nat] [c1; d2bad]] [s0'; c1; d2bad]].
  Example tr_bad_rejected : ev_accepts tys tab [] tr_bad = false.
  Proof. vm_compute. reflexivity. Qed.
  Example d2bad_not_good : ev_good_b tys tab [] d2bad = false.
  Proof. vm_compute. reflexivity. Qed.

  (* evaluate_all on a mixed batch: a copying evaluator gives the same result *)
  Example eval_copying :
    evaluate_all ev_val ev_num
      (ev_marked ev_val ev_num ev_ty ev_decode ev_encode (ev_lookup tab) [] ev_abs ev_add ev_zero ev_iszero tys [Some 7%nat]) [c1; d2]
    = [c1; d2'].
  Proof. vm_compute. reflexivity. Qed.

  (* C07 *)
  Example pso_above : pso_clamp (NFin 0 0) (NFin 1 0) (NFin 3 (-1)) (NFin 1 (-1)) = (NFin 1 0, NFin (-1) (-1)).
  Proof. vm_compute. reflexivity. Qed.
  Example pso_hyp_sat : ev_leb (NFin 0 0) (NFin 1 0) = true /\ ev_isnan (NFin 3 (-1)) = false.
  Proof. split; reflexivity. Qed.
  Example cma_second_try :
    cma_sample 5 [TReal (NFin 0 0) (NFin 1 0); TReal (NFin (-1) 0) (NFin 1 0)]
               [[NFin 1 (-1); NFin 3 0]; [NFin 1 (-2); NFin (-1) 0]] = Some [VNum (NFin 1 (-2)); VNum (NFin (-1) 0)].
  Proof. vm_compute. reflexivity. Qed.
  Example dom_ok : in_domain_b [TInteger (-3) 5 4%nat; TPerm [7; 8; 9]; TSubset [1; 2; 3; 4] 2%nat; TBinary 2%nat; TReal (NFin (-1) 0) (NFin 1 1)]
                               [VInt 5; VList [9; 7; 8]; VList [4; 1]; VBits [true; false]; VNum (NFin 1 1)] = true.
  Proof. vm_compute. reflexivity. Qed.
  Example dom_bad_int : in_domain_b [TInteger (-3) 5 4%nat] [VInt 6] = false.
  Proof. vm_compute. reflexivity. Qed.
  Example dom_bad_perm : in_domain_b [TPerm [7; 8; 9]] [VList [7; 7; 9]] = false.
  Proof. vm_compute. reflexivity. Qed.
  Example dom_bad_nan : in_domain_b [TReal (NFin 0 0) (NFin 1 0)] [VNum NNaN] = false.
  Proof. vm_compute. reflexivity. Qed.
  Example perm_hyp_sat : Permutation (seq 0 (length [7; 8; 9])) [2; 0; 1]%nat.
  Proof. simpl. apply Permutation_sym. apply (Permutation_cons_app [0%nat; 1%nat] [] 2%nat). simpl. apply Permutation_refl. Qed.
  Example rand_perm_ex : rand_perm [7; 8; 9] [2; 0; 1]%nat = VList [9; 7; 8].
  Proof. reflexivity. Qed.
  Fixpoint all_bits (n : nat) : list (list bool) :=
    match n with O => [[]] | S k => map (fun l => true :: l) (all_bits k) ++ map (fun l => false :: l) (all_bits k) end.
  (* Integer(-3,5): all 16 Gray words decode into [-3,5] *)
  Example integer_wrap_all :
    forallb (fun g => match ev_decode (TInteger (-3) 5 4%nat) (VBits g) with
                      | VInt z => (-3 <=? z) && (z <=? 5) | _ => false end) (all_bits 4) = true.
  Proof. vm_compute. reflexivity. Qed.
  Example mixed_rejected : default_variator [KReal; KBinary] = None /\ default_variator [KInteger; KBinary] = None /\
                           default_variator [KBinary; KInteger] = Some Op_HUX_BitFlip.
  Proof. repeat split. Qed.
End Examples.

(* ---- Real.rand on very wide bounds: the interpolation stays inside [min, max] for r in [0, 1] ---- *)
From Coq Require Import QArith Lqa.
Lemma rand_real_wide_in_domain (lb ub r : Q) :
  (lb <= ub)%Q -> (0 <= r)%Q -> (r <= 1)%Q ->
  (lb <= rand_real_interp lb ub r)%Q /\ (rand_real_interp lb ub r <= ub)%Q.
Proof. unfold rand_real_interp. intros H0 H1 H2. split; nra. Qed.

Example rand_real_wide_ex : rand_real_interp (-3) 5 (1 # 4) == -1 # 1.
Proof. reflexivity. Qed.
