(* Proofs about Model/Negation.v: negating the objectives with index in J and flipping their
   directions leaves unchanged
     - ParetoDominance.compare (the direction-adjusted values are IDENTICAL), any carrier
       whose negation is an involution;
     - EpsilonDominance.compare and same_box (exact Q);
     - hence Archive / Archive(EpsilonDominance) / EpsilonBoxArchive contents (incl. the
       improvements counter) and non-dominated ranks, for every insertion history
       (equivariance of the generic models under any comparator-preserving map);
     - the normalised objectives up to x -> 1 - x on J, hence the epsilon indicator, the GD /
       IGD ingredients (squared distances) and the hypervolume (goodness coordinates).
   The pre-repair hypervolume and epsilon-indicator models violate the law (Examples). *)
From Coq Require Import ZArith QArith Qabs Bool List Lia Lqa Permutation Setoid Morphisms.
Import ListNotations.
From PV Require Import Base.Num Base.Order Model.Dominance Model.Archive Model.Epsilon Model.NDSort
                       Model.Indicators Model.Hypervolume Model.Negation
                       Proofs.IndicatorsProofs Proofs.HypervolumeProofs.
Open Scope Q_scope.

(* ================= Pareto dominance (abstract carrier) ================= *)
Section ParetoFlip.
  Variable V : Type.
  Variable ltb : V -> V -> bool.
  Variable neg : V -> V.
  Variable zero : V.
  Hypothesis neg_involutive : forall x, neg (neg x) = x.

  Lemma adj_flip j mx v : adj V neg (xorb j mx) (if j : bool then neg v else v) = adj V neg mx v.
  Proof. unfold adj. destruct j, mx; simpl; auto. Qed.

  Lemma scan_flip : forall dirs J o1 o2 d1 d2,
    scan V ltb neg (flipd J dirs) (flipv neg J o1) (flipv neg J o2) d1 d2 = scan V ltb neg dirs o1 o2 d1 d2.
  Proof.
    induction dirs as [|mx ds IH]; intros J o1 o2 d1 d2.
    - destruct J; reflexivity.
    - destruct J as [|j J']; [reflexivity|].
      destruct o1 as [|a r1]; [reflexivity|]. destruct o2 as [|b r2]; [reflexivity|].
      cbn [flipd flipv scan]. rewrite !adj_flip.
      destruct (ltb (adj V neg mx a) (adj V neg mx b)); [destruct d2; [reflexivity | apply IH]|].
      destruct (ltb (adj V neg mx b) (adj V neg mx a)); [destruct d1; [reflexivity | apply IH]|].
      apply IH.
  Qed.

  (* ParetoDominance.compare is unchanged *)
  Theorem pareto_flip c dirs J s1 s2 :
    pareto_compare V ltb neg zero c (flipd J dirs) (flip_dsol neg J s1) (flip_dsol neg J s2) =
    pareto_compare V ltb neg zero c dirs s1 s2.
  Proof. unfold pareto_compare, flip_dsol. simpl. destruct (cv_ladder V ltb zero c (d_cv s1) (d_cv s2)); [reflexivity|]. apply scan_flip. Qed.

  Theorem sol_cmp_flip c dirs J x y :
    sol_cmp V ltb neg zero c (flipd J dirs) (flip_sol neg J x) (flip_sol neg J y) = sol_cmp V ltb neg zero c dirs x y.
  Proof. unfold sol_cmp. apply (pareto_flip c dirs J (dsol_of x) (dsol_of y)). Qed.
End ParetoFlip.

Lemma xneg_involutive x : xneg (xneg x) = x.
Proof. destruct x as [|[n d]|]; try reflexivity. unfold xneg, Qopp. simpl. now rewrite Z.opp_involutive. Qed.

Lemma Qopp_opp_eq (q : Q) : - - q = q.
Proof. destruct q as [n d]. unfold Qopp. simpl. now rewrite Z.opp_involutive. Qed.

Theorem x_pareto_flip c dirs J s1 s2 :
  x_pareto_compare c (flipd J dirs) (flip_dsol xneg J s1) (flip_dsol xneg J s2) = x_pareto_compare c dirs s1 s2.
Proof. apply (pareto_flip xq xltb xneg xzero xneg_involutive). Qed.

Theorem x_sol_cmp_flip c dirs J x y :
  x_sol_cmp c (flipd J dirs) (flip_xsol J x) (flip_xsol J y) = x_sol_cmp c dirs x y.
Proof. apply (sol_cmp_flip xq xltb xneg xzero xneg_involutive). Qed.

(* ================= epsilon dominance ================= *)
Lemma eps_adj_flip j mx o : eps_adj (xorb j mx) (if j : bool then - o else o) = eps_adj mx o.
Proof. unfold eps_adj. destruct j, mx; simpl; auto. apply Qopp_opp_eq. Qed.

Lemma eps_scan_flip es : forall dirs J i o1 o2 d1 d2,
  eps_scan es i (flipd J dirs) (flipq J o1) (flipq J o2) d1 d2 = eps_scan es i dirs o1 o2 d1 d2.
Proof.
  unfold flipq. induction dirs as [|mx ds IH]; intros J i o1 o2 d1 d2.
  - destruct J; reflexivity.
  - destruct J as [|j J']; [reflexivity|].
    destruct o1 as [|a r1]; [destruct o2; reflexivity|]. destruct o2 as [|b r2]; [reflexivity|].
    cbn [flipd flipv eps_scan]. rewrite !eps_adj_flip.
    destruct (eps_at es i); [|reflexivity].
    destruct (box_index q (eps_adj mx a)); [|reflexivity]. destruct (box_index q (eps_adj mx b)); [|reflexivity].
    destruct (z <? z0)%Z; [destruct d2; [reflexivity | apply IH]|].
    destruct (z >? z0)%Z; [destruct d1; [reflexivity | apply IH]|]. apply IH.
Qed.

Lemma eps_dist_flip es : forall dirs J i o1 o2 a1 a2 b1 b2,
  eps_dist es i (flipd J dirs) (flipq J o1) (flipq J o2) a1 a2 b1 b2 = eps_dist es i dirs o1 o2 a1 a2 b1 b2.
Proof.
  unfold flipq. induction dirs as [|mx ds IH]; intros J i o1 o2 a1 a2 b1 b2.
  - destruct J; reflexivity.
  - destruct J as [|j J']; [reflexivity|].
    destruct o1 as [|a r1]; [destruct o2; reflexivity|]. destruct o2 as [|b r2]; [reflexivity|].
    cbn [flipd flipv eps_dist]. rewrite !eps_adj_flip.
    destruct (eps_at es i); [|reflexivity].
    destruct (box_index q (eps_adj mx a)); [|reflexivity]. destruct (box_index q (eps_adj mx b)); [|reflexivity].
    apply IH.
Qed.

Theorem eps_compare_flip c J s1 s2 :
  eps_compare (flip_ecfg J c) (flip_esol J s1) (flip_esol J s2) = eps_compare c s1 s2.
Proof.
  unfold eps_compare, flip_ecfg, flip_esol. simpl. destruct (eps_ladder (e_con c) (e_cv s1) (e_cv s2)); [reflexivity|].
  rewrite eps_scan_flip, eps_dist_flip. reflexivity.
Qed.

Theorem same_box_flip c J s1 s2 :
  same_box (flip_ecfg J c) (flip_esol J s1) (flip_esol J s2) = same_box c s1 s2.
Proof.
  unfold same_box, flip_ecfg, flip_esol. simpl. destruct (eps_ladder (e_con c) (e_cv s1) (e_cv s2)); [reflexivity|].
  rewrite eps_scan_flip. reflexivity.
Qed.

(* ================= archives and ranks: equivariance ================= *)
Lemma compress_map {A B} (f : A -> B) : forall (a : list A) sel, compress (map f a) sel = map f (compress a sel).
Proof. induction a as [|x r IH]; intros [|b s]; simpl; auto. destruct b; simpl; now rewrite IH. Qed.

Section ArchiveEquivariance.
  Variable T : Type.
  Variables cmp cmp' : T -> T -> Z.
  Variable f : T -> T.
  Hypothesis cmp_f : forall x y, cmp' (f x) (f y) = cmp x y.

  Lemma add_equiv a s : add T cmp' (map f a) (f s) = (map f (fst (add T cmp a s)), snd (add T cmp a s)).
  Proof.
    unfold add. rewrite !map_map.
    assert (E : map (fun x => cmp' (f s) (f x)) a = map (fun m => cmp s m) a) by (apply map_ext; intro; apply cmp_f).
    rewrite (map_ext (fun x => cmp' (f s) (f x) >? 0)%Z (fun x => cmp s x >? 0)%Z) by (intro; now rewrite cmp_f).
    rewrite (map_ext (fun x => cmp' (f s) (f x) =? 0)%Z (fun x => cmp s x =? 0)%Z) by (intro; now rewrite cmp_f).
    destruct (existsb (fun b : bool => b) (map (fun x => (cmp s x >? 0)%Z) a)); simpl; [reflexivity|].
    rewrite compress_map, map_app. reflexivity.
  Qed.

  Lemma archive_from_equiv : forall l a,
    fold_left (fun a s => fst (add T cmp' a s)) (map f l) (map f a) = map f (fold_left (fun a s => fst (add T cmp a s)) l a).
  Proof.
    induction l as [|s r IH]; intro a; [reflexivity|]. simpl. rewrite add_equiv. simpl. apply IH.
  Qed.

  (* Archive: offering the flipped solutions yields the flipped contents, in the same order *)
  Theorem archive_equiv l : archive T cmp' (map f l) = map f (archive T cmp l).
  Proof. unfold archive. apply (archive_from_equiv l []). Qed.
End ArchiveEquivariance.

Theorem archive_flip c dirs J (l : list xsol) :
  x_archive c (flipd J dirs) (map (flip_xsol J) l) = map (flip_xsol J) (x_archive c dirs l).
Proof. unfold x_archive. apply archive_equiv. intros x y. apply x_sol_cmp_flip. Qed.

(* identities of the members are therefore the same *)
Corollary archive_flip_sids c dirs J (l : list xsol) :
  map sid (x_archive c (flipd J dirs) (map (flip_xsol J) l)) = map sid (x_archive c dirs l).
Proof. rewrite archive_flip, map_map. reflexivity. Qed.

(* --- the epsilon archives --- *)
Lemma eps_map_opt_flip {B} (g g' : esol -> option B) J : (forall x, g' (flip_esol J x) = g x) ->
  forall a, eps_map_opt g' (map (flip_esol J) a) = eps_map_opt g a.
Proof. intros Hg. induction a as [|x r IH]; [reflexivity|]. simpl. rewrite Hg, IH. reflexivity. Qed.

Lemma eps_compress_map {A B} (f : A -> B) : forall (a : list A) sel, eps_compress (map f a) sel = map f (eps_compress a sel).
Proof. induction a as [|x r IH]; intros [|b s]; simpl; auto. destruct b; simpl; now rewrite IH. Qed.

Definition flip_box_state (J : list bool) (st : list esol * nat) : list esol * nat := (map (flip_esol J) (fst st), snd st).

Lemma eps_box_add_flip c J st s :
  eps_box_add (flip_ecfg J c) (flip_box_state J st) (flip_esol J s) =
  match eps_box_add c st s with Some (st', r) => Some (flip_box_state J st', r) | None => None end.
Proof.
  destruct st as [a imp]. unfold eps_box_add, flip_box_state. cbn [fst snd].
  rewrite (eps_map_opt_flip (eps_compare c s) _ J) by (intro x; apply eps_compare_flip).
  destruct (eps_map_opt (eps_compare c s) a) as [flags|]; [|reflexivity].
  rewrite (eps_map_opt_flip (same_box c s) _ J) by (intro x; apply same_box_flip).
  destruct (eps_map_opt (same_box c s) a) as [sb|]; [|reflexivity].
  destruct (existsb (fun x => (x >? 0)%Z) flags); [reflexivity|].
  cbn [fst snd]. rewrite eps_compress_map, map_app. reflexivity.
Qed.

Lemma eps_box_run_from_flip c J : forall l st,
  eps_box_run_from (flip_ecfg J c) (flip_box_state J st) (map (flip_esol J) l) =
  option_map (flip_box_state J) (eps_box_run_from c st l).
Proof.
  induction l as [|s r IH]; intro st; [reflexivity|]. cbn [eps_box_run_from map]. rewrite eps_box_add_flip.
  destruct (eps_box_add c st s) as [[st' ret]|]; [apply IH | reflexivity].
Qed.

(* EpsilonBoxArchive: same members (flipped), same improvements counter, after every history *)
Theorem eps_archive_flip c J l :
  eps_box_run (flip_ecfg J c) (map (flip_esol J) l) = option_map (flip_box_state J) (eps_box_run c l).
Proof. unfold eps_box_run. apply (eps_box_run_from_flip c J l ([], 0%nat)). Qed.

Lemma eps_plain_add_flip c J a s :
  eps_plain_add (flip_ecfg J c) (map (flip_esol J) a) (flip_esol J s) =
  match eps_plain_add c a s with Some (a', r) => Some (map (flip_esol J) a', r) | None => None end.
Proof.
  unfold eps_plain_add, eps_arch_add.
  rewrite (eps_map_opt_flip (eps_compare c s) _ J) by (intro x; apply eps_compare_flip).
  destruct (eps_map_opt (eps_compare c s) a) as [flags|]; [|reflexivity].
  destruct (existsb (fun x => (x >? 0)%Z) flags); [reflexivity|].
  rewrite eps_compress_map, map_app. reflexivity.
Qed.

(* Archive(EpsilonDominance(eps)) *)
Theorem eps_plain_archive_flip c J : forall l a,
  eps_plain_run_from (flip_ecfg J c) (map (flip_esol J) a) (map (flip_esol J) l) =
  option_map (map (flip_esol J)) (eps_plain_run_from c a l).
Proof.
  induction l as [|s r IH]; intro a; [reflexivity|]. cbn [eps_plain_run_from map]. rewrite eps_plain_add_flip.
  destruct (eps_plain_add c a s) as [[a' ret]|]; [apply IH | reflexivity].
Qed.

(* --- non-dominated ranks --- *)
Section RankEquivariance.
  Variable V : Type.
  Variables cmp cmp' : sol V -> sol V -> Z.
  Variable f : sol V -> sol V.
  Hypothesis cmp_f : forall x y, cmp' (f x) (f y) = cmp x y.
  Hypothesis sid_f : forall x, sid (f x) = sid x.

  Lemma mem_sid_map x l : mem_sid (f x) (map f l) = mem_sid x l.
  Proof. unfold mem_sid. rewrite sid_f. induction l as [|y r IH]; [reflexivity|]. simpl. now rewrite sid_f, IH. Qed.

  Lemma has_sid_map i l : has_sid i (map f l) = has_sid i l.
  Proof. unfold has_sid. induction l as [|y r IH]; [reflexivity|]. simpl. now rewrite sid_f, IH. Qed.

  Definition flip_log (log : list (nat * list (sol V) * unit)) : list (nat * list (sol V) * unit) :=
    map (fun e => match e with (r, front, cr) => (r, map f front, cr) end) log.

  Lemma nd_loop_equiv : forall fuel l rank,
    nd_loop cmp' (fun _ => Some tt) fuel (map f l) rank = option_map flip_log (nd_loop cmp (fun _ => Some tt) fuel l rank).
  Proof.
    induction fuel as [|fuel IH]; intros l rank; destruct l as [|x r]; try reflexivity.
    cbn [nd_loop map].
    change (f x :: map f r) with (map f (x :: r)).
    rewrite (archive_equiv (sol V) cmp cmp' f cmp_f (x :: r)).
    assert (E : filter (fun y => negb (mem_sid y (map f (archive (sol V) cmp (x :: r))))) (map f (x :: r)) =
                map f (filter (fun y => negb (mem_sid y (archive (sol V) cmp (x :: r)))) (x :: r))).
    { generalize (archive (sol V) cmp (x :: r)) as front. intro front. generalize (x :: r) as l0.
      induction l0 as [|y l0 IH0]; [reflexivity|]. simpl. rewrite mem_sid_map.
      destruct (mem_sid y front); simpl; now rewrite IH0. }
    rewrite E, IH.
    destruct (nd_loop cmp (fun _ => Some tt) fuel _ (S rank)); reflexivity.
  Qed.

  Lemma rank_of_flip_log log i : rank_of (flip_log log) i = rank_of log i.
  Proof.
    induction log as [|[[r front] cr] rest IH]; [reflexivity|]. simpl. rewrite IH, has_sid_map. reflexivity.
  Qed.
End RankEquivariance.

(* nondominated_sort leaves the same rank on every object *)
Theorem rank_flip c dirs J (l : list xsol) :
  x_ranks c (flipd J dirs) (map (flip_xsol J) l) = x_ranks c dirs l.
Proof.
  unfold x_ranks. rewrite map_length.
  rewrite (nd_loop_equiv xq (x_sol_cmp c dirs) (x_sol_cmp c (flipd J dirs)) (flip_xsol J)
             (fun x y => x_sol_cmp_flip c dirs J x y) (fun x => eq_refl)).
  destruct (nd_loop (x_sol_cmp c dirs) (fun _ => Some tt) (length l) l 0%nat) as [log|]; [|reflexivity].
  simpl. f_equal. rewrite map_map. apply map_ext. intro x.
  apply (rank_of_flip_log xq (flip_xsol J) (fun x => eq_refl)).
Qed.

(* ================= normalisation: norm' = 1 - norm on J ================= *)
Lemma flipv_length {V} (neg : V -> V) : forall J o, length (flipv neg J o) = length o.
Proof. induction J as [|j J IH]; intros [|x r]; simpl; auto. Qed.

Lemma flipd_length : forall J d, length (flipd J d) = length d.
Proof. induction J as [|j J IH]; intros [|x r]; simpl; auto. Qed.

Lemma flip_min_length : forall J mins maxs, length (flip_min J mins maxs) = length mins.
Proof. induction J as [|j J IH]; intros [|lo ls] [|hi hs]; simpl; auto. Qed.
Lemma flip_max_length : forall J mins maxs, length (flip_max J mins maxs) = length maxs.
Proof. induction J as [|j J IH]; intros [|lo ls] [|hi hs]; simpl; auto. Qed.

Lemma Forall2_Qeq_refl l : Forall2 Qeq l l.
Proof. induction l; constructor; auto. reflexivity. Qed.

(* (-o - (-max)) / (-min - (-max)) == 1 - (o - min)/(max - min) *)
Theorem normalize_flip : forall J o mins maxs,
  Forall2 (fun lo hi => ~ hi - lo == 0) mins maxs ->
  Forall2 Qeq (normv (flip_min J mins maxs) (flip_max J mins maxs) (flipq J o)) (flipn J (normv mins maxs o)).
Proof.
  unfold normv, flipq, flipn.
  induction J as [|j J IH]; intros o mins maxs HR.
  - simpl. destruct mins, maxs; apply Forall2_Qeq_refl.
  - destruct o as [|a o]; [simpl; destruct mins, maxs; constructor|].
    destruct HR as [|lo hi ls hs Hnz HR]; [simpl; constructor|].
    cbn [flipv flip_min flip_max zip3]. constructor; [|now apply IH].
    destruct j; [|reflexivity]. field; repeat split; intro E; apply Hnz; lra.
Qed.

Lemma Forall2_nth_intro {A B} (R : A -> B -> Prop) da db : forall l l', length l = length l' ->
  (forall k, (k < length l)%nat -> R (nth k l da) (nth k l' db)) -> Forall2 R l l'.
Proof.
  induction l as [|a r IH]; intros [|b r'] Hl H; try discriminate; constructor.
  - apply (H 0%nat). simpl. lia.
  - apply IH; [simpl in Hl; lia|]. intros k Hk. apply (H (S k)). simpl. lia.
Qed.

Lemma Forall2_Qeq_nth : forall a b, Forall2 Qeq a b -> forall i, nth i a 0 == nth i b 0.
Proof. induction 1; intros [|i]; simpl; auto; reflexivity. Qed.

Lemma nth_flipv {V} (neg : V -> V) d : forall J o k, (k < length o)%nat ->
  nth k (flipv neg J o) d = if nth k J false then neg (nth k o d) else nth k o d.
Proof.
  induction J as [|j J IH]; intros o k Hk; [simpl; destruct k; reflexivity|].
  destruct o as [|x r]; [simpl in Hk; lia|]. destruct k as [|k]; [reflexivity|]. simpl. apply IH. simpl in Hk. lia.
Qed.

Lemma nth_flip_min : forall J mins maxs k, (k < length mins)%nat -> (k < length maxs)%nat ->
  nth k (flip_min J mins maxs) 0 = if nth k J false then - nth k maxs 0 else nth k mins 0.
Proof.
  induction J as [|j J IH]; intros mins maxs k H1 H2; [simpl; destruct k; reflexivity|].
  destruct mins as [|lo ls]; [simpl in H1; lia|]. destruct maxs as [|hi hs]; [simpl in H2; lia|].
  destruct k as [|k]; [reflexivity|]. simpl. apply IH; simpl in *; lia.
Qed.
Lemma nth_flip_max : forall J mins maxs k, (k < length mins)%nat -> (k < length maxs)%nat ->
  nth k (flip_max J mins maxs) 0 = if nth k J false then - nth k mins 0 else nth k maxs 0.
Proof.
  induction J as [|j J IH]; intros mins maxs k H1 H2; [simpl; destruct k; reflexivity|].
  destruct mins as [|lo ls]; [simpl in H1; lia|]. destruct maxs as [|hi hs]; [simpl in H2; lia|].
  destruct k as [|k]; [reflexivity|]. simpl. apply IH; simpl in *; lia.
Qed.

(* bounds that normalize accepts stay accepted *)
Lemma empty_range_total nobjs mins maxs : length mins = nobjs -> length maxs = nobjs ->
  empty_range nobjs mins maxs =
  Ok (existsb (fun b : bool => b) (map (fun i => Qltb (Qabs (nth i maxs 0 - nth i mins 0)) EPSILON) (seq 0 nobjs))).
Proof.
  intros Hlo Hhi. unfold empty_range.
  rewrite (mapM_ok_map _ (fun i => Qltb (Qabs (nth i maxs 0 - nth i mins 0)) EPSILON)); [reflexivity|].
  intros i Hi. apply in_seq in Hi. rewrite (nth_res_ok mins i 0) by lia. rewrite (nth_res_ok maxs i 0) by lia. reflexivity.
Qed.

Lemma empty_range_flip nobjs J mins maxs : length mins = nobjs -> length maxs = nobjs ->
  empty_range nobjs (flip_min J mins maxs) (flip_max J mins maxs) = empty_range nobjs mins maxs.
Proof.
  intros Hlo Hhi. rewrite !empty_range_total; auto; [|now rewrite flip_min_length | now rewrite flip_max_length].
  do 2 f_equal. apply map_ext_in. intros k Hk. apply in_seq in Hk.
  rewrite nth_flip_min, nth_flip_max by lia. destruct (nth k J false); [|reflexivity].
  apply Qltb_proper_l.
  assert (E : - nth k mins 0 - - nth k maxs 0 == nth k maxs 0 - nth k mins 0) by ring. now rewrite E.
Qed.

Lemma nonzero_ranges nobjs mins maxs : length mins = nobjs -> length maxs = nobjs ->
  empty_range nobjs mins maxs = Ok false -> Forall2 (fun lo hi => ~ hi - lo == 0) mins maxs.
Proof.
  intros Hlo Hhi He. apply (Forall2_nth_intro _ 0 0); [congruence|]. intros k Hk.
  pose proof (empty_range_false nobjs mins maxs He Hlo Hhi k ltac:(lia)) as Habs.
  intro E. rewrite E in Habs. assert (0 < EPSILON) by reflexivity. simpl in Habs. lra.
Qed.

(* ================= the textbook functions under x -> 1 - x on J ================= *)
Lemma dev_flip : forall dirs J r s,
  Forall2 Qeq (dev (flipd J dirs) (flipn J r) (flipn J s)) (dev dirs r s).
Proof.
  unfold dev, flipn. induction dirs as [|mx ds IH]; intros J r s.
  - destruct J; simpl; constructor.
  - destruct J as [|j J]; [apply Forall2_Qeq_refl|].
    destruct s as [|a s]; [simpl; constructor|]. destruct r as [|b r]; [simpl; constructor|].
    cbn [flipd flipv zip3]. constructor; [|apply IH].
    unfold adj_diff. destruct j, mx; simpl; ring.
Qed.

Theorem eps_textbook_flip dirs J R S :
  eps_textbook (flipd J dirs) (map (flipn J) R) (map (flipn J) S) == eps_textbook dirs R S.
Proof.
  unfold eps_textbook. rewrite map_map. apply lmax_veq.
  apply Forall2_map with (P := eq); [apply Forall2_same; reflexivity|]. intros r ? <-.
  rewrite map_map. apply lmin_veq. apply Forall2_map with (P := eq); [apply Forall2_same; reflexivity|].
  intros s ? <-. apply lmax_veq. apply dev_flip.
Qed.

Lemma sqd_flip : forall J x y, sqd (flipn J x) (flipn J y) == sqd x y.
Proof.
  unfold sqd, qsum, flipn. induction J as [|j J IH]; intros x y; [reflexivity|].
  destruct x as [|a x]; [reflexivity|]. destruct y as [|b y]; [reflexivity|].
  cbn [flipv zip2 fold_right]. rewrite IH. destruct j; ring.
Qed.

Theorem gd_terms_flip J R S :
  Forall2 Qeq (gd_terms_textbook (map (flipn J) R) (map (flipn J) S)) (gd_terms_textbook R S).
Proof.
  unfold gd_terms_textbook. rewrite map_map. apply Forall2_map with (P := eq); [apply Forall2_same; reflexivity|].
  intros s ? <-. unfold nsq. rewrite map_map. apply lmin_veq.
  apply Forall2_map with (P := eq); [apply Forall2_same; reflexivity|]. intros r ? <-. apply sqd_flip.
Qed.

(* ================= reference sets: the bounds of the flipped set ================= *)
Lemma lmin_opp l : l <> [] -> lmin (map Qopp l) == - lmax l.
Proof.
  intro Hne. assert (Hm : map Qopp l <> []) by (intro E; apply map_eq_nil in E; contradiction).
  apply Qle_antisym.
  - pose proof (lmin_le (map Qopp l) (- lmax l) ltac:(apply in_map; now apply lmax_in)). lra.
  - pose proof (lmin_in _ Hm) as Hin. apply in_map_iff in Hin. destruct Hin as [x [E Hx]].
    rewrite <- E. pose proof (lmax_ge l x Hx). lra.
Qed.
Lemma lmax_opp l : l <> [] -> lmax (map Qopp l) == - lmin l.
Proof.
  intro Hne. assert (Hm : map Qopp l <> []) by (intro E; apply map_eq_nil in E; contradiction).
  apply Qle_antisym.
  - pose proof (lmax_in _ Hm) as Hin. apply in_map_iff in Hin. destruct Hin as [x [E Hx]].
    rewrite <- E. pose proof (lmin_le l x Hx). lra.
  - pose proof (lmax_ge (map Qopp l) (- lmin l) ltac:(apply in_map; now apply lmin_in)). lra.
Qed.

Lemma feasible_map_flip J l : feasible (map (flip_isol J) l) = map (flip_isol J) (feasible l).
Proof.
  unfold feasible. induction l as [|s r IH]; [reflexivity|]. simpl.
  change (feasibleb (flip_isol J s)) with (feasibleb s). destruct (feasibleb s); simpl; now rewrite IH.
Qed.

Lemma colv_flip nobjs J Rf k : (forall s, In s Rf -> length (Indicators.s_objs s) = nobjs) -> (k < nobjs)%nat ->
  colv (map (flip_isol J) Rf) k = if nth k J false then map Qopp (colv Rf k) else colv Rf k.
Proof.
  intros Hl Hk. unfold colv. rewrite map_map.
  destruct (nth k J false) eqn:Ej; [rewrite map_map|]; apply map_ext_in; intros s Hs; simpl;
    unfold flipq; rewrite nth_flipv by (rewrite (Hl s Hs); exact Hk); now rewrite Ej.
Qed.

Lemma wf_ref_lengths nobjs ref set c st0 : accepted nobjs ref set c st0 ->
  forall s, In s (feasible ref) -> length (Indicators.s_objs s) = nobjs.
Proof. intros Hacc s Hs. apply (proj1 (acc_wf _ _ _ _ _ Hacc)). apply in_or_app. now left. Qed.

Theorem bounds_flip nobjs J ref set set' c c' st0 st0' :
  accepted nobjs ref set c st0 -> accepted nobjs (map (flip_isol J) ref) set' c' st0' ->
  Forall2 Qeq (i_min c') (flip_min J (i_min c) (i_max c)) /\ Forall2 Qeq (i_max c') (flip_max J (i_min c) (i_max c)).
Proof.
  intros Hacc Hacc'.
  pose proof (wf_ref_lengths _ _ _ _ _ Hacc) as Hl. pose proof (wf_ref_lengths _ _ _ _ _ Hacc') as Hl'.
  destruct (accepted_facts _ _ _ _ _ Hacc) as [_ [_ [C [D [E _]]]]].
  destruct (accepted_facts _ _ _ _ _ Hacc') as [_ [_ [_ [D' [E' _]]]]].
  destruct (ind_make_bounds_textbook nobjs [] ref c st0 (acc_nobjs _ _ _ _ _ Hacc) (acc_make _ _ _ _ _ Hacc) Hl) as [Emin Emax].
  destruct (ind_make_bounds_textbook nobjs [] _ c' st0' (acc_nobjs _ _ _ _ _ Hacc') (acc_make _ _ _ _ _ Hacc') Hl') as [Emin' Emax'].
  rewrite feasible_map_flip in Emin', Emax'.
  assert (Hcol : forall k, colv (feasible ref) k <> []) by (intros k E0; apply map_eq_nil in E0; contradiction).
  split; apply (Forall2_nth_intro _ 0 0); try (rewrite ?flip_min_length, ?flip_max_length; congruence); intros k Hk.
  - rewrite D' in Hk. rewrite nth_flip_min by lia. rewrite Emin', Emin, Emax, !nth_map_seq by exact Hk.
    rewrite (colv_flip nobjs J (feasible ref) k Hl Hk). destruct (nth k J false); [now apply lmin_opp | reflexivity].
  - rewrite E' in Hk. rewrite nth_flip_max by lia. rewrite Emax', Emin, Emax, !nth_map_seq by exact Hk.
    rewrite (colv_flip nobjs J (feasible ref) k Hl Hk). destruct (nth k J false); [now apply lmax_opp | reflexivity].
Qed.

(* normalised objectives of the flipped objects = 1 - (normalised objectives) on J *)
Theorem normed_flip nobjs J ref set set' c c' st0 st0' s :
  accepted nobjs ref set c st0 -> accepted nobjs (map (flip_isol J) ref) set' c' st0' ->
  Forall2 Qeq (normed c' (flip_isol J s)) (flipn J (normed c s)).
Proof.
  intros Hacc Hacc'. destruct (bounds_flip _ J _ _ _ _ _ _ _ Hacc Hacc') as [B1 B2].
  destruct (accepted_facts _ _ _ _ _ Hacc) as [_ [_ [_ [D [E [F _]]]]]].
  unfold normed. simpl.
  apply Forall2_Qeq_trans with (normv (flip_min J (i_min c) (i_max c)) (flip_max J (i_min c) (i_max c)) (flipq J (Indicators.s_objs s))).
  - now apply normv_veq.
  - apply normalize_flip. now apply (nonzero_ranges nobjs).
Qed.

Lemma normed_flip_lists nobjs J ref set set' c c' st0 st0' l :
  accepted nobjs ref set c st0 -> accepted nobjs (map (flip_isol J) ref) set' c' st0' ->
  Forall2 (Forall2 Qeq) (map (normed c') (map (flip_isol J) l)) (map (flipn J) (map (normed c) l)).
Proof.
  intros Hacc Hacc'. rewrite !map_map. apply Forall2_map with (P := eq); [apply Forall2_same; reflexivity|].
  intros s ? <-. now apply (normed_flip nobjs J ref set set' c c' st0 st0').
Qed.

(* ================= the indicators ================= *)
Theorem eps_indicator_flip nobjs dirs J ref set c c' st0 st0' :
  accepted nobjs ref set c st0 -> accepted nobjs (map (flip_isol J) ref) (map (flip_isol J) set) c' st0' ->
  length dirs = nobjs ->
  match eps_indicator nobjs dirs ref set, eps_indicator nobjs (flipd J dirs) (map (flip_isol J) ref) (map (flip_isol J) set) with
  | Ok XInf, Ok XInf => True
  | Ok (XFin e), Ok (XFin e') => e == e'
  | _, _ => False
  end.
Proof.
  intros Hacc Hacc' Hd.
  rewrite (eps_unfold nobjs dirs ref set c st0 Hacc Hd).
  rewrite (eps_unfold nobjs (flipd J dirs) _ _ c' st0' Hacc') by (now rewrite flipd_length).
  rewrite !feasible_map_flip.
  destruct (feasible set) as [|a r] eqn:E; [exact I|]. rewrite <- E. simpl map at 1.
  destruct (map (flip_isol J) (feasible set)) eqn:E2; [rewrite E in E2; discriminate|]. rewrite <- E2.
  symmetry.
  rewrite (eps_textbook_veq (flipd J dirs) _ _ _ _
             (normed_flip_lists nobjs J ref set _ c c' st0 st0' (feasible ref) Hacc Hacc')
             (normed_flip_lists nobjs J ref set _ c c' st0 st0' (feasible set) Hacc Hacc')).
  apply eps_textbook_flip.
Qed.

Theorem gd_flip nobjs J ref set c c' st0 st0' :
  accepted nobjs ref set c st0 -> accepted nobjs (map (flip_isol J) ref) (map (flip_isol J) set) c' st0' ->
  match gd_indicator nobjs ref set, gd_indicator nobjs (map (flip_isol J) ref) (map (flip_isol J) set) with
  | Ok IInf, Ok IInf => True
  | Ok (ITerms ts n), Ok (ITerms ts' n') => Forall2 Qeq ts' ts /\ n = n'
  | _, _ => False
  end.
Proof.
  intros Hacc Hacc'.
  rewrite (gd_unfold nobjs ref set c st0 Hacc), (gd_unfold nobjs _ _ c' st0' Hacc').
  rewrite !feasible_map_flip.
  destruct (feasible set) as [|a r] eqn:E; [exact I|]. rewrite <- E.
  destruct (map (flip_isol J) (feasible set)) eqn:E2; [rewrite E in E2; discriminate|]. rewrite <- E2.
  split; [|now rewrite map_length].
  eapply Forall2_Qeq_trans; [|apply (gd_terms_flip J)].
  apply gd_terms_veq; now apply (normed_flip_lists nobjs J ref set (map (flip_isol J) set) c c' st0 st0').
Qed.

Theorem igd_flip nobjs J ref set c c' st0 st0' :
  accepted nobjs ref set c st0 -> accepted nobjs (map (flip_isol J) ref) (map (flip_isol J) set) c' st0' ->
  match igd_indicator nobjs ref set, igd_indicator nobjs (map (flip_isol J) ref) (map (flip_isol J) set) with
  | Ok IInf, Ok IInf => True
  | Ok (ITerms ts n), Ok (ITerms ts' n') => Forall2 Qeq ts' ts /\ n = n'
  | _, _ => False
  end.
Proof.
  intros Hacc Hacc'.
  rewrite (igd_unfold nobjs ref set c st0 Hacc), (igd_unfold nobjs _ _ c' st0' Hacc').
  rewrite !feasible_map_flip.
  destruct (feasible set) as [|a r] eqn:E; [exact I|]. rewrite <- E.
  destruct (map (flip_isol J) (feasible set)) eqn:E2; [rewrite E in E2; discriminate|]. rewrite <- E2.
  split; [|now rewrite map_length].
  eapply Forall2_Qeq_trans; [|apply (gd_terms_flip J)].
  apply gd_terms_veq; now apply (normed_flip_lists nobjs J ref set (map (flip_isol J) set) c c' st0 st0').
Qed.

(* ================= hypervolume ================= *)
Lemma Qle_bool_proper a a' b b' : a == a' -> b == b' -> Qle_bool a b = Qle_bool a' b'.
Proof.
  intros Ea Eb. destruct (Qle_bool a b) eqn:E1, (Qle_bool a' b') eqn:E2; try reflexivity.
  - apply Qle_bool_iff in E1. assert (a' <= b') by lra. apply Qle_bool_iff in H. congruence.
  - apply Qle_bool_iff in E2. assert (a <= b) by lra. apply Qle_bool_iff in H. congruence.
Qed.

Lemma clip01_cases x : (x <= 0 /\ clip01 x == 0) \/ (0 <= x <= 1 /\ clip01 x == x) \/ (1 <= x /\ clip01 x == 1).
Proof.
  unfold clip01. destruct (Qltb x 1) eqn:E1.
  - apply Qltb_lt in E1. destruct (Qltb 0 x) eqn:E2.
    + apply Qltb_lt in E2. right. left. split; [lra | reflexivity].
    + apply Qltb_false in E2. left. split; [lra | reflexivity].
  - apply Qltb_false in E1. right. right. split; [lra|]. destruct (Qltb 0 1) eqn:E2; [reflexivity | apply Qltb_false in E2; lra].
Qed.

Lemma clip01_eq x y : x == y -> clip01 x == clip01 y.
Proof. intro E. destruct (clip01_cases x) as [[A B]|[[A B]|[A B]]], (clip01_cases y) as [[C D]|[[C D]|[C D]]]; lra. Qed.

Lemma clip01_compl z : clip01 (1 - z) == 1 - clip01 z.
Proof. destruct (clip01_cases (1 - z)) as [[A B]|[[A B]|[A B]]], (clip01_cases z) as [[C D]|[[C D]|[C D]]]; lra. Qed.

Lemma goodv_veq : forall dirs v v', Forall2 Qeq v v' -> Forall2 Qeq (goodv dirs v) (goodv dirs v').
Proof.
  unfold goodv. induction dirs as [|mx ds IH]; intros v v' H; [constructor|].
  destruct H as [|a a' r r' Ea Hr]; [constructor|]. simpl. constructor; [|now apply IH].
  unfold goodness. pose proof (clip01_eq a a' Ea). destruct mx; lra.
Qed.

Lemma goodv_flip : forall dirs J v, Forall2 Qeq (goodv (flipd J dirs) (flipn J v)) (goodv dirs v).
Proof.
  unfold goodv, flipn. induction dirs as [|mx ds IH]; intros J v; [destruct J; constructor|].
  destruct J as [|j J]; [apply Forall2_Qeq_refl|]. destruct v as [|a v]; [constructor|].
  cbn [flipd flipv zip2]. constructor; [|apply IH].
  unfold goodness. pose proof (clip01_compl a). destruct j, mx; simpl; lra.
Qed.

Lemma keepb_veq : forall dirs v v', Forall2 Qeq v v' -> keepb dirs v = keepb dirs v'.
Proof.
  unfold keepb. induction dirs as [|mx ds IH]; intros v v' H; [reflexivity|].
  destruct H as [|a a' r r' Ea Hr]; [reflexivity|]. simpl. f_equal; [|now apply IH].
  unfold not_worse_than_nadir. destruct mx; apply Qle_bool_proper; auto; reflexivity.
Qed.

Lemma keepb_flip : forall dirs J v, keepb (flipd J dirs) (flipn J v) = keepb dirs v.
Proof.
  unfold keepb, flipn. induction dirs as [|mx ds IH]; intros J v; [destruct J; reflexivity|].
  destruct J as [|j J]; [reflexivity|]. destruct v as [|a v]; [reflexivity|].
  cbn [flipd flipv zip2 forallb]. f_equal; [|apply IH].
  unfold not_worse_than_nadir. destruct j, mx; simpl; try reflexivity.
  - destruct (Qle_bool (1 - a) 1) eqn:E1, (Qle_bool 0 a) eqn:E2; try reflexivity.
    + apply Qle_bool_iff in E1. assert (0 <= a) by lra. apply Qle_bool_iff in H. congruence.
    + apply Qle_bool_iff in E2. assert (1 - a <= 1) by lra. apply Qle_bool_iff in H. congruence.
  - destruct (Qle_bool 0 (1 - a)) eqn:E1, (Qle_bool a 1) eqn:E2; try reflexivity.
    + apply Qle_bool_iff in E1. assert (a <= 1) by lra. apply Qle_bool_iff in H. congruence.
    + apply Qle_bool_iff in E2. assert (0 <= 1 - a) by lra. apply Qle_bool_iff in H. congruence.
Qed.

(* the points entering the volume are the same (goodness coordinates ==), in the same order *)
Lemma spec_points_flip dirs J mins maxs mins' maxs' set :
  (forall s, Forall2 Qeq (normv mins' maxs' (flipq J (Indicators.s_objs s))) (flipn J (normv mins maxs (Indicators.s_objs s)))) ->
  Forall2 (Forall2 Qeq) (spec_points (flipd J dirs) mins' maxs' (map (flip_isol J) set)) (spec_points dirs mins maxs set).
Proof.
  intro HN. rewrite !spec_points_eq, feasible_map_flip.
  rewrite (filter_map_comm (flip_isol J)), map_map.
  rewrite (filter_ext (fun x => keepb (flipd J dirs) (normv mins' maxs' (Indicators.s_objs (flip_isol J x))))
                      (fun x => keepb dirs (normv mins maxs (Indicators.s_objs x)))).
  - apply Forall2_map with (P := eq); [apply Forall2_same; reflexivity|]. intros s ? <-. simpl.
    eapply Forall2_Qeq_trans; [apply goodv_veq; apply HN | apply goodv_flip].
  - intro s. simpl. rewrite (keepb_veq _ _ _ (HN s)). apply keepb_flip.
Qed.

Lemma hv_spec_veq d P P' : Forall2 (Forall2 Qeq) P P' -> nnP P -> nnP P' -> hv_spec d P == hv_spec d P'.
Proof.
  intros HF HP HP'. apply hv_cover_eq; auto.
  - intros a Ha. destruct (Forall2_in_l _ _ _ _ HF Ha) as [b [Hb E]]. exists b. split; [exact Hb|].
    intros i _. unfold coord. rewrite (Forall2_Qeq_nth a b E i). lra.
  - intros b Hb. destruct (Forall2_in_r _ _ _ _ HF Hb) as [a [Ha E]]. exists a. split; [exact Ha|].
    intros i _. unfold coord. rewrite (Forall2_Qeq_nth a b E i). lra.
Qed.

Lemma wf_set_flip nobjs J set : wf_set nobjs (feasible set) -> wf_set nobjs (feasible (map (flip_isol J) set)).
Proof.
  intros [A B]. rewrite feasible_map_flip. split.
  - intros s Hs. apply in_map_iff in Hs. destruct Hs as [x [<- Hx]]. simpl. unfold flipq. rewrite flipv_length. now apply A.
  - intros s s' Hs Hs' E. apply in_map_iff in Hs. apply in_map_iff in Hs'.
    destruct Hs as [x [<- Hx]]. destruct Hs' as [y [<- Hy]]. simpl in E. now rewrite (B x y Hx Hy E).
Qed.

Lemma hv_pre_flip nobjs dirs J mins maxs : hv_pre nobjs dirs mins maxs ->
  hv_pre nobjs (flipd J dirs) (flip_min J mins maxs) (flip_max J mins maxs).
Proof.
  intros [A [B [C [D E]]]]. repeat split; auto.
  - now rewrite flipd_length.
  - now rewrite flip_min_length.
  - now rewrite flip_max_length.
  - now rewrite empty_range_flip.
Qed.

(* HYPERVOLUME, explicit bounds: the value is unchanged *)
Theorem hv_flip nobjs dirs J mins maxs set :
  hv_pre nobjs dirs mins maxs -> wf_set nobjs (feasible set) ->
  exists v v', hv_indicator repaired nobjs dirs (inl (mins, maxs)) set = Ok v /\
               hv_indicator repaired nobjs (flipd J dirs) (flip_hv_bounds J (inl (mins, maxs))) (map (flip_isol J) set) = Ok v' /\
               v == v'.
Proof.
  intros Hp Hw.
  destruct (hv_exact_bounds nobjs dirs mins maxs set Hp Hw) as [v [R E]].
  destruct (hv_exact_bounds nobjs _ _ _ _ (hv_pre_flip nobjs dirs J mins maxs Hp) (wf_set_flip nobjs J set Hw)) as [v' [R' E']].
  exists v, v'. split; [exact R|]. split; [exact R'|]. rewrite E, E'. symmetry.
  apply hv_spec_veq; try apply nnP_spec_points.
  apply spec_points_flip. intro s. apply normalize_flip.
  destruct Hp as [_ [_ [C [D Er]]]]. now apply (nonzero_ranges nobjs).
Qed.

(* HYPERVOLUME, bounds through a reference set *)
Theorem hv_flip_refset nobjs dirs J ref set c c' st0 st0' :
  (2 <= nobjs)%nat -> length dirs = nobjs ->
  accepted nobjs ref set c st0 -> accepted nobjs (map (flip_isol J) ref) (map (flip_isol J) set) c' st0' ->
  wf_set nobjs (feasible set) ->
  exists v v', hv_indicator repaired nobjs dirs (inr ref) set = Ok v /\
               hv_indicator repaired nobjs (flipd J dirs) (flip_hv_bounds J (inr ref)) (map (flip_isol J) set) = Ok v' /\
               v == v'.
Proof.
  intros HD Hd Hacc Hacc' Hw.
  destruct (hv_exact_refset nobjs dirs ref set c st0 HD Hd (acc_make _ _ _ _ _ Hacc) Hw) as [v [R E]].
  destruct (hv_exact_refset nobjs (flipd J dirs) _ _ c' st0' HD ltac:(now rewrite flipd_length) (acc_make _ _ _ _ _ Hacc')
              (wf_set_flip nobjs J set Hw)) as [v' [R' E']].
  exists v, v'. split; [exact R|]. split; [exact R'|]. rewrite E, E'. symmetry.
  apply hv_spec_veq; try apply nnP_spec_points.
  apply spec_points_flip. intro s.
  exact (normed_flip nobjs J ref set (map (flip_isol J) set) c c' st0 st0' s Hacc Hacc').
Qed.

(* ================= concrete instances ================= *)
Definition exJ : list bool := [true; false].

Example ex10_flipped_accepted :
  exists c' st0', accepted 2 (map (flip_isol exJ) ex16_ref) (map (flip_isol exJ) ex16_set) c' st0' /\
                  i_min c' = [-(4); 0] /\ i_max c' = [-0; 2].
Proof.
  destruct (ind_make 2 [] (map (flip_isol exJ) ex16_ref)) as [[c st0]|] eqn:E; [|vm_compute in E; discriminate].
  exists c, st0. split.
  - constructor; [lia | exact E |].
    assert (Ef : feasible (map (flip_isol exJ) ex16_ref) ++ feasible (map (flip_isol exJ) ex16_set) =
                 [ISol 100 [-0;2] 0; ISol 101 [-(4);0] 0; ISol 102 [-(2);1] 0; ISol 0 [-(1);1] 0; ISol 102 [-(2);1] 0; ISol 1 [-(5);-1#1] 0])
      by (vm_compute; reflexivity).
    rewrite Ef. split.
    + intros s Hs. simpl in Hs. repeat (destruct Hs as [<-|Hs]; [reflexivity|]). contradiction.
    + intros s s' Hs Hs' Es. simpl in Hs, Hs'.
      repeat (destruct Hs as [<-|Hs]; [repeat (destruct Hs' as [<-|Hs']; [first [reflexivity | discriminate]|]); contradiction|]).
      contradiction.
  - vm_compute in E. injection E as Ec _. subst c. split; reflexivity.
Qed.

Example ex10_values :
  (* dominance and epsilon-dominance *)
  x_pareto_compare false [false; true] (Build_dsol [F 1 0; F 1 1] xzero) (Build_dsol [F 1 1; F 1 0] xzero) = (-1)%Z /\
  x_pareto_compare false (flipd exJ [false; true]) (flip_dsol xneg exJ (Build_dsol [F 1 0; F 1 1] xzero))
                   (flip_dsol xneg exJ (Build_dsol [F 1 1; F 1 0] xzero)) = (-1)%Z /\
  (* indicators on the data of C16's example, first objective flipped *)
  xval_is (eps_indicator 2 [true; false] ex16_ref ex16_set) (-1 # 4) = true /\
  xval_is (eps_indicator 2 (flipd exJ [true; false]) (map (flip_isol exJ) ex16_ref) (map (flip_isol exJ) ex16_set)) (-1 # 4) = true /\
  terms_are (gd_indicator 2 (map (flip_isol exJ) ex16_ref) (map (flip_isol exJ) ex16_set)) [1#16; 0; 5#16] 3 = true /\
  terms_are (igd_indicator 2 (map (flip_isol exJ) ex16_ref) (map (flip_isol exJ) ex16_set)) [5#16; 5#16; 0] 3 = true /\
  (* hypervolume of C15's example, objectives 0 and 2 flipped *)
  res_is (hv_indicator repaired 3 (flipd [true; false; true] ex_dirs) (flip_hv_bounds [true; false; true] (inl ([0;0;0], [1;1;1])))
            (map (flip_isol [true; false; true]) ex_set)) (33 # 64) = true.
Proof. repeat split; vm_compute; reflexivity. Qed.

(* the hypervolume code before fixes/9c6b890.diff violates the law: max-form (2, 1/2) in [0,1]^2
   gives 0, its min-form (-2, -1/2) in [-1,0]^2 gives 1/2 (DESIGN.md section 7 #3) *)
Example prerepair_hv_violates_flip :
  res_is (hv_indicator (HvFlags false true) 2 [true; true] (inl ([0;0], [1;1])) [ISol 0 [2; 1#2] 0]) 0 = true /\
  res_is (hv_indicator (HvFlags false true) 2 (flipd [true; true] [true; true]) (flip_hv_bounds [true; true] (inl ([0;0], [1;1])))
            (map (flip_isol [true; true]) [ISol 0 [2; 1#2] 0])) (1 # 2) = true /\
  res_is (hv_indicator repaired 2 [true; true] (inl ([0;0], [1;1])) [ISol 0 [2; 1#2] 0]) (1 # 2) = true.
Proof. repeat split; vm_compute; reflexivity. Qed.

(* the epsilon-indicator code before fixes/9cf8f73.diff ignored the directions, i.e. computed the
   all-minimised formula whatever the declared directions: max-form 0, min-form 1/2 (section 7 #5) *)
Definition prerepair_eps (nobjs : nat) (dirs : list bool) := eps_indicator nobjs (map (fun _ => false) dirs).
Example prerepair_eps_violates_flip :
  xval_is (prerepair_eps 2 [true; true] [ISol 100 [0;1] 0; ISol 101 [1;0] 0] [ISol 0 [1#2;0] 0; ISol 1 [0;1#2] 0]) 0 = true /\
  xval_is (prerepair_eps 2 (flipd [true; true] [true; true]) (map (flip_isol [true; true]) [ISol 100 [0;1] 0; ISol 101 [1;0] 0])
             (map (flip_isol [true; true]) [ISol 0 [1#2;0] 0; ISol 1 [0;1#2] 0])) (1 # 2) = true /\
  xval_is (eps_indicator 2 [true; true] [ISol 100 [0;1] 0; ISol 101 [1;0] 0] [ISol 0 [1#2;0] 0; ISol 1 [0;1#2] 0]) (1 # 2) = true.
Proof. repeat split; vm_compute; reflexivity. Qed.
