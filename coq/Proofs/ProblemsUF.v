(* Proofs/ProblemsUF.v — C18, part 3: UF1-4, UF7 (CEC 2009), every n >= 3.
   The generated evaluate is a fold_left over range(2, n+1) with a tuple of accumulators; [canon_loop4]/[canon_loop6]
   bring the generated step function into the canonical parity-split form (the summands are found by unification, so
   rewriting the summand expression in the source does not break the script), [fold_step4]/[fold_step6] are the fold
   invariants relating the accumulators to the sums over odd/even j. *)
From Coq Require Import Reals List ZArith Lia Lra Bool.
Import ListNotations.
From PV Require Import Base.RList Gen.Problems Model.ProblemsRef Proofs.ProblemsProofs.
Open Scope R_scope.
Set Default Timeout 60.

(* canonical form of the CEC-2009 accumulation loop: odd j feeds (sum1,count1), even j feeds (sum2,count2) *)
Definition step4 (Y1 Y2 : Z -> R) (st : R * Z * R * Z) (j : Z) : R * Z * R * Z :=
  let '(s1, c1, s2, c2) := st in
  if (j mod 2 =? 1)%Z then (s1 + Y1 j, (c1 + 1)%Z, s2, c2) else (s1, c1, s2 + Y2 j, (c2 + 1)%Z).

(* partial sums over j = 2 .. m+1, by parity of t = j - 2 (j odd <-> t odd) *)
Definition psum (odd : bool) (Y : Z -> R) (m : nat) : R :=
  big_sum (fun t => if Bool.eqb (Nat.odd t) odd then Y (2 + Z.of_nat t)%Z else 0) m.
Fixpoint pcnt (odd : bool) (m : nat) : Z :=
  match m with O => 0%Z | S k => (pcnt odd k + (if Bool.eqb (Nat.odd k) odd then 1 else 0))%Z end.

Lemma parity_shift : forall t, ((2 + Z.of_nat t) mod 2 =? 1)%Z = Nat.odd t.
Proof.
  intros t. rewrite <- Nat.negb_even. rewrite Z.add_comm, <- (Z.mul_1_l 2) at 1. rewrite Z_mod_plus_full.
  destruct (Nat.even t) eqn:E.
  - apply Nat.even_spec in E. destruct E as [k ->]. rewrite Nat2Z.inj_mul. simpl (Z.of_nat 2).
    rewrite Z.mul_comm, Z_mod_mult. reflexivity.
  - apply (f_equal negb) in E. rewrite Nat.negb_even in E. simpl in E. apply Nat.odd_spec in E. destruct E as [k ->].
    rewrite Nat2Z.inj_add, Nat2Z.inj_mul. simpl (Z.of_nat 2). simpl (Z.of_nat 1).
    rewrite Z.add_comm, Z.mul_comm, Z_mod_plus_full. reflexivity.
Qed.

Lemma fold_step4 : forall Y1 Y2 m,
  fold_left (step4 Y1 Y2) (zrange 2 (2 + Z.of_nat m)) (0, 0%Z, 0, 0%Z)
  = (psum true Y1 m, pcnt true m, psum false Y2 m, pcnt false m).
Proof.
  intros Y1 Y2 m. rewrite (zrange_from 2 (2 + Z.of_nat m) m) by lia.
  induction m as [|m IH]; [reflexivity|].
  rewrite seq_S, map_app, fold_left_app, IH. cbn [map fold_left Nat.add]. unfold step4.
  rewrite parity_shift. unfold psum. cbn [big_sum pcnt].
  destruct (Nat.odd m); cbn [Bool.eqb]; f_equal; try f_equal; try f_equal; try ring.
Qed.

Lemma fold_left_ext_fun : forall {A B} (f g : A -> B -> A) l a, (forall s j, f s j = g s j) -> fold_left f l a = fold_left g l a.
Proof. intros A B f g l. induction l as [|h t IH]; intros a H; simpl; [reflexivity|]. rewrite H. now apply IH. Qed.

Lemma IZR_pcnt : forall odd m, IZR (pcnt odd m) = big_sum (fun t => if Bool.eqb (Nat.odd t) odd then 1 else 0) m.
Proof.
  intros odd m. induction m as [|m IH]; [reflexivity|]. cbn [pcnt big_sum]. rewrite plus_IZR, IH.
  destruct (Bool.eqb (Nat.odd m) odd); reflexivity.
Qed.

(* bring "for j in range(2, nvars+1): ... if j % 2 == 1: (sum1, count1) else: (sum2, count2)" into canonical form *)
Ltac canon_loop4 :=
  match goal with
  | |- context [fold_left ?F ?L ?I] =>
      let Y1 := fresh "Y1" in let Y2 := fresh "Y2" in
      evar (Y1 : Z -> R); evar (Y2 : Z -> R);
      let E := fresh "E" in
      assert (E : forall st j, F st j = step4 Y1 Y2 st j)
        by (intros [[[s1 c1] s2] c2] j; unfold step4, Y1, Y2; cbv beta iota zeta;
            destruct (j mod 2 =? 1)%Z; reflexivity);
      rewrite (fold_left_ext_fun _ _ L I E); clear E
  end.


Lemma psum_sumJ : forall odd (Y : Z -> R) (y : nat -> R) n,
  (forall t, (t < n - 1)%nat -> Nat.odd (t + 2) = odd -> Y (2 + Z.of_nat t)%Z = y (t + 2)%nat) -> psum odd Y (n - 1) = sumJ odd y n.
Proof.
  intros odd Y y n H. unfold psum, sumJ. apply big_sum_ext. intros t Ht.
  destruct (Bool.eqb (Nat.odd t) odd) eqn:E; [|reflexivity]. apply H; [assumption|].
  apply Bool.eqb_prop in E. rewrite Nat.odd_add. simpl (Nat.odd 2). now rewrite xorb_false_r.
Qed.

(* six accumulators (UF3): sums, products and counts *)
Definition step6 (Y1 Y2 P1 P2 : Z -> R) (st : R * R * Z * R * R * Z) (j : Z) : R * R * Z * R * R * Z :=
  let '(s1, p1, c1, s2, p2, c2) := st in
  if (j mod 2 =? 1)%Z then (s1 + Y1 j, p1 * P1 j, (c1 + 1)%Z, s2, p2, c2) else (s1, p1, c1, s2 + Y2 j, p2 * P2 j, (c2 + 1)%Z).
Definition pprod (odd : bool) (P : Z -> R) (m : nat) : R :=
  big_prod (fun t => if Bool.eqb (Nat.odd t) odd then P (2 + Z.of_nat t)%Z else 1) m.
Lemma fold_step6 : forall Y1 Y2 P1 P2 m,
  fold_left (step6 Y1 Y2 P1 P2) (zrange 2 (2 + Z.of_nat m)) (0, 1, 0%Z, 0, 1, 0%Z)
  = (psum true Y1 m, pprod true P1 m, pcnt true m, psum false Y2 m, pprod false P2 m, pcnt false m).
Proof.
  intros Y1 Y2 P1 P2 m. rewrite (zrange_from 2 (2 + Z.of_nat m) m) by lia.
  induction m as [|m IH]; [reflexivity|].
  rewrite seq_S, map_app, fold_left_app, IH. cbn [map fold_left Nat.add]. unfold step6.
  rewrite parity_shift. unfold psum, pprod. cbn [big_sum big_prod pcnt].
  destruct (Nat.odd m); cbn [Bool.eqb]; repeat (f_equal; try ring).
Qed.
Lemma pprod_prodJ : forall odd (P : Z -> R) (q : nat -> R) n,
  (forall t, (t < n - 1)%nat -> Nat.odd (t + 2) = odd -> P (2 + Z.of_nat t)%Z = q (t + 2)%nat) -> pprod odd P (n - 1) = prodJ odd q n.
Proof.
  intros odd P q n H. unfold pprod, prodJ. apply big_prod_ext. intros t Ht.
  destruct (Bool.eqb (Nat.odd t) odd) eqn:E; [|reflexivity]. apply H; [assumption|].
  apply Bool.eqb_prop in E. rewrite Nat.odd_add. simpl (Nat.odd 2). now rewrite xorb_false_r.
Qed.
Ltac canon_loop6 :=
  match goal with
  | |- context [fold_left ?F ?L ?I] =>
      let Y1 := fresh "Y1" in let Y2 := fresh "Y2" in let P1 := fresh "P1" in let P2 := fresh "P2" in
      evar (Y1 : Z -> R); evar (Y2 : Z -> R); evar (P1 : Z -> R); evar (P2 : Z -> R);
      let E := fresh "E" in
      assert (E : forall st j, F st j = step6 Y1 Y2 P1 P2 st j)
        by (intros [[[[[s1 p1] c1] s2] p2] c2] j; unfold step6, Y1, Y2, P1, P2; cbv beta iota zeta;
            destruct (j mod 2 =? 1)%Z; reflexivity);
      rewrite (fold_left_ext_fun _ _ L I E); clear E
  end.

Lemma sumJ_nonneg : forall odd y n, (forall j, 0 <= y j) -> 0 <= sumJ odd y n.
Proof. intros odd y n H. unfold sumJ. apply big_sum_nonneg. intros t _. destruct (Bool.eqb (Nat.odd t) odd); [apply H|lra]. Qed.
Lemma big_prod_abs_le_1 : forall f n, (forall i, Rabs (f i) <= 1) -> Rabs (big_prod f n) <= 1.
Proof.
  intros f n H. induction n as [|n IH]; cbn [big_prod]; [rewrite Rabs_R1; lra|].
  rewrite Rabs_mult. pose proof (H n). pose proof (Rabs_pos (f n)). pose proof (Rabs_pos (big_prod f n)). nra.
Qed.
Lemma prodJ_cos_le_1 : forall odd a n, prodJ odd (fun j => cos (a j)) n <= 1.
Proof.
  intros odd a n. unfold prodJ.
  pose proof (big_prod_abs_le_1 (fun t => if Bool.eqb (Nat.odd t) odd then cos (a (t + 2)%nat) else 1) (n - 1)) as B.
  assert (Rabs (big_prod (fun t => if Bool.eqb (Nat.odd t) odd then cos (a (t + 2)%nat) else 1) (n - 1)) <= 1).
  { apply B. intros i. destruct (Bool.eqb (Nat.odd i) odd); [|rewrite Rabs_R1; lra].
    apply Rabs_le. pose proof (COS_bound (a (i + 2)%nat)). lra. }
  pose proof (Rle_abs (big_prod (fun t => if Bool.eqb (Nat.odd t) odd then cos (a (t + 2)%nat) else 1) (n - 1))). lra.
Qed.

Lemma IZR_pcnt_cntJ : forall odd n, IZR (pcnt odd (n - 1)) = cntJ odd n.
Proof. intros. apply IZR_pcnt. Qed.

Lemma cntJ_pos_odd : forall n, (3 <= n)%nat -> 1 <= cntJ true n.
Proof.
  intros n H. unfold cntJ. destruct n as [|[|[|n]]]; try lia.
  replace (S (S (S n)) - 1)%nat with (S (S n)) by lia.
  assert (G : forall m, 1 <= big_sum (fun t => if Bool.eqb (Nat.odd t) true then 1 else 0) (S (S m))).
  { induction m as [|m IH]; [simpl; lra|]. cbn [big_sum] in *. destruct (Bool.eqb (Nat.odd (S (S m))) true); lra. }
  apply G.
Qed.
Lemma cntJ_pos_even : forall n, (2 <= n)%nat -> 1 <= cntJ false n.
Proof.
  intros n H. unfold cntJ. destruct n as [|[|n]]; try lia.
  replace (S (S n) - 1)%nat with (S n) by lia.
  assert (G : forall m, 1 <= big_sum (fun t => if Bool.eqb (Nat.odd t) false then 1 else 0) (S m)).
  { induction m as [|m IH]; [simpl; lra|]. cbn [big_sum] in *. destruct (Bool.eqb (Nat.odd (S m)) false); lra. }
  apply G.
Qed.

Section UF.
  Variable n : nat.
  Variable x : list R.
  Hypothesis Hn : (3 <= n)%nat.
  Hypothesis Hl : length x = n.

  (* index/coercion normalisation inside the loop body at j = 2 + t *)
  Ltac uf_body t :=
    repeat rewrite (py_nth_eq x (2 + Z.of_nat t - 1)%Z (t + 1)) by lia;
    repeat rewrite (py_nth_eq x 0%Z 0) by reflexivity;
    replace (2 + Z.of_nat t)%Z with (Z.of_nat (t + 2)) by lia;
    rewrite <- ?INR_IZR_INZ; rewrite ?Hl;
    replace (t + 2 - 1)%nat with (t + 1)%nat by lia.

  Ltac uf_loop :=
    cbv zeta; canon_loop4;
    replace (Z.of_nat n + 1)%Z with (2 + Z.of_nat (n - 1))%Z by lia; rewrite fold_step4; cbv beta iota;
    rewrite !IZR_pcnt_cntJ.

  Lemma uf1_gen_eq_ref : UF1_eval 2 (Z.of_nat n) x = uf1_ref x.
  Proof.
    unfold UF1_eval. uf_loop.
    rewrite (psum_sumJ true Y1 (fun j => uf_y1 x j ^ 2) n), (psum_sumJ false Y2 (fun j => uf_y1 x j ^ 2) n).
    2,3: intros t Ht Hodd; unfold Y1, Y2, uf_y1, X; cbv beta; uf_body t; real_eq.
    unfold uf1_ref. cbv zeta. rewrite Hl. rewrite (py_nth_eq x 0%Z 0) by reflexivity. unfold X.
    pose proof (cntJ_pos_odd n Hn). pose proof (cntJ_pos_even n ltac:(lia)).
    apply cons_eq; [|apply cons_eq; [|reflexivity]]; real_eq.
  Qed.

  Ltac two_objs := apply cons_eq; [|apply cons_eq; [|reflexivity]].
  Ltac uf_finish :=
    cbv zeta; rewrite ?Hl; repeat rewrite (py_nth_eq x 0%Z 0) by reflexivity; unfold X;
    pose proof (cntJ_pos_odd n Hn); pose proof (cntJ_pos_even n ltac:(lia)); two_objs; real_eq.

  Lemma uf2_gen_eq_ref : UF2_eval 2 (Z.of_nat n) x = uf2_ref x.
  Proof.
    unfold UF2_eval. uf_loop.
    rewrite (psum_sumJ true Y1 (fun j => uf2_y x j ^ 2) n), (psum_sumJ false Y2 (fun j => uf2_y x j ^ 2) n).
    2,3: intros t Ht Hodd; unfold Y1, Y2, uf2_y, X; cbv beta zeta; rewrite Hodd; uf_body t; real_eq.
    unfold uf2_ref. uf_finish.
  Qed.

  Lemma uf4_gen_eq_ref : UF4_eval 2 (Z.of_nat n) x = uf4_ref x.
  Proof.
    unfold UF4_eval. uf_loop.
    rewrite (psum_sumJ true Y1 (fun j => uf4_h (uf_y1 x j)) n), (psum_sumJ false Y2 (fun j => uf4_h (uf_y1 x j)) n).
    2,3: intros t Ht Hodd; unfold Y1, Y2, uf4_h, uf_y1, X; cbv beta; uf_body t; same_arg' Rabs; real_eq.
    unfold uf4_ref. uf_finish.
  Qed.

  Lemma uf7_gen_eq_ref : UF7_eval 2 (Z.of_nat n) x = uf7_ref x.
  Proof.
    unfold UF7_eval. uf_loop.
    rewrite (psum_sumJ true Y1 (fun j => uf_y1 x j ^ 2) n), (psum_sumJ false Y2 (fun j => uf_y1 x j ^ 2) n).
    2,3: intros t Ht Hodd; unfold Y1, Y2, uf_y1, X; cbv beta; uf_body t; real_eq.
    unfold uf7_ref. uf_finish.
  Qed.

  Lemma uf3_gen_eq_ref : UF3_eval 2 (Z.of_nat n) x = uf3_ref x.
  Proof.
    unfold UF3_eval. cbv zeta. canon_loop6.
    replace (Z.of_nat n + 1)%Z with (2 + Z.of_nat (n - 1))%Z by lia. rewrite fold_step6. cbv beta iota.
    rewrite !IZR_pcnt_cntJ.
    assert (YE : forall t, (t < n - 1)%nat ->
       py_nth x (2 + Z.of_nat t - 1) - py_rpow (py_nth x 0) (1 / 2 * (1 + 3 * (IZR (2 + Z.of_nat t) - 2) / (IZR (Z.of_nat n) - 2)))
       = uf3_y x (t + 2)).
    { intros t Ht. unfold uf3_y, X. uf_body t. reflexivity. }
    rewrite (psum_sumJ true Y1 (fun j => uf3_y x j ^ 2) n), (psum_sumJ false Y2 (fun j => uf3_y x j ^ 2) n).
    2,3: intros t Ht Hodd; unfold Y1, Y2; cbv beta; same_arg' py_rpow; rewrite <- (YE t Ht); real_eq.
    rewrite (pprod_prodJ true P1 (fun j => cos (20 * uf3_y x j * PI / sqrt (INR j))) n),
            (pprod_prodJ false P2 (fun j => cos (20 * uf3_y x j * PI / sqrt (INR j))) n).
    2,3: intros t Ht Hodd; unfold P1, P2; cbv beta; rewrite <- (YE t Ht);
         replace (INR (t + 2)) with (IZR (2 + Z.of_nat t)) by (rewrite INR_IZR_INZ; f_equal; lia); reflexivity.
    unfold uf3_ref. uf_finish.
  Qed.

  (* ---- UF5, UF6 and the constrained CF1, CF3 (objectives and constraint value) *)
  Lemma uf5_gen_eq_ref : UF5_eval 2 (Z.of_nat n) x = uf5_ref x.
  Proof.
    unfold UF5_eval. uf_loop.
    rewrite (psum_sumJ true Y1 (fun j => uf5_h (uf_y1 x j)) n), (psum_sumJ false Y2 (fun j => uf5_h (uf_y1 x j)) n).
    2,3: intros t Ht Hodd; unfold Y1, Y2, uf5_h, uf_y1, X; cbv beta; uf_body t; real_eq.
    unfold uf5_ref. uf_finish.
  Qed.
  Lemma y1_norm : forall t, (t < n - 1)%nat ->
    py_nth x (2 + Z.of_nat t - 1) - sin (6 * PI * py_nth x 0 + IZR (2 + Z.of_nat t) * PI / IZR (Z.of_nat n)) = uf_y1 x (t + 2).
  Proof. intros t Ht. unfold uf_y1, X. uf_body t. reflexivity. Qed.
  Ltac uf_loop6 :=
    cbv zeta; canon_loop6;
    replace (Z.of_nat n + 1)%Z with (2 + Z.of_nat (n - 1))%Z by lia; rewrite fold_step6; cbv beta iota;
    rewrite !IZR_pcnt_cntJ.
  Ltac y1_terms Y1 Y2 P1 P2 :=
    rewrite (psum_sumJ true Y1 (fun j => uf_y1 x j ^ 2) n), (psum_sumJ false Y2 (fun j => uf_y1 x j ^ 2) n);
    [ rewrite (pprod_prodJ true P1 (fun j => cos (20 * uf_y1 x j * PI / sqrt (INR j))) n),
              (pprod_prodJ false P2 (fun j => cos (20 * uf_y1 x j * PI / sqrt (INR j))) n);
      [ | intros t Ht Hodd; unfold P1, P2; cbv beta; rewrite <- (y1_norm t Ht);
          replace (INR (t + 2)) with (IZR (2 + Z.of_nat t)) by (rewrite INR_IZR_INZ; f_equal; lia); real_eq ..]
    | intros t Ht Hodd; unfold Y1, Y2; cbv beta; rewrite <- (y1_norm t Ht); real_eq .. ].
  Lemma uf6_gen_eq_ref : UF6_eval 2 (Z.of_nat n) x = uf6_ref x.
  Proof.
    unfold UF6_eval. uf_loop6. y1_terms Y1 Y2 P1 P2.
    unfold uf6_ref. cbv zeta. rewrite ?Hl. repeat rewrite (py_nth_eq x 0%Z 0) by reflexivity. unfold X.
    pose proof (cntJ_pos_odd n Hn). pose proof (cntJ_pos_even n ltac:(lia)).
    rewrite (Rmax_comm _ 0). same_arg' (Rmax 0). two_objs; real_eq.
  Qed.
  Lemma cf3_gen_eq_ref : CF3_eval 2 (Z.of_nat n) x = cf3_objs x.
  Proof. unfold CF3_eval. uf_loop6. y1_terms Y1 Y2 P1 P2. unfold cf3_objs. uf_finish. Qed.
  Lemma py_set_single : forall v, py_set (py_repeat 0 1) 0 v = [v]. Proof. reflexivity. Qed.
  Lemma cf3_constr_gen_eq_ref : CF3_constr_eval 2 (Z.of_nat n) x = cf3_constr x.
  Proof.
    pose proof cf3_gen_eq_ref as E. unfold CF3_eval in E. unfold CF3_constr_eval. cbv zeta in *. revert E.
    match goal with |- context [fold_left ?F ?L ?I] => destruct (fold_left F L I) as [[[[[? ?] ?] ?] ?] ?] end. intros E.
    match type of E with [?a; ?b] = _ => set (f1 := a) in *; set (f2 := b) in * end.
    rewrite py_set_single. unfold cf3_constr. cbv zeta. rewrite <- E. cbn [nth]. apply cons_eq; [real_eq|reflexivity].
  Qed.
  Lemma cf1_gen_eq_ref : CF1_eval 2 (Z.of_nat n) x = cf1_objs x.
  Proof.
    unfold CF1_eval. uf_loop.
    assert (YE : forall t, (t < n - 1)%nat ->
       py_nth x (2 + Z.of_nat t - 1) - py_rpow (py_nth x 0) (1 / 2 * (1 + 3 * (IZR (2 + Z.of_nat t) - 2) / (IZR (Z.of_nat n) - 2)))
       = uf3_y x (t + 2)).
    { intros t Ht. unfold uf3_y, X. uf_body t. reflexivity. }
    rewrite (psum_sumJ true Y1 (fun j => uf3_y x j ^ 2) n), (psum_sumJ false Y2 (fun j => uf3_y x j ^ 2) n).
    2,3: intros t Ht Hodd; unfold Y1, Y2; cbv beta; same_arg' py_rpow; rewrite <- (YE t Ht); real_eq.
    unfold cf1_objs. uf_finish.
  Qed.
  Lemma cf1_constr_gen_eq_ref : CF1_constr_eval 2 (Z.of_nat n) x = cf1_constr x.
  Proof.
    pose proof cf1_gen_eq_ref as E. unfold CF1_eval in E. unfold CF1_constr_eval. cbv zeta in *. revert E.
    match goal with |- context [fold_left ?F ?L ?I] => destruct (fold_left F L I) as [[[? ?] ?] ?] end. intros E.
    match type of E with [?a; ?b] = _ => set (f1 := a) in *; set (f2 := b) in * end.
    rewrite py_set_single. unfold cf1_constr. cbv zeta. rewrite <- E. cbn [nth]. apply cons_eq; [same_arg' Rabs; real_eq|reflexivity].
  Qed.

  (* ---- exactly two objectives *)
  Lemma uf1_out_length : length (UF1_eval 2 (Z.of_nat n) x) = 2%nat. Proof. now rewrite uf1_gen_eq_ref. Qed.
  Lemma uf2_out_length : length (UF2_eval 2 (Z.of_nat n) x) = 2%nat. Proof. now rewrite uf2_gen_eq_ref. Qed.
  Lemma uf3_out_length : length (UF3_eval 2 (Z.of_nat n) x) = 2%nat. Proof. now rewrite uf3_gen_eq_ref. Qed.
  Lemma uf4_out_length : length (UF4_eval 2 (Z.of_nat n) x) = 2%nat. Proof. now rewrite uf4_gen_eq_ref. Qed.
  Lemma uf7_out_length : length (UF7_eval 2 (Z.of_nat n) x) = 2%nat. Proof. now rewrite uf7_gen_eq_ref. Qed.
  Lemma uf5_out_length : length (UF5_eval 2 (Z.of_nat n) x) = 2%nat. Proof. now rewrite uf5_gen_eq_ref. Qed.
  Lemma uf6_out_length : length (UF6_eval 2 (Z.of_nat n) x) = 2%nat. Proof. now rewrite uf6_gen_eq_ref. Qed.
  Lemma cf1_out_length : length (CF1_eval 2 (Z.of_nat n) x) = 2%nat /\ length (CF1_constr_eval 2 (Z.of_nat n) x) = 1%nat.
  Proof. now rewrite cf1_gen_eq_ref, cf1_constr_gen_eq_ref. Qed.
  Lemma cf3_out_length : length (CF3_eval 2 (Z.of_nat n) x) = 2%nat /\ length (CF3_constr_eval 2 (Z.of_nat n) x) = 1%nat.
  Proof. now rewrite cf3_gen_eq_ref, cf3_constr_gen_eq_ref. Qed.

  (* ---- no in-bounds point below the published front (only 0 <= x_1 is needed) *)
  Hypothesis Hx0 : 0 <= X x 0.

  Lemma scaled_nonneg : forall c s, 1 <= c -> 0 <= s -> 0 <= 2 / c * s.
  Proof. intros c s Hc Hs. apply Rmult_le_pos; [apply div_nonneg; lra|exact Hs]. Qed.

  Lemma sqrt_front : forall a b, 0 <= a -> 0 <= b -> 1 - sqrt (X x 0 + a) <= 1 - sqrt (X x 0) + b.
  Proof. intros a b Ha Hb. assert (sqrt (X x 0) <= sqrt (X x 0 + a)) by (apply sqrt_le_1_alt; lra). lra. Qed.

  Lemma uf1_front : 1 - sqrt (nth 0 (UF1_eval 2 (Z.of_nat n) x) 0) <= nth 1 (UF1_eval 2 (Z.of_nat n) x) 0.
  Proof.
    rewrite uf1_gen_eq_ref. unfold uf1_ref. cbv zeta. cbn [nth]. rewrite Hl.
    apply sqrt_front; apply scaled_nonneg; try (apply sumJ_nonneg; intros; apply pow2_ge_0).
    - now apply cntJ_pos_odd. - apply cntJ_pos_even; lia.
  Qed.
  Lemma uf2_front : 1 - sqrt (nth 0 (UF2_eval 2 (Z.of_nat n) x) 0) <= nth 1 (UF2_eval 2 (Z.of_nat n) x) 0.
  Proof.
    rewrite uf2_gen_eq_ref. unfold uf2_ref. cbv zeta. cbn [nth]. rewrite Hl.
    apply sqrt_front; apply scaled_nonneg; try (apply sumJ_nonneg; intros; apply pow2_ge_0).
    - now apply cntJ_pos_odd. - apply cntJ_pos_even; lia.
  Qed.
  Lemma uf3_term_nonneg : forall odd, 0 <= 4 * sumJ odd (fun j => uf3_y x j ^ 2) n
      - 2 * prodJ odd (fun j => cos (20 * uf3_y x j * PI / sqrt (INR j))) n + 2.
  Proof.
    intros odd. pose proof (sumJ_nonneg odd (fun j => uf3_y x j ^ 2) n ltac:(intros; apply pow2_ge_0)).
    pose proof (prodJ_cos_le_1 odd (fun j => 20 * uf3_y x j * PI / sqrt (INR j)) n). lra.
  Qed.
  Lemma uf3_front : 1 - sqrt (nth 0 (UF3_eval 2 (Z.of_nat n) x) 0) <= nth 1 (UF3_eval 2 (Z.of_nat n) x) 0.
  Proof.
    rewrite uf3_gen_eq_ref. unfold uf3_ref. cbv zeta. cbn [nth]. rewrite Hl.
    apply sqrt_front; apply scaled_nonneg; try apply uf3_term_nonneg.
    - now apply cntJ_pos_odd. - apply cntJ_pos_even; lia.
  Qed.
  Lemma uf4_h_nonneg : forall t, 0 <= uf4_h t.
  Proof. intros t. unfold uf4_h. apply div_nonneg; [apply Rabs_pos|]. pose proof (exp_pos (2 * Rabs t)). lra. Qed.
  Lemma uf4_front : 1 - nth 0 (UF4_eval 2 (Z.of_nat n) x) 0 ^ 2 <= nth 1 (UF4_eval 2 (Z.of_nat n) x) 0.
  Proof.
    rewrite uf4_gen_eq_ref. unfold uf4_ref. cbv zeta. cbn [nth]. rewrite Hl.
    assert (A : 0 <= 2 / cntJ true n * sumJ true (fun j => uf4_h (uf_y1 x j)) n).
    { apply scaled_nonneg; [now apply cntJ_pos_odd|apply sumJ_nonneg; intros; apply uf4_h_nonneg]. }
    assert (B : 0 <= 2 / cntJ false n * sumJ false (fun j => uf4_h (uf_y1 x j)) n).
    { apply scaled_nonneg; [apply cntJ_pos_even; lia|apply sumJ_nonneg; intros; apply uf4_h_nonneg]. }
    nra.
  Qed.
  Lemma uf7_front : 1 - nth 0 (UF7_eval 2 (Z.of_nat n) x) 0 <= nth 1 (UF7_eval 2 (Z.of_nat n) x) 0.
  Proof.
    rewrite uf7_gen_eq_ref. unfold uf7_ref. cbv zeta. cbn [nth]. rewrite Hl.
    assert (A : 0 <= 2 / cntJ true n * sumJ true (fun j => uf_y1 x j ^ 2) n).
    { apply scaled_nonneg; [now apply cntJ_pos_odd|apply sumJ_nonneg; intros; apply pow2_ge_0]. }
    assert (B : 0 <= 2 / cntJ false n * sumJ false (fun j => uf_y1 x j ^ 2) n).
    { apply scaled_nonneg; [apply cntJ_pos_even; lia|apply sumJ_nonneg; intros; apply pow2_ge_0]. }
    lra.
  Qed.

  (* ---- no Python exception on in-bounds input (x_1 in [0,1]; the other variables are unconstrained here) *)
  Lemma pcnt_true_ne0 : IZR (pcnt true (n - 1)) <> 0.
  Proof. rewrite IZR_pcnt_cntJ. pose proof (cntJ_pos_odd n Hn). lra. Qed.
  Lemma pcnt_false_ne0 : IZR (pcnt false (n - 1)) <> 0.
  Proof. rewrite IZR_pcnt_cntJ. pose proof (cntJ_pos_even n ltac:(lia)). lra. Qed.
  Lemma n_ne0 : IZR (Z.of_nat n) <> 0.
  Proof. rewrite <- INR_IZR_INZ. pose proof (le_INR 3 n Hn). simpl in H. lra. Qed.
  Lemma nm2_ne0 : IZR (Z.of_nat n) - 2 <> 0 \/ (n = 2)%nat.
  Proof. left. rewrite <- INR_IZR_INZ. pose proof (le_INR 3 n Hn). simpl in H. lra. Qed.

  Ltac side_atom :=
    lazymatch goal with
    | |- idx_ok _ _ => unfold idx_ok, zlen; rewrite Hl; lia
    | |- IZR (Z.of_nat n) <> 0 => exact n_ne0
    | |- IZR (pcnt true _) <> 0 => exact pcnt_true_ne0
    | |- IZR (pcnt false _) <> 0 => exact pcnt_false_ne0
    | |- 0 <= py_nth x 0 => rewrite (py_nth_eq x 0%Z 0) by reflexivity; exact Hx0
    | |- @eq Z _ _ => reflexivity
    | |- Z.le _ _ => unfold zlen; rewrite Hl; lia
    | |- Z.lt _ _ => unfold zlen; rewrite Hl; lia
    | |- (if ?c then _ else _) => destruct c; repeat split; side_atom
    | |- _ => idtac
    end.
  Ltac uf_defined4 :=
    cbv zeta; split;
    [ apply Forall_forall; intros j Hj; apply in_zrange in Hj; repeat split; side_atom
    | canon_loop4; replace (Z.of_nat n + 1)%Z with (2 + Z.of_nat (n - 1))%Z by lia; rewrite fold_step4; cbv beta iota;
      repeat split; side_atom ].

  Lemma uf1_defined : UF1_defined 2 (Z.of_nat n) x. Proof. unfold UF1_defined. uf_defined4. Qed.
  Lemma uf2_defined : UF2_defined 2 (Z.of_nat n) x. Proof. unfold UF2_defined. uf_defined4. Qed.
  Lemma uf4_defined : UF4_defined 2 (Z.of_nat n) x.
  Proof. unfold UF4_defined. uf_defined4. pose proof (exp_pos (2 * Rabs (py_nth x (j - 1) - sin (6 * PI * py_nth x 0 + IZR j * PI / IZR (Z.of_nat n))))). lra. Qed.

  Lemma rpow_ok_x0 : forall e, 0 <= e -> rpow_ok (py_nth x 0) e.
  Proof.
    intros e He. rewrite (py_nth_eq x 0%Z 0) by reflexivity. fold (X x 0). unfold rpow_ok.
    destruct Hx0 as [P|Z]; [now left|right; split; [now symmetry|exact He]].
  Qed.
  Lemma uf7_defined : UF7_defined 2 (Z.of_nat n) x.
  Proof. unfold UF7_defined. uf_defined4. apply rpow_ok_x0. lra. Qed.

  Ltac uf_defined6 :=
    cbv zeta; split;
    [ apply Forall_forall; intros j Hj; apply in_zrange in Hj; repeat split; side_atom
    | canon_loop6; replace (Z.of_nat n + 1)%Z with (2 + Z.of_nat (n - 1))%Z by lia; rewrite fold_step6; cbv beta iota;
      repeat split; side_atom ].
  Lemma uf3_defined : UF3_defined 2 (Z.of_nat n) x.
  Proof.
    unfold UF3_defined. uf_defined6.
    all: assert (J2 : 2 <= IZR j) by (apply (IZR_le 2); lia);
         assert (N3 : 3 <= IZR (Z.of_nat n)) by (apply (IZR_le 3); lia).
    - lra.
    - apply rpow_ok_x0. assert (0 <= 3 * (IZR j - 2) / (IZR (Z.of_nat n) - 2)) by (apply div_nonneg; lra). lra.
    - lra.
    - apply Rgt_not_eq, sqrt_lt_R0. lra.
  Qed.

  Lemma uf5_defined : UF5_defined 2 (Z.of_nat n) x. Proof. unfold UF5_defined. uf_defined4; lra. Qed.
  Lemma uf6_defined : UF6_defined 2 (Z.of_nat n) x.
  Proof.
    unfold UF6_defined. uf_defined6.
    all: try lra.
    all: assert (J2 : 2 <= IZR j) by (apply (IZR_le 2); lia).
    - lra.
    - apply Rgt_not_eq, sqrt_lt_R0. lra.
  Qed.
End UF.

Example uf_hyps_30 : (3 <= 30)%nat /\ length (repeat (1 / 2) 30) = 30%nat /\ 0 <= X (repeat (1 / 2) 30) 0.
Proof. split; [lia|]. split; [apply repeat_length|]. unfold X. simpl. lra. Qed.
