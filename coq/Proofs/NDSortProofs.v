(* Proofs about Model/NDSort.v.
   Part 1 (generic comparator, hypotheses of ArchiveProofs): the peeling loop terminates
           within len(population) rounds and leaves rank = domination depth.
   Part 2 (xq, exact rational arithmetic): crowding distance. *)
From Coq Require Import ZArith QArith Qminmax Bool List Lia Lqa Permutation Sorted.
Import ListNotations.
From PV Require Import Base.Num Base.Order Base.StableSort Model.Dominance Proofs.DominanceProofs
     Model.Archive Proofs.ArchiveProofs Model.NDSort.
Open Scope Z_scope.

(* identities determine the object: two entries with the same sid are the same solution *)
Definition sid_inj {V} (l : list (sol V)) : Prop :=
  forall x y, In x l -> In y l -> sid x = sid y -> x = y.

Lemma sid_inj_incl {V} (l l' : list (sol V)) : incl l' l -> sid_inj l -> sid_inj l'.
Proof. intros Hi H x y Hx Hy. apply H; now apply Hi. Qed.

Lemma NoDup_sid_inj {V} (l : list (sol V)) : NoDup (map sid l) -> sid_inj l.
Proof.
  induction l as [|a l IH]; intros Hnd x y Hx Hy E; [contradiction|].
  simpl in Hnd. inversion Hnd as [|s m Hnotin Hnd']; subst.
  destruct Hx as [<-|Hx], Hy as [<-|Hy]; try reflexivity.
  - exfalso. apply Hnotin. rewrite E. now apply in_map.
  - exfalso. apply Hnotin. rewrite <- E. now apply in_map.
  - now apply IH.
Qed.

Lemma has_sid_In {V} (i : nat) (l : list (sol V)) : has_sid i l = true <-> exists y, In y l /\ sid y = i.
Proof.
  unfold has_sid. rewrite existsb_exists. split; intros [y [Hy E]]; exists y; split; auto.
  - now apply Nat.eqb_eq.
  - now apply Nat.eqb_eq.
Qed.

Lemma mem_sid_has {V} (x : sol V) l : mem_sid x l = has_sid (sid x) l.
Proof. reflexivity. Qed.

Lemma mem_sid_iff {V} (R f : list (sol V)) x : sid_inj R -> incl f R -> In x R ->
  (mem_sid x f = true <-> In x f).
Proof.
  intros Hinj Hf Hx. rewrite mem_sid_has, has_sid_In. split.
  - intros [y [Hy E]]. assert (y = x) by (apply Hinj; auto). now subst.
  - intro H. now exists x.
Qed.

Section RankProofs.
  Variable V : Type.
  Notation T := (sol V).
  Variable cmp : T -> T -> Z.
  Variable P : T -> Prop.
  Variable CR : Type.
  Variable crowd : list T -> option CR.
  Notation dom := (dom T cmp).
  Notation nd := (nd T cmp).
  Notation archive := (archive T cmp).
  Notation nd_loop := (nd_loop cmp crowd).

  Hypothesis cmp_range : forall x y, cmp x y = -1 \/ cmp x y = 0 \/ cmp x y = 1.
  Hypothesis cmp_antisym : forall x y, P x -> P y -> cmp y x = - cmp x y.
  Hypothesis dom_trans : forall x y z, P x -> P y -> P z ->
                                       dom x y = true -> dom y z = true -> dom x z = true.
  Hypothesis dom_irrefl : forall x, P x -> dom x x = false.

  Definition fronts_of (log : list (nat * list T * CR)) : list (list T) := map (fun e => snd (fst e)) log.
  Definition ranks_of (log : list (nat * list T * CR)) : list nat := map (fun e => fst (fst e)) log.

  (* successive non-dominated layers *)
  Fixpoint layering (R : list T) (fronts : list (list T)) : Prop :=
    match fronts with
    | [] => R = []
    | f :: rest => R <> [] /\ f = filter (nd R) R /\ layering (filter (fun x => negb (nd R x)) R) rest
    end.

  Lemma rest_eq R : Forall P R -> sid_inj R ->
    filter (fun x => negb (mem_sid x (archive R))) R = filter (fun x => negb (nd R x)) R.
  Proof.
    intros HP Hinj. apply filter_ext_in. intros x Hx. f_equal.
    rewrite (archive_char T cmp P cmp_range cmp_antisym dom_trans dom_irrefl R HP).
    destruct (nd R x) eqn:E.
    - apply (mem_sid_iff R); auto.
      + intros y Hy. apply filter_In in Hy. tauto.
      + apply filter_In. auto.
    - destruct (mem_sid x (filter (nd R) R)) eqn:M; [|reflexivity].
      apply (mem_sid_iff R) in M; auto.
      + apply filter_In in M. destruct M; congruence.
      + intros y Hy. apply filter_In in Hy. tauto.
  Qed.

  Lemma loop_layering : forall fuel R r log, nd_loop fuel R r = Some log -> Forall P R -> sid_inj R ->
    layering R (fronts_of log) /\ ranks_of log = seq r (length log).
  Proof.
    induction fuel as [|fuel IH]; intros R r log H HP Hinj.
    - destruct R; simpl in H; [|discriminate]. injection H as <-. simpl. auto.
    - destruct R as [|a R0]; [simpl in H; injection H as <-; simpl; auto|].
      set (R := a :: R0) in *.
      cbn [NDSort.nd_loop] in H. fold R in H.
      destruct (crowd (archive R)) as [cr|]; [|discriminate].
      destruct (nd_loop fuel (filter (fun x => negb (mem_sid x (archive R))) R) (S r)) as [rest|] eqn:E; [|discriminate].
      injection H as <-.
      rewrite (rest_eq R HP Hinj) in E.
      assert (HP' : Forall P (filter (fun x => negb (nd R x)) R)) by now apply Forall_filter.
      assert (Hinj' : sid_inj (filter (fun x => negb (nd R x)) R)).
      { eapply sid_inj_incl; [|exact Hinj]. intros y Hy. apply filter_In in Hy. tauto. }
      destruct (IH _ _ _ E HP' Hinj') as [L Rk]. simpl. split.
      + split; [discriminate|]. split; [|exact L].
        apply (archive_char T cmp P cmp_range cmp_antisym dom_trans dom_irrefl R HP).
      + unfold ranks_of in *. simpl. now rewrite Rk.
  Qed.

  (* ---- facts about layerings ---- *)
  Lemma layering_cover : forall fronts R, layering R fronts ->
    forall x, In x R <-> exists k, In x (nth k fronts []).
  Proof.
    induction fronts as [|f rest IH]; intros R L x; simpl in L.
    - subst R. split; [contradiction|]. intros [k Hk]. destruct k; contradiction.
    - destruct L as [_ [Hf L]]. specialize (IH _ L x). split.
      + intro Hx. destruct (nd R x) eqn:E.
        * exists O. simpl. rewrite Hf. apply filter_In. auto.
        * assert (In x (filter (fun x => negb (nd R x)) R)) by (apply filter_In; rewrite E; auto).
          apply IH in H. destruct H as [k Hk]. exists (S k). exact Hk.
      + intros [k Hk]. destruct k; simpl in Hk.
        * rewrite Hf in Hk. apply filter_In in Hk. tauto.
        * assert (In x (filter (fun x => negb (nd R x)) R)) by (apply IH; eauto).
          apply filter_In in H. tauto.
  Qed.

  Lemma layering_disjoint : forall fronts R, layering R fronts ->
    forall j k x, In x (nth j fronts []) -> In x (nth k fronts []) -> j = k.
  Proof.
    induction fronts as [|f rest IH]; intros R L j k x Hj Hk; simpl in L.
    - destruct j; contradiction.
    - destruct L as [_ [Hf L]].
      assert (Hlater : forall m, In x (nth m rest []) -> nd R x = false).
      { intros m Hm. assert (In x (filter (fun x => negb (nd R x)) R)) by (apply (layering_cover _ _ L); eauto).
        apply filter_In in H. destruct H as [_ H]. now apply negb_true_iff in H. }
      assert (Hfirst : In x f -> nd R x = true) by (rewrite Hf; intro H; apply filter_In in H; tauto).
      destruct j, k; simpl in *; try reflexivity.
      + pose proof (Hfirst Hj). pose proof (Hlater _ Hk). congruence.
      + pose proof (Hfirst Hk). pose proof (Hlater _ Hj). congruence.
      + f_equal. eapply IH; eauto.
  Qed.

  (* every dominator of a member of front k sits in a strictly earlier front *)
  Lemma layering_dominators_earlier : forall fronts R, layering R fronts ->
    forall k x, In x (nth k fronts []) -> forall y, In y R -> dom y x = true ->
    exists j, (j < k)%nat /\ In y (nth j fronts []).
  Proof.
    induction fronts as [|f rest IH]; intros R L k x Hx y Hy Hd; simpl in L.
    - destruct k; contradiction.
    - destruct L as [_ [Hf L]]. destruct k; simpl in Hx.
      + exfalso. rewrite Hf in Hx. apply filter_In in Hx. destruct Hx as [_ Hx].
        pose proof (proj1 (nd_true_iff T cmp R x) Hx) as Hx'. rewrite (Hx' y Hy) in Hd. discriminate.
      + destruct (nd R y) eqn:E.
        * exists O. split; [lia|]. simpl. rewrite Hf. apply filter_In. auto.
        * assert (Hy' : In y (filter (fun x => negb (nd R x)) R)) by (apply filter_In; rewrite E; auto).
          destruct (IH _ L k x Hx y Hy' Hd) as [j [Hj Hyj]]. exists (S j). split; [lia|exact Hyj].
  Qed.

  (* every member of front k+1 has a dominator in front k *)
  Lemma layering_dominator_prev : forall fronts R, Forall P R -> layering R fronts ->
    forall k x, In x (nth (S k) fronts []) -> exists y, In y (nth k fronts []) /\ dom y x = true.
  Proof.
    induction fronts as [|f rest IH]; intros R HP L k x Hx; simpl in L.
    - contradiction.
    - destruct L as [_ [Hf L]]. simpl in Hx.
      assert (HxR' : In x (filter (fun x => negb (nd R x)) R)) by (apply (layering_cover _ _ L); eauto).
      destruct k.
      + apply filter_In in HxR'. destruct HxR' as [HxR Hnd]. apply negb_true_iff in Hnd.
        unfold Archive.nd in Hnd. apply negb_false_iff in Hnd.
        pose proof HP as HP'. rewrite Forall_forall in HP'.
        destruct (dominated_by_nd T cmp P dom_trans dom_irrefl R x HP (HP' x HxR) Hnd) as [z [Hz [Hzn Hzx]]].
        exists z. split; [|exact Hzx]. simpl. rewrite Hf. apply filter_In. auto.
      + assert (HP' : Forall P (filter (fun x => negb (nd R x)) R)) by now apply Forall_filter.
        destruct (IH _ HP' L k x Hx) as [y [Hy Hd]]. exists y. split; assumption.
  Qed.

  Lemma layering_nonempty : forall fronts R, Forall P R -> layering R fronts -> Forall (fun f => f <> []) fronts.
  Proof.
    induction fronts as [|f rest IH]; intros R HP L; simpl in L; constructor.
    - destruct L as [Hne [Hf _]].
      destruct (exists_nd T cmp P dom_trans dom_irrefl R HP Hne) as [z [Hz Hnd]].
      intro E. rewrite E in Hf. assert (In z (filter (nd R) R)) by (apply filter_In; auto).
      rewrite <- Hf in H. contradiction.
    - destruct L as [_ [_ L]]. eapply IH; [|exact L]. now apply Forall_filter.
  Qed.

  Lemma filter_length_split {A} (f : A -> bool) l :
    length l = (length (filter f l) + length (filter (fun x => negb (f x)) l))%nat.
  Proof. induction l as [|a l IH]; simpl; [reflexivity|]. destruct (f a); simpl; lia. Qed.

  (* the number of rounds never exceeds the population size *)
  Lemma layering_length : forall fronts R, Forall P R -> layering R fronts -> (length fronts <= length R)%nat.
  Proof.
    induction fronts as [|f rest IH]; intros R HP L; simpl; [lia|].
    pose proof (layering_nonempty _ _ HP L) as NE. inversion NE as [|f' r' Hf _]; subst.
    simpl in L. destruct L as [_ [Ef L]].
    assert (HP' : Forall P (filter (fun x => negb (nd R x)) R)) by now apply Forall_filter.
    pose proof (IH _ HP' L) as B. pose proof (filter_length_split (nd R) R) as S.
    rewrite <- Ef in S. destruct f; [congruence|]. simpl in S. lia.
  Qed.

  (* ---- termination: fuel = len(population) suffices ---- *)
  Lemma nd_loop_fuel : forall fuel R r, Forall P R -> sid_inj R -> (length R <= fuel)%nat ->
    (forall f, incl f R -> crowd f <> None) -> exists log, nd_loop fuel R r = Some log.
  Proof.
    induction fuel as [|fuel IH]; intros R r HP Hinj Hlen Hc.
    - destruct R; [exists []; reflexivity|simpl in Hlen; lia].
    - destruct R as [|a R0]; [exists []; reflexivity|].
      set (R := a :: R0) in *. cbn [NDSort.nd_loop]. fold R.
      assert (Hsub : incl (archive R) R).
      { rewrite (archive_char T cmp P cmp_range cmp_antisym dom_trans dom_irrefl R HP).
        intros y Hy. apply filter_In in Hy. tauto. }
      destruct (crowd (archive R)) as [cr|] eqn:Ec; [|exfalso; now apply (Hc _ Hsub)].
      rewrite (rest_eq R HP Hinj).
      set (R' := filter (fun x => negb (nd R x)) R).
      assert (HP' : Forall P R') by now apply Forall_filter.
      assert (Hincl : incl R' R) by (intros y Hy; apply filter_In in Hy; tauto).
      assert (Hinj' : sid_inj R') by (eapply sid_inj_incl; eauto).
      assert (Hlt : (length R' <= fuel)%nat).
      { pose proof (filter_length_split (nd R) R) as S. fold R' in S.
        assert (R <> []) by discriminate.
        destruct (exists_nd T cmp P dom_trans dom_irrefl R HP H) as [z [Hz Hnd]].
        assert (In z (filter (nd R) R)) by (apply filter_In; auto).
        destruct (filter (nd R) R); [contradiction|]. simpl in S, Hlen. lia. }
      assert (Hc' : forall f, incl f R' -> crowd f <> None).
      { intros f Hf. apply Hc. intros y Hy. apply Hincl. now apply Hf. }
      destruct (IH R' (Datatypes.S r) HP' Hinj' Hlt Hc') as [rest Hrest].
      rewrite Hrest. eexists. reflexivity.
  Qed.

  (* ---- rank_of reads the front index ---- *)
  Lemma rank_of_some : forall (log : list (nat * list T * CR)) i r,
    rank_of log i = Some r -> exists k, nth_error (ranks_of log) k = Some r /\ has_sid i (nth k (fronts_of log) []) = true.
  Proof.
    induction log as [|[[r0 f] cr] rest IH]; intros i r H; simpl in H; [discriminate|].
    destruct (rank_of rest i) as [r'|] eqn:E.
    - injection H as <-. destruct (IH i r' E) as [k [H1 H2]]. exists (S k). auto.
    - destruct (has_sid i f) eqn:Hs; [|discriminate]. injection H as <-. exists O. auto.
  Qed.

  Lemma rank_of_spec : forall fuel R r log, nd_loop fuel R r = Some log -> Forall P R -> sid_inj R ->
    forall x, In x R -> exists k, rank_of log (sid x) = Some (r + k)%nat /\ In x (nth k (fronts_of log) []).
  Proof.
    induction fuel as [|fuel IH]; intros R r log H HP Hinj x Hx.
    - destruct R; [contradiction|discriminate].
    - destruct R as [|a R0]; [contradiction|].
      set (R := a :: R0) in *. cbn [NDSort.nd_loop] in H. fold R in H.
      destruct (crowd (archive R)) as [cr|]; [|discriminate].
      destruct (nd_loop fuel (filter (fun x => negb (mem_sid x (archive R))) R) (S r)) as [rest|] eqn:E; [|discriminate].
      injection H as <-.
      rewrite (rest_eq R HP Hinj) in E.
      set (R' := filter (fun x => negb (nd R x)) R) in *.
      assert (HP' : Forall P R') by now apply Forall_filter.
      assert (Hincl : incl R' R) by (intros y Hy; apply filter_In in Hy; tauto).
      assert (Hinj' : sid_inj R') by (eapply sid_inj_incl; eauto).
      assert (EA : archive R = filter (nd R) R)
        by apply (archive_char T cmp P cmp_range cmp_antisym dom_trans dom_irrefl R HP).
      simpl rank_of. simpl fronts_of.
      destruct (nd R x) eqn:Nx.
      + (* x is in the first front; no later round touches it *)
        exists O. split; [|simpl; rewrite EA; apply filter_In; auto].
        destruct (rank_of rest (sid x)) as [r'|] eqn:Er.
        * exfalso. destruct (rank_of_some _ _ _ Er) as [k [_ Hk]].
          apply has_sid_In in Hk. destruct Hk as [y [Hy Ey]].
          destruct (loop_layering _ _ _ _ E HP' Hinj') as [L _].
          assert (HyR' : In y R') by (apply (layering_cover _ _ L); eauto).
          assert (y = x) by (apply Hinj; auto). subst y.
          apply filter_In in HyR'. rewrite Nx in HyR'. destruct HyR'; discriminate.
        * assert (Hs : has_sid (sid x) (archive R) = true).
          { apply has_sid_In. exists x. split; [|reflexivity]. rewrite EA. apply filter_In. auto. }
          rewrite Hs. f_equal. lia.
      + assert (HxR' : In x R') by (apply filter_In; rewrite Nx; auto).
        destruct (IH _ _ _ E HP' Hinj' x HxR') as [k [Hk Hin]].
        exists (S k). rewrite Hk. split; [f_equal; lia|exact Hin].
  Qed.

  (* ---- the theorems ---- *)
  Section Sorted.
    Variable l : list T.
    Variable log : list (nat * list T * CR).
    Hypothesis Hl : Forall P l.
    Hypothesis Hinj : sid_inj l.
    Hypothesis Hrun : nd_loop (length l) l 0%nat = Some log.

    Definition rank (x : T) : option nat := rank_of log (sid x).

    Lemma rank_front x k : In x l -> (rank x = Some k <-> In x (nth k (fronts_of log) [])).
    Proof.
      intro Hx. destruct (rank_of_spec _ _ _ _ Hrun Hl Hinj x Hx) as [k0 [Hk0 Hin]].
      destruct (loop_layering _ _ _ _ Hrun Hl Hinj) as [L _].
      unfold rank. rewrite Hk0. simpl. split.
      - intro E. injection E as <-. exact Hin.
      - intro H. f_equal. eapply layering_disjoint; eauto.
    Qed.

    Theorem rank_total x : In x l -> exists k, rank x = Some k /\ (k < length l)%nat.
    Proof.
      intro Hx. destruct (rank_of_spec _ _ _ _ Hrun Hl Hinj x Hx) as [k [Hk Hin]].
      destruct (loop_layering _ _ _ _ Hrun Hl Hinj) as [L _].
      exists k. split; [exact Hk|].
      pose proof (layering_length _ _ Hl L) as B.
      assert (k < length (fronts_of log))%nat.
      { destruct (Nat.lt_ge_cases k (length (fronts_of log))) as [|G]; [assumption|].
        rewrite (nth_overflow _ _ G) in Hin. contradiction. }
      lia.
    Qed.

    (* the number of rounds is at most len(population) and every front is non-empty *)
    Theorem rounds_bounded : (length log <= length l)%nat /\ Forall (fun f => f <> []) (fronts_of log).
    Proof.
      destruct (loop_layering _ _ _ _ Hrun Hl Hinj) as [L _]. split.
      - pose proof (layering_length _ _ Hl L) as B. unfold fronts_of in B. now rewrite map_length in B.
      - eapply layering_nonempty; eauto.
    Qed.

    (* ranks used are exactly 0 .. (number of rounds - 1), in order *)
    Theorem ranks_contiguous : ranks_of log = seq 0 (length log).
    Proof. now destruct (loop_layering _ _ _ _ Hrun Hl Hinj) as [_ R]. Qed.

    Theorem rank_zero_iff x : In x l -> (rank x = Some 0%nat <-> forall y, In y l -> dom y x = false).
    Proof.
      intro Hx. rewrite (rank_front x 0 Hx).
      destruct (loop_layering _ _ _ _ Hrun Hl Hinj) as [L _].
      destruct (fronts_of log) as [|f rest] eqn:E; simpl in L.
      - subst l. contradiction.
      - destruct L as [_ [Hf _]]. simpl. rewrite Hf, filter_In, (nd_true_iff T cmp). tauto.
    Qed.

    Lemma rank_succ_only_if x r : In x l -> rank x = Some (S r) ->
      (forall y, In y l -> dom y x = true -> exists j, rank y = Some j /\ (j <= r)%nat) /\
      (exists y, In y l /\ dom y x = true /\ rank y = Some r).
    Proof.
      intros Hx Hr. apply (rank_front x (S r) Hx) in Hr.
      destruct (loop_layering _ _ _ _ Hrun Hl Hinj) as [L _]. split.
      - intros y Hy Hd.
        destruct (layering_dominators_earlier _ _ L _ _ Hr y Hy Hd) as [j [Hj Hin]].
        exists j. split; [now apply (rank_front y j Hy)|lia].
      - destruct (layering_dominator_prev _ _ Hl L r x Hr) as [y [Hy Hd]].
        assert (HyL : In y l) by (apply (layering_cover _ _ L); eauto).
        exists y. repeat split; auto. now apply (rank_front y r HyL).
    Qed.

    (* rank r+1 <=> every dominator has rank <= r and one has rank exactly r *)
    Theorem rank_depth x r : In x l ->
      (rank x = Some (S r) <->
       (forall y, In y l -> dom y x = true -> exists j, rank y = Some j /\ (j <= r)%nat) /\
       (exists y, In y l /\ dom y x = true /\ rank y = Some r)).
    Proof.
      intro Hx. split; [now apply rank_succ_only_if|].
      intros [Hall [y [Hy [Hd Hry]]]].
      destruct (rank_total x Hx) as [k [Hk _]]. destruct k as [|k].
      - exfalso. pose proof (proj1 (rank_zero_iff x Hx) Hk) as Hk0. rewrite (Hk0 y Hy) in Hd. discriminate.
      - destruct (rank_succ_only_if x k Hx Hk) as [Hall' [y' [Hy' [Hd' Hry']]]].
        destruct (Hall' y Hy Hd) as [j [Hj Hjk]]. rewrite Hry in Hj. injection Hj as <-.
        destruct (Hall y' Hy' Hd') as [j' [Hj' Hjr]]. rewrite Hry' in Hj'. injection Hj' as <-.
        rewrite Hk. f_equal. lia.
    Qed.

    (* a dominator always has a strictly smaller rank *)
    Corollary rank_dominator_smaller x y rx ry : In x l -> In y l -> dom y x = true ->
      rank x = Some rx -> rank y = Some ry -> (ry < rx)%nat.
    Proof.
      intros Hx Hy Hd Hrx Hry. destruct rx as [|rx].
      - pose proof (proj1 (rank_zero_iff x Hx) Hrx) as Hk0. rewrite (Hk0 y Hy) in Hd. discriminate.
      - destruct (rank_succ_only_if x rx Hx Hrx) as [Hall _].
        destruct (Hall y Hy Hd) as [j [Hj Hle]]. rewrite Hry in Hj. injection Hj as <-. lia.
    Qed.
  End Sorted.
End RankProofs.

(* ====================================================================== *)
(* Part 2: crowding distance (carrier xq, exact rational arithmetic)       *)
(* ====================================================================== *)
Open Scope nat_scope.

(* ---------- the strict weak order on xq and on objective keys ---------- *)
Lemma xltb_sw : StrictWeak xltb.
Proof.
  split.
  - apply (ol_irrefl _ _ _ xq_laws).
  - apply (ol_trans _ _ _ xq_laws).
  - apply (ol_cotrans _ _ _ xq_laws).
Qed.

Lemma obj_lt_sw i : StrictWeak (obj_lt i).
Proof. apply (StrictWeak_key xltb (obj_at i)), xltb_sw. Qed.

Lemma xeqb_refl x : xeqb x x = true.
Proof. unfold xeqb. now rewrite (ol_irrefl _ _ _ xq_laws). Qed.

Lemma tuple_eqb_refl t : tuple_eqb t t = true.
Proof. induction t as [|x t IH]; simpl; [reflexivity|]. now rewrite xeqb_refl, IH. Qed.

(* ---------- unique ---------- *)
Lemma unique_aux_incl : forall l seen x, In x (unique_aux seen l) -> In x l.
Proof.
  induction l as [|s r IH]; intros seen x H; simpl in *; [assumption|].
  destruct (existsb (tuple_eqb (s_objs s)) seen).
  - right. eapply IH; eauto.
  - destruct H as [<-|H]; [now left|right; eapply IH; eauto].
Qed.

Lemma unique_incl l : incl (unique l) l.
Proof. intros x. apply unique_aux_incl. Qed.

Lemma unique_aux_not_seen : forall l seen x, In x (unique_aux seen l) ->
  existsb (tuple_eqb (s_objs x)) seen = false.
Proof.
  induction l as [|s r IH]; intros seen x H; simpl in *; [contradiction|].
  destruct (existsb (tuple_eqb (s_objs s)) seen) eqn:E.
  - eapply IH; eauto.
  - destruct H as [<-|H]; [assumption|].
    apply IH in H. simpl in H. apply orb_false_iff in H. tauto.
Qed.

(* later members of unique's output differ (as objective tuples) from earlier ones *)
Lemma unique_aux_distinct : forall l seen,
  ForallOrdPairs (fun a b => tuple_eqb (s_objs b) (s_objs a) = false) (unique_aux seen l).
Proof.
  induction l as [|s r IH]; intro seen; simpl; [constructor|].
  destruct (existsb (tuple_eqb (s_objs s)) seen).
  - apply IH.
  - constructor; [|apply IH].
    apply Forall_forall. intros b Hb. apply unique_aux_not_seen in Hb.
    simpl in Hb. apply orb_false_iff in Hb. tauto.
Qed.

Lemma unique_NoDup_sid l : sid_inj l -> NoDup (map sid (unique l)).
Proof.
  intro Hinj. unfold unique.
  pose proof (unique_aux_distinct l []) as D.
  assert (Hin : forall x, In x (unique_aux [] l) -> In x l) by apply unique_aux_incl.
  induction D as [|a r Ha D IH]; simpl; constructor.
  - intro H. apply in_map_iff in H. destruct H as [b [E Hb]].
    assert (b = a) by (apply Hinj; [apply Hin; now right|apply Hin; now left|assumption]).
    subst b. rewrite Forall_forall in Ha. pose proof (Ha a Hb) as F. rewrite tuple_eqb_refl in F. discriminate.
  - apply IH. intros x Hx. apply Hin. now right.
Qed.

(* every member of l is represented in unique l by a member with an equal objective tuple *)
Lemma unique_aux_repr : forall l seen x, In x l ->
  existsb (tuple_eqb (s_objs x)) seen = true \/
  exists y, In y (unique_aux seen l) /\ tuple_eqb (s_objs x) (s_objs y) = true.
Proof.
  induction l as [|s r IH]; intros seen x Hx; [contradiction|]. simpl.
  destruct Hx as [<-|Hx].
  - destruct (existsb (tuple_eqb (s_objs s)) seen) eqn:E; [now left|].
    right. exists s. split; [now left|apply tuple_eqb_refl].
  - destruct (existsb (tuple_eqb (s_objs s)) seen) eqn:E.
    + destruct (IH seen x Hx) as [H|[y [Hy Ey]]]; [now left|right; eauto].
    + destruct (IH (s_objs s :: seen) x Hx) as [H|[y [Hy Ey]]].
      * simpl in H. apply orb_true_iff in H. destruct H as [H|H]; [|now left].
        right. exists s. split; [now left|assumption].
      * right. exists y. split; [now right|assumption].
Qed.

Lemma unique_repr l x : In x l -> exists y, In y (unique l) /\ tuple_eqb (s_objs x) (s_objs y) = true.
Proof. intro Hx. destruct (unique_aux_repr l [] x Hx) as [H|H]; [discriminate|assumption]. Qed.

(* ---------- stores ---------- *)
Lemma cget_cset st i v j : cget (cset st i v) j = if Nat.eqb i j then Some v else cget st j.
Proof. reflexivity. Qed.

Lemma cadd_spec st i v st' : cadd st i v = Some st' ->
  exists w z, cget st i = Some w /\ xadd w v = Some z /\
              forall j, cget st' j = if Nat.eqb i j then Some z else cget st j.
Proof.
  unfold cadd. destruct (cget st i) as [w|]; [|discriminate].
  destruct (xadd w v) as [z|] eqn:E; [|discriminate]. intro H. injection H as <-.
  exists w, z. repeat split; auto.
Qed.

Lemma fold_cset_get (v : xq) : forall (l : list xsol) st j,
  cget (fold_left (fun st s => cset st (sid s) v) l st) j =
  if has_sid j l then Some v else cget st j.
Proof.
  induction l as [|s r IH]; intros st j; simpl; [reflexivity|].
  rewrite IH, cget_cset. destruct (has_sid j r); simpl; [now rewrite orb_true_r|].
  rewrite orb_false_r. reflexivity.
Qed.

(* total addition used to state results (xadd never fails on the values that occur) *)
Definition xplus (a b : xq) : xq := match xadd a b with Some z => z | None => PInf end.
Definition not_ninf (a : xq) : Prop := a <> NInf.

Lemma xadd_ok a b : not_ninf a -> not_ninf b -> xadd a b = Some (xplus a b) /\ not_ninf (xplus a b).
Proof. unfold not_ninf, xplus. destruct a, b; simpl; intros; split; congruence. Qed.

Lemma xplus_pinf_r a : not_ninf a -> xplus a PInf = PInf.
Proof. unfold not_ninf, xplus. destruct a; simpl; congruence. Qed.

Lemma xplus_pinf_l b : not_ninf b -> xplus PInf b = PInf.
Proof. unfold not_ninf, xplus. destruct b; simpl; congruence. Qed.

(* ---------- the interior loop ---------- *)
(* (previous, next) neighbours of the interior element with identity j *)
Fixpoint window_of (w : list xsol) (j : nat) : option (xsol * xsol) :=
  match w with
  | p :: tl =>
      match tl with
      | c :: n :: _ => if Nat.eqb (sid c) j then Some (p, n) else window_of tl j
      | _ => None
      end
  | [] => None
  end.

Lemma window_of_center : forall w j p n, window_of w j = Some (p, n) ->
  exists l1 c l2, w = l1 ++ p :: c :: n :: l2 /\ sid c = j.
Proof.
  induction w as [|a tl IH]; intros j p n H; [discriminate|].
  destruct tl as [|c [|n' r]]; try discriminate.
  cbn [window_of] in H. destruct (Nat.eqb (sid c) j) eqn:E.
  - injection H as <- <-. exists [], c, r. split; [reflexivity|now apply Nat.eqb_eq].
  - destruct (IH j p n H) as [l1 [c' [l2 [Ew Ec]]]]. exists (a :: l1), c', l2. split; [|assumption].
    simpl. now rewrite Ew.
Qed.

Lemma window_of_tail_sid w j p n a : window_of (a :: w) j = Some (p, n) -> has_sid j w = true.
Proof.
  intro H. destruct (window_of_center _ _ _ _ H) as [l1 [c [l2 [Ew Ec]]]].
  apply has_sid_In. exists c. split; [|assumption].
  destruct l1 as [|b l1]; simpl in Ew; injection Ew as _ ->; [now left|].
  apply in_or_app. right. right. now left.
Qed.

(* meaning of window_of: the neighbours in any decomposition around x *)
Lemma window_of_app : forall l1 p x n l2, NoDup (map sid (l1 ++ p :: x :: n :: l2)) ->
  window_of (l1 ++ p :: x :: n :: l2) (sid x) = Some (p, n).
Proof.
  induction l1 as [|a l1 IH]; intros p x n l2 Hnd.
  - simpl. now rewrite Nat.eqb_refl.
  - simpl app. simpl in Hnd. inversion Hnd as [|s m Hnot Hnd']; subst.
    destruct l1 as [|b l1].
    + simpl. simpl in Hnd'. destruct (Nat.eqb (sid p) (sid x)) eqn:E.
      * exfalso. apply Nat.eqb_eq in E. inversion Hnd' as [|s m Hn _]; subst. apply Hn. simpl. now left.
      * simpl in IH. specialize (IH p x n l2 Hnd'). simpl in IH. exact IH.
    + specialize (IH p x n l2 Hnd').
      change (window_of (a :: (b :: l1) ++ p :: x :: n :: l2) (sid x))
        with (window_of (a :: b :: (l1 ++ p :: x :: n :: l2)) (sid x)).
      destruct (l1 ++ p :: x :: n :: l2) as [|c r] eqn:El; [destruct l1; discriminate|].
      cbn [window_of]. destruct (Nat.eqb (sid b) (sid x)) eqn:E.
      * exfalso. apply Nat.eqb_eq in E. simpl in Hnd'. inversion Hnd' as [|s m Hn _]; subst. apply Hn.
        rewrite E. change (sid x :: map sid (n :: l2)) with (map sid (x :: n :: l2)).
        rewrite <- El || idtac. rewrite map_app. apply in_or_app. right. simpl. right. now left.
      * simpl app in IH. rewrite El in IH. exact IH.
Qed.

Section Pass.
  Variable i : nat.
  Variable mn mx : Q.

  (* the value written on the interior element with neighbours (p, n), given its old value w0 *)
  Definition interior_value (p n : xsol) : option xq :=
    if Qltb (mx - mn) EPSILON then Some PInf
    else match fin (obj_at i n), fin (obj_at i p) with
         | Some b, Some a => Some (Fin ((b - a) / (mx - mn)))
         | _, _ => None
         end.

  Lemma interior_step_spec p c n st st' : crowd_interior_step i mn mx p c n st = Some st' ->
    (forall j, Nat.eqb (sid c) j = false -> cget st' j = cget st j) /\
    exists v, interior_value p n = Some v /\
      ((v = PInf /\ cget st' (sid c) = Some PInf) \/
       (exists w z, cget st (sid c) = Some w /\ xadd w v = Some z /\ cget st' (sid c) = Some z)).
  Proof.
    unfold crowd_interior_step, interior_value. destruct (Qltb (mx - mn) EPSILON).
    - intro H. injection H as <-. split.
      + intros j Hj. now rewrite cget_cset, Hj.
      + exists PInf. split; [reflexivity|]. left. split; [reflexivity|]. now rewrite cget_cset, Nat.eqb_refl.
    - destruct (fin (obj_at i n)) as [b|]; [|discriminate]. destruct (fin (obj_at i p)) as [a|]; [|discriminate].
      intro H. destruct (cadd_spec _ _ _ _ H) as [w [z [Hw [Hz Hg]]]]. split.
      + intros j Hj. now rewrite Hg, Hj.
      + eexists. split; [reflexivity|]. right. exists w, z. repeat split; auto. now rewrite Hg, Nat.eqb_refl.
  Qed.

  Lemma crowd_interior_cons3 p c n r st :
    crowd_interior i mn mx (p :: c :: n :: r) st =
    match crowd_interior_step i mn mx p c n st with
    | None => None
    | Some st1 => crowd_interior i mn mx (c :: n :: r) st1
    end.
  Proof. reflexivity. Qed.

  Lemma window_of_cons3 p c n r j :
    window_of (p :: c :: n :: r) j = if Nat.eqb (sid c) j then Some (p, n) else window_of (c :: n :: r) j.
  Proof. reflexivity. Qed.

  Lemma interior_spec : forall w st st', NoDup (map sid w) -> crowd_interior i mn mx w st = Some st' ->
    forall j,
      match window_of w j with
      | None => cget st' j = cget st j
      | Some (p, n) =>
          exists v, interior_value p n = Some v /\
            ((v = PInf /\ cget st' j = Some PInf) \/
             (exists w0 z, cget st j = Some w0 /\ xadd w0 v = Some z /\ cget st' j = Some z))
      end.
  Proof.
    induction w as [|p tl IH]; intros st st' Hnd H j; [simpl in *; now injection H as <-|].
    destruct tl as [|c [|n r]]; try (simpl in *; now injection H as <-).
    rewrite crowd_interior_cons3 in H. rewrite window_of_cons3.
    destruct (crowd_interior_step i mn mx p c n st) as [st1|] eqn:E1; [|discriminate].
    destruct (interior_step_spec _ _ _ _ _ E1) as [Hother [v [Hv Hc]]].
    assert (Hnd' : NoDup (map sid (c :: n :: r))) by (simpl in Hnd; now inversion Hnd).
    specialize (IH st1 st' Hnd' H j).
    destruct (Nat.eqb (sid c) j) eqn:Ecj.
    - apply Nat.eqb_eq in Ecj. subst j.
      assert (Hw : window_of (c :: n :: r) (sid c) = None).
      { destruct (window_of (c :: n :: r) (sid c)) as [[a b]|] eqn:W; [|reflexivity]. exfalso.
        apply window_of_tail_sid in W. apply has_sid_In in W. destruct W as [y [Hy Ey]].
        assert (Hn : ~ In (sid c) (map sid (n :: r))) by (simpl in Hnd'; now inversion Hnd').
        apply Hn. rewrite <- Ey. apply in_map. exact Hy. }
      rewrite Hw in IH. exists v. split; [assumption|]. rewrite IH. exact Hc.
    - rewrite (Hother j Ecj) in IH. exact IH.
  Qed.
End Pass.

(* ---------- one objective ---------- *)
(* what objective i adds to the crowding distance of the member of u with identity j *)
Definition contrib (i : nat) (u : list xsol) (j : nat) : option xq :=
  let srt := sort_by_obj i u in
  match srt with
  | [] => None
  | first :: _ =>
      let lst := last srt first in
      match fin (obj_at i first), fin (obj_at i lst) with
      | Some mn, Some mx =>
          if Nat.eqb (sid first) j || Nat.eqb (sid lst) j then Some PInf
          else match window_of srt j with
               | Some (p, n) => interior_value i mn mx p n
               | None => None
               end
      | _, _ => None
      end
  end.

Lemma last_in_tail {A} (a b : A) l d : In (last (a :: b :: l) d) (b :: l).
Proof.
  revert a b. induction l as [|c l IH]; intros a b; [now left|].
  change (last (a :: b :: c :: l) d) with (last (b :: c :: l) d). right. apply IH.
Qed.

Lemma last_default {A} (l : list A) d d' : l <> [] -> last l d = last l d'.
Proof.
  induction l as [|a r IH]; intro Hne; [congruence|].
  destruct r as [|b r]; [reflexivity|].
  change (last (a :: b :: r) d) with (last (b :: r) d). change (last (a :: b :: r) d') with (last (b :: r) d').
  apply IH. discriminate.
Qed.

Lemma last_app_ne {A} (l1 l2 : list A) d : l2 <> [] -> last (l1 ++ l2) d = last l2 d.
Proof.
  intro Hne. induction l1 as [|a l1 IH]; [reflexivity|].
  simpl app. destruct (l1 ++ l2) eqn:E.
  - destruct l1; [simpl in E; congruence|discriminate].
  - change (last (a :: a0 :: l) d) with (last (a0 :: l) d). exact IH.
Qed.

Lemma NoDup_app_r {A} (l1 l2 : list A) : NoDup (l1 ++ l2) -> NoDup l2.
Proof. induction l1 as [|a l1 IH]; [auto|]. simpl. intro H. inversion H; auto. Qed.

Lemma window_of_last_none w d : NoDup (map sid w) -> window_of w (sid (last w d)) = None.
Proof.
  intro Hnd. destruct (window_of w (sid (last w d))) as [[p n]|] eqn:W; [|reflexivity]. exfalso.
  destruct (window_of_center _ _ _ _ W) as [l1 [c [l2 [Ew Ec]]]]. subst w.
  rewrite last_app_ne in Ec by discriminate.
  pose proof (last_in_tail p c (n :: l2) d) as Hin.
  change (last (p :: c :: n :: l2) d) with (last (c :: n :: l2) d) in Hin.
  pose proof (last_in_tail c n l2 d) as Hin2.
  rewrite map_app in Hnd. apply NoDup_app_r in Hnd. simpl in Hnd.
  inversion Hnd as [|s m _ Hnd1]; subst. inversion Hnd1 as [|s m Hn _]; subst.
  apply Hn. rewrite Ec. change (sid n :: map sid l2) with (map sid (n :: l2)). now apply in_map.
Qed.

Lemma window_of_head_none a w : NoDup (map sid (a :: w)) -> window_of (a :: w) (sid a) = None.
Proof.
  intro Hnd. destruct (window_of (a :: w) (sid a)) as [[p n]|] eqn:W; [|reflexivity]. exfalso.
  apply window_of_tail_sid in W. apply has_sid_In in W. destruct W as [y [Hy Ey]].
  simpl in Hnd. inversion Hnd as [|s m Hn _]; subst. apply Hn. rewrite <- Ey. now apply in_map.
Qed.

Lemma window_of_absent w j : has_sid j w = false -> window_of w j = None.
Proof.
  intro H. destruct (window_of w j) as [[p n]|] eqn:W; [|reflexivity]. exfalso.
  destruct (window_of_center _ _ _ _ W) as [l1 [c [l2 [Ew Ec]]]]. subst w.
  assert (has_sid j (l1 ++ p :: c :: n :: l2) = true).
  { apply has_sid_In. exists c. split; [|assumption]. apply in_or_app. right. right. now left. }
  congruence.
Qed.

Lemma interior_decompose (w : list xsol) x d : In x w -> w <> [] ->
  sid x <> sid (hd d w) -> sid x <> sid (last w d) ->
  exists l1 p n l2, w = l1 ++ p :: x :: n :: l2.
Proof.
  intros Hx Hne Hh Hl. destruct (in_split _ _ Hx) as [a [b E]]. subst w.
  destruct a as [|a0 a] using rev_ind; [simpl in Hh; congruence|]. clear IHa.
  destruct b as [|n b].
  - exfalso. apply Hl. now rewrite last_app_ne by discriminate.
  - exists a, a0, n, b. now rewrite <- app_assoc.
Qed.

Lemma has_sid_perm j (l l' : list xsol) : Permutation l l' -> has_sid j l = has_sid j l'.
Proof. apply existsb_perm. Qed.

Lemma crowd_pass_spec i u st st' :
  NoDup (map sid u) -> 3 <= length u ->
  (forall x, In x u -> exists w, cget st (sid x) = Some w /\ not_ninf w) ->
  crowd_pass i u st = Some st' ->
  (forall x, In x u -> exists w c, cget st (sid x) = Some w /\ not_ninf w /\
       contrib i u (sid x) = Some c /\ not_ninf c /\ cget st' (sid x) = Some (xplus w c))
  /\ (forall j, has_sid j u = false -> cget st' j = cget st j).
Proof.
  intros Hnd Hlen Hbound H.
  unfold crowd_pass in H. unfold contrib.
  pose proof (ssort_perm _ (obj_lt i) u) as HP. fold (sort_by_obj i u) in HP.
  set (srt := sort_by_obj i u) in *.
  assert (Hnds : NoDup (map sid srt)).
  { eapply Permutation_NoDup; [apply Permutation_sym, Permutation_map, HP|assumption]. }
  assert (Hlens : length srt = length u) by now apply Permutation_length.
  destruct srt as [|first rest] eqn:Esrt; [simpl in Hlens; lia|].
  set (lst := last (first :: rest) first) in *.
  destruct (fin (obj_at i first)) as [mn|]; [|discriminate].
  destruct (fin (obj_at i lst)) as [mx|]; [|discriminate].
  destruct (cadd st (sid first) PInf) as [st1|] eqn:E1; [|discriminate].
  destruct (cadd st1 (sid lst) PInf) as [st2|] eqn:E2; [|discriminate].
  destruct (cadd_spec _ _ _ _ E1) as [wf [zf [Hwf [Hzf G1]]]].
  destruct (cadd_spec _ _ _ _ E2) as [wl [zl [Hwl [Hzl G2]]]].
  pose proof (interior_spec i mn mx _ _ _ Hnds H) as HI.
  assert (Hfl : Nat.eqb (sid first) (sid lst) = false).
  { apply Nat.eqb_neq. intro E. destruct rest as [|b rest]; [simpl in Hlens; lia|].
    pose proof (last_in_tail first b rest first) as Hin. fold lst in Hin.
    simpl in Hnds. inversion Hnds as [|s m Hn _]; subst. apply Hn. rewrite E.
    change (sid b :: map sid rest) with (map sid (b :: rest)). now apply in_map. }
  assert (Hinsrt : forall x, In x u <-> In x (first :: rest)).
  { intro x. split; apply Permutation_in; [now apply Permutation_sym|assumption]. }
  split.
  - intros x Hx. destruct (Hbound x Hx) as [w [Hw Hwn]].
    exists w. destruct (Nat.eqb (sid first) (sid x)) eqn:Ef; [|destruct (Nat.eqb (sid lst) (sid x)) eqn:El].
    + (* x is the first of the sorted order *)
      exists PInf. simpl. apply Nat.eqb_eq in Ef. repeat split; auto; try discriminate.
      pose proof (HI (sid first)) as HIf. pose proof (window_of_head_none first rest Hnds) as W0. unfold xsol in *. rewrite W0 in HIf.
      rewrite <- Ef in *. rewrite HIf, G2. rewrite (Nat.eqb_sym (sid lst) (sid first)), Hfl, G1, Nat.eqb_refl.
      rewrite Hw in Hwf. injection Hwf as <-.
      destruct (xadd_ok w PInf Hwn ltac:(discriminate)) as [A _]. rewrite A in Hzf. now injection Hzf as <-.
    + (* x is the last *)
      exists PInf. simpl. apply Nat.eqb_eq in El. repeat split; auto; try discriminate.
      pose proof (HI (sid lst)) as HIl.
      pose proof (window_of_last_none _ first Hnds) as W0. change (window_of (first :: rest) (sid lst) = None) in W0. unfold xsol in *. rewrite W0 in HIl.
      rewrite <- El in *. rewrite HIl, G2, Nat.eqb_refl.
      rewrite G1, Hfl, Hw in Hwl. injection Hwl as <-.
      destruct (xadd_ok w PInf Hwn ltac:(discriminate)) as [A _]. rewrite A in Hzl. now injection Hzl as <-.
    + (* x is interior *)
      cbn [orb].
      assert (Hdec : exists l1 p n l2, first :: rest = l1 ++ p :: x :: n :: l2).
      { apply (interior_decompose _ x first); [now apply Hinsrt|discriminate| |].
        - simpl. apply Nat.eqb_neq in Ef. congruence.
        - fold lst. apply Nat.eqb_neq in El. congruence. }
      destruct Hdec as [l1 [p [n [l2 Edec]]]].
      assert (Hwin : window_of (first :: rest) (sid x) = Some (p, n)).
      { rewrite Edec. apply window_of_app. now rewrite <- Edec. }
      specialize (HI (sid x)). unfold xsol in *. rewrite Hwin in HI. rewrite Hwin.
      destruct HI as [v [Hv [[-> Hg]|[w0 [z [Hw0 [Hz Hg]]]]]]].
      * exists PInf. repeat split; auto; try discriminate. now rewrite Hg, (xplus_pinf_r w Hwn).
      * rewrite G2, El, G1, Ef, Hw in Hw0. injection Hw0 as <-.
        assert (Hvn : not_ninf v).
        { unfold interior_value in Hv. destruct (Qltb (mx - mn) EPSILON); [injection Hv as <-; discriminate|].
          destruct (fin (obj_at i n)); [|discriminate]. destruct (fin (obj_at i p)); [|discriminate].
          injection Hv as <-. discriminate. }
        exists v. repeat split; auto.
        destruct (xadd_ok w v Hwn Hvn) as [A _]. rewrite A in Hz. injection Hz as <-. exact Hg.
  - intros j Hj.
    assert (Hjs : has_sid j (first :: rest) = false) by (rewrite <- Hj; apply has_sid_perm; assumption).
    specialize (HI j). rewrite (window_of_absent _ _ Hjs) in HI. rewrite HI, G2, G1.
    assert (Nat.eqb (sid first) j = false).
    { destruct (Nat.eqb (sid first) j) eqn:E; [|reflexivity]. apply Nat.eqb_eq in E.
      assert (has_sid j (first :: rest) = true) by (apply has_sid_In; exists first; split; [now left|assumption]). congruence. }
    assert (Nat.eqb (sid lst) j = false).
    { destruct (Nat.eqb (sid lst) j) eqn:E; [|reflexivity]. apply Nat.eqb_eq in E.
      assert (has_sid j (first :: rest) = true).
      { apply has_sid_In. exists lst. split; [|assumption]. unfold lst.
        destruct rest as [|b rest']; [now left|]. right. apply last_in_tail. }
      congruence. }
    now rewrite H0, H1.
Qed.

(* ---------- all objectives ---------- *)
Lemma crowd_passes_spec : forall is u st st',
  NoDup (map sid u) -> 3 <= length u ->
  (forall x, In x u -> exists w, cget st (sid x) = Some w /\ not_ninf w) ->
  crowd_passes is u st = Some st' ->
  (forall x, In x u -> exists w cs, cget st (sid x) = Some w /\
       Forall2 (fun i c => contrib i u (sid x) = Some c) is cs /\ Forall not_ninf cs /\
       not_ninf (fold_left xplus cs w) /\ cget st' (sid x) = Some (fold_left xplus cs w))
  /\ (forall j, has_sid j u = false -> cget st' j = cget st j).
Proof.
  induction is as [|i is IH]; intros u st st' Hnd Hlen Hb H.
  - simpl in H. injection H as <-. split; [|reflexivity].
    intros x Hx. destruct (Hb x Hx) as [w [Hw Hn]]. exists w, []. repeat split; auto.
  - simpl in H. destruct (crowd_pass i u st) as [st1|] eqn:E1; [|discriminate].
    destruct (crowd_pass_spec i u st st1 Hnd Hlen Hb E1) as [A B].
    assert (Hb1 : forall x, In x u -> exists w, cget st1 (sid x) = Some w /\ not_ninf w).
    { intros x Hx. destruct (A x Hx) as [w [c [Hw [Hwn [_ [Hcn Hg]]]]]].
      exists (xplus w c). split; [assumption|]. exact (proj2 (xadd_ok w c Hwn Hcn)). }
    destruct (IH u st1 st' Hnd Hlen Hb1 H) as [A' B']. split.
    + intros x Hx. destruct (A x Hx) as [w [c [Hw [Hwn [Hc [Hcn Hg]]]]]].
      destruct (A' x Hx) as [w1 [cs [Hw1 [F2 [Fn [Hnn Hg']]]]]].
      rewrite Hg in Hw1. injection Hw1 as <-.
      exists w, (c :: cs). repeat split; auto.
    + intros j Hj. now rewrite (B' j Hj), (B j Hj).
Qed.

Lemma fold_xplus_from_pinf : forall cs, Forall not_ninf cs -> fold_left xplus cs PInf = PInf.
Proof.
  induction cs as [|d cs IH]; intro Hf; [reflexivity|].
  inversion Hf; subst. simpl. rewrite xplus_pinf_l by assumption. now apply IH.
Qed.

Lemma fold_xplus_pinf : forall cs a, Forall not_ninf cs -> not_ninf a -> In PInf cs -> fold_left xplus cs a = PInf.
Proof.
  induction cs as [|c cs IH]; intros a Hf Ha Hin; [contradiction|].
  inversion Hf as [|c' cs' Hc Hcs]; subst. simpl. destruct Hin as [->|Hin].
  - rewrite (xplus_pinf_r a Ha). now apply fold_xplus_from_pinf.
  - apply IH; auto. exact (proj2 (xadd_ok a c Ha Hc)).
Qed.

Lemma fold_xplus_fin (q : nat -> Q) : forall is a,
  fold_left xplus (map (fun i => Fin (q i)) is) (Fin a) = Fin (fold_left Qplus (map q is) a).
Proof. induction is as [|i is IH]; intro a; [reflexivity|]. simpl. apply IH. Qed.

Lemma Forall2_nth {A B} (R : A -> B -> Prop) : forall l cs i a,
  Forall2 R l cs -> nth_error l i = Some a -> exists c, nth_error cs i = Some c /\ R a c.
Proof.
  induction l as [|x l IH]; intros cs i a F H; [destruct i; discriminate|].
  inversion F as [|x' c l' cs' Hxc F']; subst. destruct i; simpl in *.
  - injection H as <-. eauto.
  - eapply IH; eauto.
Qed.

Lemma Forall2_map_eq {A B} (R : A -> B -> Prop) (f : A -> B) l cs :
  Forall2 R l cs -> (forall a c, In a l -> R a c -> c = f a) -> cs = map f l.
Proof.
  intro F. induction F as [|a c l cs Hac F IH]; intro H; [reflexivity|]. simpl. f_equal.
  - apply H; [now left|assumption].
  - apply IH. intros a' c' Hin. apply H. now right.
Qed.

Lemma nth_error_seq n i : i < n -> nth_error (seq 0 n) i = Some i.
Proof.
  intro H. rewrite (nth_error_nth' (seq 0 n) 0) by (rewrite seq_length; lia).
  now rewrite seq_nth.
Qed.

Lemma EPSILON_pos : (0 < EPSILON)%Q.
Proof. reflexivity. Qed.

Lemma StronglySorted_app_r {A} (R : A -> A -> Prop) l1 l2 : StronglySorted R (l1 ++ l2) -> StronglySorted R l2.
Proof. induction l1 as [|a l1 IH]; [auto|]. simpl. intro H. inversion H; auto. Qed.

Definition xnonneg (v : xq) : Prop := xltb v xzero = false.

Lemma xplus_nonneg a b : xnonneg a -> xnonneg b -> xnonneg (xplus a b).
Proof.
  unfold xnonneg, xplus. destruct a as [|x|], b as [|y|]; simpl; try congruence; try reflexivity.
  rewrite !Qltb_false. intros. lra.
Qed.

Lemma xnonneg_not_ninf a : xnonneg a -> not_ninf a.
Proof. unfold xnonneg, not_ninf. destruct a; simpl; congruence. Qed.

Lemma contrib_nonneg i u j c : contrib i u j = Some c -> xnonneg c.
Proof.
  unfold contrib. set (srt := sort_by_obj i u).
  assert (Hs : StronglySorted (le_rel (obj_lt i)) srt) by apply (ssort_sorted _ _ (obj_lt_sw i)).
  destruct srt as [|first rest] eqn:E; [discriminate|].
  destruct (fin (obj_at i first)) as [mn|]; [|discriminate].
  destruct (fin (obj_at i (last (first :: rest) first))) as [mx|]; [|discriminate].
  destruct (_ || _); [intro H; injection H as <-; reflexivity|].
  destruct (window_of (first :: rest) j) as [[p n]|] eqn:W; [|discriminate].
  unfold interior_value. destruct (Qltb (mx - mn) EPSILON) eqn:Ed; [intro H; injection H as <-; reflexivity|].
  destruct (fin (obj_at i n)) as [b|] eqn:Fb; [|discriminate].
  destruct (fin (obj_at i p)) as [a|] eqn:Fa; [|discriminate].
  intro H. injection H as <-. unfold xnonneg. simpl. apply Qltb_false.
  destruct (window_of_center _ _ _ _ W) as [l1 [c0 [l2 [Ew _]]]]. rewrite Ew in Hs.
  apply StronglySorted_app_r in Hs. inversion Hs as [|p' r' _ Hall]; subst.
  assert (Hpn : le_rel (obj_lt i) p n).
  { rewrite Forall_forall in Hall. apply Hall. right. now left. }
  unfold le_rel, obj_lt in Hpn.
  destruct (obj_at i n) as [|bn|]; try discriminate. destruct (obj_at i p) as [|ap|]; try discriminate.
  simpl in Fb, Fa. injection Fb as ->. injection Fa as ->. simpl in Hpn. apply Qltb_false in Hpn.
  apply Qltb_false in Ed. pose proof EPSILON_pos.
  unfold Qdiv. apply Qmult_le_0_compat; [lra|]. apply Qinv_le_0_compat. lra.
Qed.

Lemma fold_xplus_nonneg : forall cs a, Forall xnonneg cs -> xnonneg a -> xnonneg (fold_left xplus cs a).
Proof.
  induction cs as [|c cs IH]; intros a Hf Ha; [assumption|]. inversion Hf; subst. simpl.
  apply IH; auto. now apply xplus_nonneg.
Qed.

(* ---------- crowding_distance(front) ---------- *)
Section Crowding.
  Variable nobjs : nat.
  Variable front : list xsol.
  Variable st : cstore.
  Hypothesis Hinj : sid_inj front.
  Hypothesis Hrun : crowding nobjs front = Some st.

  Notation u := (unique front).
  Notation st0 := (fold_left (fun st s => cset st (sid s) xzero) front []).

  Lemma st0_get j : cget st0 j = if has_sid j front then Some xzero else None.
  Proof. apply fold_cset_get. Qed.

  Lemma u_NoDup : NoDup (map sid u).
  Proof. now apply unique_NoDup_sid. Qed.

  Lemma st0_bound x : In x u -> exists w, cget st0 (sid x) = Some w /\ not_ninf w.
  Proof.
    intro Hx. exists xzero. split; [|discriminate]. rewrite st0_get.
    assert (has_sid (sid x) front = true) by (apply has_sid_In; exists x; split; [now apply unique_incl|reflexivity]).
    now rewrite H.
  Qed.

  Lemma crowding_cases :
    (length u < 3 /\ st = fold_left (fun st s => cset st (sid s) PInf) u st0) \/
    (3 <= length u /\ crowd_passes (seq 0 nobjs) u st0 = Some st).
  Proof.
    unfold crowding in Hrun. destruct (Nat.ltb (length u) 3) eqn:E.
    - left. apply Nat.ltb_lt in E. split; [assumption|]. now injection Hrun as <-.
    - right. apply Nat.ltb_ge in E. split; [assumption|].
      match type of Hrun with (if ?b then _ else _) = _ => destruct b end; [assumption|discriminate].
  Qed.

  (* members whose objective vector repeats an earlier member's keep 0.0 *)
  Theorem crowding_dups_zero x : In x front -> has_sid (sid x) u = false -> cget st (sid x) = Some xzero.
  Proof.
    intros Hx Hu.
    assert (Hf : has_sid (sid x) front = true) by (apply has_sid_In; now exists x).
    destruct crowding_cases as [[_ ->]|[Hlen Hp]].
    - now rewrite fold_cset_get, Hu, st0_get, Hf.
    - destruct (crowd_passes_spec _ _ _ _ u_NoDup Hlen st0_bound Hp) as [_ B].
      now rewrite (B _ Hu), st0_get, Hf.
  Qed.

  (* fewer than three distinct objective vectors: all of them get +inf *)
  Theorem crowding_small x : length u < 3 -> In x u -> cget st (sid x) = Some PInf.
  Proof.
    intros Hlen Hx. destruct crowding_cases as [[_ ->]|[Hlen' _]]; [|lia].
    rewrite fold_cset_get.
    assert (has_sid (sid x) u = true) by (apply has_sid_In; now exists x). now rewrite H.
  Qed.

  (* otherwise: the sum over the objectives of the per-objective contributions *)
  Theorem crowding_sum x : 3 <= length u -> In x u ->
    exists cs, Forall2 (fun i c => contrib i u (sid x) = Some c) (seq 0 nobjs) cs /\
               Forall not_ninf cs /\ cget st (sid x) = Some (fold_left xplus cs xzero).
  Proof.
    intros Hlen Hx. destruct crowding_cases as [[Hlen' _]|[_ Hp]]; [lia|].
    destruct (crowd_passes_spec _ _ _ _ u_NoDup Hlen st0_bound Hp) as [A _].
    destruct (A x Hx) as [w [cs [Hw [F2 [Fn [_ Hg]]]]]].
    destruct (st0_bound x Hx) as [w' [Hw' _]]. rewrite st0_get in Hw, Hw'.
    destruct (has_sid (sid x) front); [|discriminate]. injection Hw as <-.
    exists cs. auto.
  Qed.

  (* the first and the last of the stable order of every objective get +inf *)
  Theorem crowding_extremes i x d : 3 <= length u -> i < nobjs ->
    x = hd d (sort_by_obj i u) \/ x = last (sort_by_obj i u) d -> cget st (sid x) = Some PInf.
  Proof.
    intros Hlen Hi Hext.
    assert (Hne : sort_by_obj i u <> []).
    { intro E. pose proof (ssort_length _ (obj_lt i) u) as L. unfold sort_by_obj in E. rewrite E in L. simpl in L. lia. }
    assert (Hx : In x u).
    { apply (ssort_In _ (obj_lt i)). fold (sort_by_obj i u). destruct (sort_by_obj i u) as [|a r] eqn:E; [congruence|].
      destruct Hext as [->| ->]; [now left|]. destruct r as [|b r]; [now left|]. right. apply last_in_tail. }
    destruct (crowding_sum x Hlen Hx) as [cs [F2 [Fn Hg]]].
    destruct (Forall2_nth _ _ _ i i F2 (nth_error_seq nobjs i Hi)) as [c [Hc Hcon]].
    assert (c = PInf).
    { unfold contrib in Hcon. destruct (sort_by_obj i u) as [|a r] eqn:E; [congruence|].
      destruct (fin (obj_at i a)); [|discriminate]. destruct (fin (obj_at i (last (a :: r) a))); [|discriminate].
      assert (Nat.eqb (sid a) (sid x) || Nat.eqb (sid (last (a :: r) a)) (sid x) = true).
      { destruct Hext as [->| ->]; simpl hd.
        - now rewrite Nat.eqb_refl.
        - assert (H : last (a :: r) d = last (a :: r) a) by (apply last_default; discriminate).
          rewrite H, Nat.eqb_refl. apply orb_true_r. }
      rewrite H in Hcon. now injection Hcon as <-. }
    subst c. rewrite Hg. f_equal. apply fold_xplus_pinf; auto; [discriminate|].
    eapply nth_error_In; eauto.
  Qed.

  (* a member that is interior for every objective, all ranges non-degenerate:
     the sum over the objectives of (next - prev) / (max - min) *)
  Theorem crowding_interior x (q : nat -> Q) : 3 <= length u -> In x u ->
    (forall i, i < nobjs -> contrib i u (sid x) = Some (Fin (q i))) ->
    cget st (sid x) = Some (Fin (fold_left Qplus (map q (seq 0 nobjs)) 0%Q)).
  Proof.
    intros Hlen Hx Hq. destruct (crowding_sum x Hlen Hx) as [cs [F2 [_ Hg]]].
    assert (cs = map (fun i => Fin (q i)) (seq 0 nobjs)).
    { apply (Forall2_map_eq _ (fun i => Fin (q i)) _ _ F2). intros i c Hi Hc. apply in_seq in Hi.
      rewrite (Hq i) in Hc by lia. now injection Hc as <-. }
    subst cs. rewrite Hg. f_equal. apply (fold_xplus_fin q (seq 0 nobjs) 0%Q).
  Qed.

  Theorem crowding_binds x : In x front -> exists v, cget st (sid x) = Some v.
  Proof.
    intro Hx. destruct (has_sid (sid x) u) eqn:Hu.
    - apply has_sid_In in Hu. destruct Hu as [y [Hy Ey]].
      assert (y = x) by (apply Hinj; auto; now apply unique_incl). subst y.
      destruct (Nat.lt_ge_cases (length u) 3) as [Hs|Hb].
      + eexists. now apply crowding_small.
      + destruct (crowding_sum x Hb Hy) as [cs [_ [_ Hg]]]. eauto.
    - eexists. now apply crowding_dups_zero.
  Qed.

  Theorem crowding_nonneg x v : In x front -> cget st (sid x) = Some v -> xnonneg v.
  Proof.
    intros Hx Hv. destruct (has_sid (sid x) u) eqn:Hu.
    - apply has_sid_In in Hu. destruct Hu as [y [Hy Ey]].
      assert (y = x) by (apply Hinj; auto; now apply unique_incl). subst y.
      destruct (Nat.lt_ge_cases (length u) 3) as [Hs|Hb].
      + rewrite (crowding_small x Hs Hy) in Hv. injection Hv as <-. reflexivity.
      + destruct (crowding_sum x Hb Hy) as [cs [F2 [_ Hg]]]. rewrite Hg in Hv. injection Hv as <-.
        apply fold_xplus_nonneg; [|unfold xnonneg; simpl; now apply Qltb_false].
        clear Hg. induction F2 as [|i c is cs' Hic _ IH]; constructor; [eapply contrib_nonneg; eauto|assumption].
    - rewrite (crowding_dups_zero x Hx Hu) in Hv. injection Hv as <-. unfold xnonneg. simpl. now apply Qltb_false.
  Qed.
End Crowding.

(* what [contrib] is for an interior member: neighbours' gap over the range, or +inf when the range is below EPSILON *)
Lemma contrib_interior i u l1 p x n l2 mn mx a b :
  NoDup (map sid u) -> sort_by_obj i u = l1 ++ p :: x :: n :: l2 ->
  fin (obj_at i (hd x (sort_by_obj i u))) = Some mn ->
  fin (obj_at i (last (sort_by_obj i u) x)) = Some mx ->
  fin (obj_at i p) = Some a -> fin (obj_at i n) = Some b ->
  contrib i u (sid x) = Some (if Qltb (mx - mn) EPSILON then PInf else Fin ((b - a) / (mx - mn))).
Proof.
  intros Hnd Es Hmn Hmx Ha Hb. unfold contrib.
  assert (Hnds : NoDup (map sid (sort_by_obj i u))).
  { eapply Permutation_NoDup; [apply Permutation_sym, Permutation_map, (ssort_perm _ (obj_lt i) u)|assumption]. }
  destruct (sort_by_obj i u) as [|first rest] eqn:E; [destruct l1; discriminate|].
  simpl hd in Hmn.
  assert (Hl : last (first :: rest) x = last (first :: rest) first) by (apply last_default; discriminate).
  rewrite Hl in Hmx. rewrite Hmn, Hmx.
  assert (Hf : Nat.eqb (sid first) (sid x) = false).
  { apply Nat.eqb_neq. intro Eq. rewrite Es in Hnds. destruct l1 as [|f0 l1]; simpl in Es; injection Es as -> Er.
    - simpl in Hnds. inversion Hnds as [|s m Hn _]; subst. apply Hn. rewrite Eq. now left.
    - simpl in Hnds. inversion Hnds as [|s m Hn _]; subst. apply Hn. rewrite Eq, map_app. apply in_or_app. right. right. now left. }
  assert (Hla : Nat.eqb (sid (last (first :: rest) first)) (sid x) = false).
  { apply Nat.eqb_neq. intro Eq. rewrite Es in Eq, Hnds.
    rewrite (last_app_ne l1 (p :: x :: n :: l2)) in Eq by discriminate.
    change (last (p :: x :: n :: l2) first) with (last (n :: l2) first) in Eq.
    rewrite map_app in Hnds. apply NoDup_app_r in Hnds. simpl in Hnds.
    inversion Hnds as [|s m _ Hnd1]; subst. inversion Hnd1 as [|s m Hn _]; subst.
    apply Hn. rewrite <- Eq. change (sid n :: map sid l2) with (map sid (n :: l2)). apply in_map.
    destruct l2 as [|c l2]; [now left|]. right. apply last_in_tail. }
  rewrite Hf, Hla. cbn [orb].
  assert (W : window_of (first :: rest) (sid x) = Some (p, n)).
  { unfold xsol in *. rewrite Es. apply window_of_app. unfold xsol in *. now rewrite <- Es. }
  unfold xsol in *. rewrite W. unfold interior_value. rewrite Hb, Ha.
  destruct (Qltb (mx - mn) EPSILON); reflexivity.
Qed.

(* ====================================================================== *)
(* Part 3: the executable sort x_nd_sort = ranks (Part 1 at the Pareto     *)
(* instance) + crowding per front (Part 2)                                 *)
(* ====================================================================== *)
Lemma crowding_unbound nobjs front st j : sid_inj front -> crowding nobjs front = Some st ->
  has_sid j front = false -> cget st j = None.
Proof.
  intros Hinj Hrun Hj.
  assert (Hu : has_sid j (unique front) = false).
  { destruct (has_sid j (unique front)) eqn:E; [|reflexivity]. apply has_sid_In in E. destruct E as [y [Hy Ey]].
    assert (has_sid j front = true) by (apply has_sid_In; exists y; split; [now apply unique_incl|assumption]). congruence. }
  destruct (crowding_cases nobjs front st Hrun) as [[_ ->]|[Hlen Hp]].
  - now rewrite fold_cset_get, Hu, fold_cset_get, Hj.
  - destruct (crowd_passes_spec _ _ _ _ (u_NoDup front Hinj) Hlen (st0_bound front) Hp) as [_ B].
    now rewrite (B _ Hu), fold_cset_get, Hj.
Qed.

Lemma crowd_of_none : forall (log : list (nat * list xsol * cstore)) i,
  (forall e, In e log -> cget (snd e) i = None) -> crowd_of log i = None.
Proof.
  induction log as [|[[r f] cs] rest IH]; intros i H; [reflexivity|]. simpl.
  rewrite IH by (intros e He; apply H; now right). apply (H (r, f, cs)). now left.
Qed.

Lemma crowd_of_at : forall (log : list (nat * list xsol * cstore)) k r f cs i v,
  nth_error log k = Some (r, f, cs) -> cget cs i = Some v ->
  (forall j e, k < j -> nth_error log j = Some e -> cget (snd e) i = None) ->
  crowd_of log i = Some v.
Proof.
  induction log as [|[[r0 f0] cs0] rest IH]; intros k r f cs i v Hk Hv Hlater; [destruct k; discriminate|].
  destruct k; simpl in Hk.
  - injection Hk as -> -> ->. simpl. rewrite crowd_of_none; [assumption|].
    intros e He. destruct (In_nth_error _ _ He) as [j Hj]. apply (Hlater (S j) e); [lia|exact Hj].
  - simpl. rewrite (IH k r f cs i v Hk Hv); [reflexivity|].
    intros j e Hj He. apply (Hlater (S j) e); [lia|exact He].
Qed.

Lemma loop_crowd {V CR} (cmp : sol V -> sol V -> Z) (crowd : list (sol V) -> option CR) :
  forall fuel R r log, nd_loop cmp crowd fuel R r = Some log ->
  Forall (fun e => crowd (snd (fst e)) = Some (snd e)) log.
Proof.
  induction fuel as [|fuel IH]; intros R r log H.
  - destruct R; simpl in H; [injection H as <-; constructor|discriminate].
  - destruct R as [|a R0]; [simpl in H; injection H as <-; constructor|].
    cbn [nd_loop] in H.
    destruct (crowd (archive (sol V) cmp (a :: R0))) as [cr|] eqn:Ec; [|discriminate].
    match type of H with match ?t with _ => _ end = _ => destruct t as [rest|] eqn:E; [|discriminate] end.
    injection H as <-. constructor; [exact Ec|]. eapply IH; eauto.
Qed.

Lemma annotate_spec : forall log l ann, annotate log l = Some ann ->
  Forall2 (fun x a => a_sol a = x /\ rank_of log (sid x) = Some (a_rank a) /\
                      crowd_of log (sid x) = Some (a_crowd a)) l ann.
Proof.
  induction l as [|x l IH]; intros ann H; simpl in H.
  - injection H as <-. constructor.
  - destruct (rank_of log (sid x)) as [rk|] eqn:Er; [|discriminate].
    destruct (crowd_of log (sid x)) as [cd|] eqn:Ec; [|discriminate].
    destruct (annotate log l) as [r'|]; [|discriminate]. injection H as <-.
    constructor; [simpl; auto|]. now apply IH.
Qed.

Lemma Forall2_In_l {A B} (R : A -> B -> Prop) l m x : Forall2 R l m -> In x l -> exists y, In y m /\ R x y.
Proof.
  intro F. induction F as [|a b l m Hab F IH]; intro H; [contradiction|]. destruct H as [<-|H].
  - exists b. split; [now left|assumption].
  - destruct (IH H) as [y [Hy Hr]]. exists y. split; [now right|assumption].
Qed.

Lemma Forall2_In_r {A B} (R : A -> B -> Prop) l m y : Forall2 R l m -> In y m -> exists x, In x l /\ R x y.
Proof.
  intro F. induction F as [|a b l m Hab F IH]; intro H; [contradiction|]. destruct H as [<-|H].
  - exists a. split; [now left|assumption].
  - destruct (IH H) as [x [Hx Hr]]. exists x. split; [now right|assumption].
Qed.

(* ---------- crowding_distance never raises on finite objectives ---------- *)
Definition finite_objs (x : xsol) : Prop := Forall (fun v => fin v <> None) (s_objs x).

Lemma obj_at_finite i x : finite_objs x -> fin (obj_at i x) <> None.
Proof.
  intro H. unfold obj_at. destruct (Nat.lt_ge_cases i (length (s_objs x))) as [L|G].
  - unfold finite_objs in H. rewrite Forall_forall in H. apply H. now apply nth_In.
  - rewrite nth_overflow by assumption. discriminate.
Qed.

Definition store_good (st : cstore) : Prop := forall j v, cget st j = Some v -> not_ninf v.
Definition store_binds (st : cstore) (u : list xsol) : Prop := forall x, In x u -> cget st (sid x) <> None.

Lemma cset_good st i v : store_good st -> not_ninf v -> store_good (cset st i v).
Proof.
  intros G Hv j w. rewrite cget_cset. destruct (Nat.eqb i j); [intro E; now injection E as <-|apply G].
Qed.

Lemma cset_binds st i v u : store_binds st u -> store_binds (cset st i v) u.
Proof.
  intros B x Hx. rewrite cget_cset. destruct (Nat.eqb i (sid x)); [discriminate|now apply B].
Qed.

Lemma cadd_total st i v u x : store_good st -> store_binds st u -> In x u -> i = sid x -> not_ninf v ->
  exists st', cadd st i v = Some st' /\ store_good st' /\ store_binds st' u.
Proof.
  intros G B Hx -> Hv. unfold cadd. destruct (cget st (sid x)) as [w|] eqn:E; [|exfalso; now apply (B x Hx)].
  destruct (xadd_ok w v (G _ _ E) Hv) as [A N]. rewrite A. eexists. split; [reflexivity|]. split.
  - now apply cset_good.
  - now apply cset_binds.
Qed.

Lemma crowd_interior_total i mn mx u : forall w st, incl w u -> (forall x, In x u -> finite_objs x) ->
  store_good st -> store_binds st u ->
  exists st', crowd_interior i mn mx w st = Some st' /\ store_good st' /\ store_binds st' u.
Proof.
  induction w as [|p tl IH]; intros st Hw Hfin G B; [simpl; eauto|].
  destruct tl as [|c0 [|n r]]; try (simpl; eauto; fail).
  rewrite crowd_interior_cons3.
  assert (Hstep : exists st1, crowd_interior_step i mn mx p c0 n st = Some st1 /\ store_good st1 /\ store_binds st1 u).
  { unfold crowd_interior_step. destruct (Qltb (mx - mn) EPSILON).
    - eexists. split; [reflexivity|]. split; [apply cset_good; [assumption|discriminate]|now apply cset_binds].
    - assert (Hn : In n u) by (apply Hw; right; right; now left).
      assert (Hp : In p u) by (apply Hw; now left).
      destruct (fin (obj_at i n)) as [b|] eqn:Eb; [|exfalso; now apply (obj_at_finite i n (Hfin n Hn))].
      destruct (fin (obj_at i p)) as [a|] eqn:Ea; [|exfalso; now apply (obj_at_finite i p (Hfin p Hp))].
      apply (cadd_total st (sid c0) _ u c0); auto; [apply Hw; right; now left|discriminate]. }
  destruct Hstep as [st1 [E1 [G1 B1]]]. rewrite E1.
  apply IH; auto. intros y Hy. apply Hw. now right.
Qed.

Lemma crowd_pass_total i u st : u <> [] -> (forall x, In x u -> finite_objs x) ->
  store_good st -> store_binds st u ->
  exists st', crowd_pass i u st = Some st' /\ store_good st' /\ store_binds st' u.
Proof.
  intros Hne Hfin G B. unfold crowd_pass.
  pose proof (ssort_perm _ (obj_lt i) u) as HP. fold (sort_by_obj i u) in HP.
  assert (Hin : incl (sort_by_obj i u) u) by (intros y Hy; eapply Permutation_in; eauto).
  destruct (sort_by_obj i u) as [|first rest] eqn:E.
  - apply Permutation_nil in HP. congruence.
  - assert (Hf : In first u) by (apply Hin; now left).
    assert (Hl : In (last (first :: rest) first) u).
    { apply Hin. destruct rest as [|b rest']; [now left|]. right. apply last_in_tail. }
    destruct (fin (obj_at i first)) as [mn|] eqn:Emn; [|exfalso; now apply (obj_at_finite i first (Hfin _ Hf))].
    destruct (fin (obj_at i (last (first :: rest) first))) as [mx|] eqn:Emx;
      [|exfalso; now apply (obj_at_finite i _ (Hfin _ Hl))].
    destruct (cadd_total st (sid first) PInf u first G B Hf eq_refl ltac:(discriminate)) as [st1 [E1 [G1 B1]]].
    rewrite E1.
    destruct (cadd_total st1 (sid (last (first :: rest) first)) PInf u _ G1 B1 Hl eq_refl ltac:(discriminate)) as [st2 [E2 [G2 B2]]].
    rewrite E2. now apply crowd_interior_total.
Qed.

Lemma crowd_passes_total u : forall is st, u <> [] -> (forall x, In x u -> finite_objs x) ->
  store_good st -> store_binds st u -> exists st', crowd_passes is u st = Some st'.
Proof.
  induction is as [|i is IH]; intros st Hne Hfin G B; simpl; [eauto|].
  destruct (crowd_pass_total i u st Hne Hfin G B) as [st1 [E1 [G1 B1]]]. rewrite E1. now apply IH.
Qed.

Theorem crowding_total nobjs front :
  (forall x, In x front -> finite_objs x /\ nobjs <= length (s_objs x)) -> exists st, crowding nobjs front = Some st.
Proof.
  intro H. unfold crowding. destruct (Nat.ltb (length (unique front)) 3) eqn:E; [eauto|].
  apply Nat.ltb_ge in E.
  assert (Hall : forallb (fun s => Nat.leb nobjs (length (s_objs s))) (unique front) = true).
  { apply forallb_forall. intros x Hx. apply Nat.leb_le. apply H. now apply unique_incl. }
  rewrite Hall. apply crowd_passes_total.
  - intro C. rewrite C in E. simpl in E. lia.
  - intros x Hx. apply H. now apply unique_incl.
  - intros j v. rewrite fold_cset_get. destruct (has_sid j front); [|discriminate]. intro Q. injection Q as <-. discriminate.
  - intros x Hx. rewrite fold_cset_get.
    assert (has_sid (sid x) front = true) by (apply has_sid_In; exists x; split; [now apply unique_incl|reflexivity]).
    rewrite H0. discriminate.
Qed.

(* ---------- facts at the level of the log of rounds ---------- *)
Section XLog.
  Variable c : bool.
  Variable dirs : list bool.
  Variable l : list xsol.
  Variable log : list (nat * list xsol * cstore).
  Notation wfs := (sol_wf xq xltb xzero dirs).
  Hypothesis Hwf : Forall wfs l.
  Hypothesis Hinj : sid_inj l.
  Hypothesis Hl : x_nd_sort_log c dirs l = Some log.

  Let R1 := scmp_range xq xltb xneg xzero xq_laws c dirs.
  Let R2 := scmp_antisym xq xltb xneg xzero xq_laws c dirs.
  Let R3 := sdom_trans xq xltb xneg xzero xq_laws c dirs.
  Let R4 := sdom_irrefl xq xltb xneg xzero xq_laws c dirs.

  Lemma log_crowd_front x k : In x l -> rank_of log (sid x) = Some k -> exists front cs v,
    In x front /\ sid_inj front /\
    (forall y, In y l -> (In y front <-> rank_of log (sid y) = Some k)) /\
    (forall y, In y front -> In y l) /\
    crowding (length dirs) front = Some cs /\ cget cs (sid x) = Some v /\ crowd_of log (sid x) = Some v.
  Proof.
    intros HxL Hr.
    pose proof (rank_front xq (x_sol_cmp c dirs) wfs cstore (crowding (length dirs)) R1 R2 R3 R4 l log Hwf Hinj Hl) as RF.
    destruct (loop_layering xq (x_sol_cmp c dirs) wfs cstore (crowding (length dirs)) R1 R2 R3 R4 _ _ _ _ Hl Hwf Hinj) as [L _].
    pose proof (layering_cover xq (x_sol_cmp c dirs) cstore (crowding (length dirs)) _ _ L) as LCov.
    pose proof (layering_disjoint xq (x_sol_cmp c dirs) cstore (crowding (length dirs)) _ _ L) as LDis.
    pose proof (proj1 (RF _ _ HxL) Hr) as Hin.
    set (front := nth k (fronts_of xq cstore log) []) in *.
    assert (Hk : k < length log).
    { destruct (Nat.lt_ge_cases k (length log)) as [|G]; [assumption|]. exfalso. unfold front in Hin.
      rewrite nth_overflow in Hin; [contradiction|]. unfold fronts_of. now rewrite map_length. }
    assert (Hnth : forall j e, nth_error log j = Some e -> nth j (fronts_of xq cstore log) [] = snd (fst e)).
    { intros j e He. unfold fronts_of.
      apply (map_nth_error (fun e => snd (fst e))) in He. now apply nth_error_nth. }
    destruct (nth_error log k) as [[[r f] cs]|] eqn:Ek; [|apply nth_error_None in Ek; lia].
    assert (Ef : front = f) by (unfold front; now rewrite (Hnth _ _ Ek)).
    assert (Hsub : forall j y, In y (nth j (fronts_of xq cstore log) []) -> In y l) by (intros j y Hy; apply LCov; eauto).
    assert (Hfinj : sid_inj front) by (apply (sid_inj_incl l); [intros y Hy; eapply Hsub; eauto|assumption]).
    pose proof (loop_crowd _ _ _ _ _ _ Hl) as LC. rewrite Forall_forall in LC.
    pose proof (LC _ (nth_error_In _ _ Ek)) as Hcs. simpl in Hcs. rewrite <- Ef in Hcs.
    destruct (crowding_binds _ _ _ Hfinj Hcs x Hin) as [v Hv].
    exists front, cs, v. repeat split; auto.
    - intro Hy. exact (proj2 (RF _ _ H) Hy).
    - intro Hy. exact (proj1 (RF _ _ H) Hy).
    - intros y Hy. eapply Hsub; eauto.
    - apply (crowd_of_at log k r f cs _ v Ek Hv). intros j e Hj He.
      pose proof (LC _ (nth_error_In _ _ He)) as Hce.
      assert (Hje : sid_inj (snd (fst e))).
      { apply (sid_inj_incl l); [|assumption]. intros y Hy. apply (Hsub j). now rewrite (Hnth _ _ He). }
      apply (crowding_unbound _ _ _ _ Hje Hce).
      destruct (has_sid (sid x) (snd (fst e))) eqn:Hs; [|reflexivity]. exfalso.
      apply has_sid_In in Hs. destruct Hs as [y [Hy0 Ey]].
      assert (Hy : In y (nth j (fronts_of xq cstore log) [])) by (rewrite (Hnth _ _ He); exact Hy0).
      assert (y = x) by (apply Hinj; [eapply Hsub; eauto|assumption|assumption]). subst y.
      assert (j = k) by (eapply LDis; eauto). lia.
  Qed.

  (* reading the attributes back never fails *)
  Lemma annotate_total : exists ann, annotate log l = Some ann.
  Proof.
    assert (G : forall l', incl l' l -> exists ann, annotate log l' = Some ann).
    { induction l' as [|x l' IH]; intro Hi; [simpl; eauto|].
      assert (HxL : In x l) by (apply Hi; now left).
      destruct (rank_total xq (x_sol_cmp c dirs) wfs cstore (crowding (length dirs)) R1 R2 R3 R4 l log Hwf Hinj Hl x HxL) as [k [Hk _]].
      unfold rank in Hk.
      destruct (log_crowd_front x k HxL Hk) as [_ [_ [v [_ [_ [_ [_ [_ [_ Hc]]]]]]]]].
      destruct IH as [ann' Ha]; [intros y Hy; apply Hi; now right|].
      simpl. rewrite Hk, Hc, Ha. eauto. }
    apply G. intros y Hy. exact Hy.
  Qed.
End XLog.

(* nondominated_sort never fails (no round limit hit, no exception) on well-formed populations with finite objectives *)
Theorem x_nd_sort_total c dirs l : Forall (sol_wf xq xltb xzero dirs) l -> sid_inj l ->
  (forall x, In x l -> finite_objs x) -> exists ann, x_nd_sort c dirs l = Some ann.
Proof.
  intros Hwf Hinj Hfin.
  destruct (nd_loop_fuel xq (x_sol_cmp c dirs) (sol_wf xq xltb xzero dirs) cstore (crowding (length dirs))
              (scmp_range xq xltb xneg xzero xq_laws c dirs) (scmp_antisym xq xltb xneg xzero xq_laws c dirs)
              (sdom_trans xq xltb xneg xzero xq_laws c dirs) (sdom_irrefl xq xltb xneg xzero xq_laws c dirs)
              (length l) l 0 Hwf Hinj (le_n _)) as [log Hlog].
  { intros f Hf. destruct (crowding_total (length dirs) f) as [st Hst]; [|congruence].
    intros x Hx. split; [apply Hfin; now apply Hf|].
    rewrite Forall_forall in Hwf. destruct (Hwf x (Hf x Hx)) as [Hlen _]. simpl in Hlen. lia. }
  assert (Hlog' : x_nd_sort_log c dirs l = Some log) by exact Hlog.
  unfold x_nd_sort. rewrite Hlog'.
  apply (annotate_total c dirs l log Hwf Hinj Hlog').
Qed.

Section XSort.
  Variable c : bool.
  Variable dirs : list bool.
  Variable l : list xsol.
  Variable ann : list asol.
  Notation wfs := (sol_wf xq xltb xzero dirs).
  Notation xdom := (dom xsol (x_sol_cmp c dirs)).
  Hypothesis Hwf : Forall wfs l.
  Hypothesis Hinj : sid_inj l.
  Hypothesis Hsort : x_nd_sort c dirs l = Some ann.

  Let R1 := scmp_range xq xltb xneg xzero xq_laws c dirs.
  Let R2 := scmp_antisym xq xltb xneg xzero xq_laws c dirs.
  Let R3 := sdom_trans xq xltb xneg xzero xq_laws c dirs.
  Let R4 := sdom_irrefl xq xltb xneg xzero xq_laws c dirs.

  Lemma xsort_log : exists log, x_nd_sort_log c dirs l = Some log /\ annotate log l = Some ann.
  Proof.
    unfold x_nd_sort in Hsort. destruct (x_nd_sort_log c dirs l) as [log|]; [|discriminate]. eauto.
  Qed.

  Lemma ann_sols : map a_sol ann = l.
  Proof.
    destruct xsort_log as [log [_ Ha]]. pose proof (annotate_spec _ _ _ Ha) as F.
    clear - F. induction F as [|x a l ann [E _] F IH]; [reflexivity|]. simpl. now rewrite E, IH.
  Qed.

  Lemma ann_In a : In a ann -> In (a_sol a) l.
  Proof. intro H. rewrite <- ann_sols. now apply in_map. Qed.

  Lemma ann_rank log a : x_nd_sort_log c dirs l = Some log -> annotate log l = Some ann -> In a ann ->
    rank_of log (sid (a_sol a)) = Some (a_rank a) /\ crowd_of log (sid (a_sol a)) = Some (a_crowd a).
  Proof.
    intros _ Ha Hin. destruct (Forall2_In_r _ _ _ _ (annotate_spec _ _ _ Ha) Hin) as [x [_ [E [Hr Hc]]]].
    subst x. auto.
  Qed.

  Lemma ann_of x : In x l -> exists a, In a ann /\ a_sol a = x.
  Proof.
    intro H. destruct xsort_log as [log [_ Ha]].
    destruct (Forall2_In_l _ _ _ _ (annotate_spec _ _ _ Ha) H) as [a [Hin [E _]]]. eauto.
  Qed.

  (* rank 0 = exactly the members no member dominates *)
  Theorem x_rank_zero_iff a : In a ann ->
    (a_rank a = 0 <-> forall b, In b ann -> xdom (a_sol b) (a_sol a) = false).
  Proof.
    intro Ha. destruct xsort_log as [log [Hl Han]].
    destruct (ann_rank log a Hl Han Ha) as [Hr _].
    pose proof (rank_zero_iff xq (x_sol_cmp c dirs) wfs cstore (crowding (length dirs)) R1 R2 R3 R4
                  l log Hwf Hinj Hl (a_sol a) (ann_In a Ha)) as Z.
    unfold rank in Z. rewrite Hr in Z. split.
    - intros E b Hb. apply Z; [now rewrite E|now apply ann_In].
    - intro H. assert (Some (a_rank a) = Some 0); [|congruence]. apply Z.
      intros y Hy. destruct (ann_of y Hy) as [b [Hb <-]]. now apply H.
  Qed.

  (* rank r+1 = exactly the members whose dominators all have rank <= r, one of them rank r *)
  Theorem x_rank_depth a r : In a ann ->
    (a_rank a = S r <->
     (forall b, In b ann -> xdom (a_sol b) (a_sol a) = true -> a_rank b <= r) /\
     (exists b, In b ann /\ xdom (a_sol b) (a_sol a) = true /\ a_rank b = r)).
  Proof.
    intro Ha. destruct xsort_log as [log [Hl Han]].
    destruct (ann_rank log a Hl Han Ha) as [Hr _].
    pose proof (rank_depth xq (x_sol_cmp c dirs) wfs cstore (crowding (length dirs)) R1 R2 R3 R4
                  l log Hwf Hinj Hl (a_sol a) r (ann_In a Ha)) as Z.
    unfold rank in Z. rewrite Hr in Z. split.
    - intro E. assert (E' : Some (a_rank a) = Some (S r)) by now rewrite E. apply Z in E'.
      destruct E' as [Hall [y [Hy [Hd Hry]]]]. split.
      + intros b Hb Hdb. destruct (Hall (a_sol b) (ann_In b Hb) Hdb) as [j [Hj Hle]].
        destruct (ann_rank log b Hl Han Hb) as [Hrb _]. rewrite Hrb in Hj. injection Hj as <-. exact Hle.
      + destruct (ann_of y Hy) as [b [Hb Eb]]. exists b. subst y. repeat split; auto.
        destruct (ann_rank log b Hl Han Hb) as [Hrb _]. rewrite Hrb in Hry. now injection Hry.
    - intros [Hall [b [Hb [Hd Hrb]]]]. assert (Some (a_rank a) = Some (S r)); [|congruence]. apply Z. split.
      + intros y Hy Hdy. destruct (ann_of y Hy) as [b' [Hb' Eb']]. subst y.
        exists (a_rank b'). split; [apply (ann_rank log b' Hl Han Hb')|now apply Hall].
      + exists (a_sol b). repeat split; [now apply ann_In|assumption|].
        destruct (ann_rank log b Hl Han Hb) as [Hrb' _]. now rewrite Hrb', Hrb.
  Qed.

  (* the ranks in use are 0 .. m-1, each occupied, with m <= len(population) *)
  Theorem x_ranks_contiguous : exists m, m <= length l /\
    (forall a, In a ann -> a_rank a < m) /\
    (forall j, j < m -> filter (fun a => Nat.eqb (a_rank a) j) ann <> []).
  Proof.
    destruct xsort_log as [log [Hl Han]]. exists (length log).
    destruct (rounds_bounded xq (x_sol_cmp c dirs) wfs cstore (crowding (length dirs)) R1 R2 R3 R4 l log Hwf Hinj Hl) as [Hb Hne].
    split; [exact Hb|]. split.
    - intros a Ha. destruct (ann_rank log a Hl Han Ha) as [Hr _].
      apply (rank_front xq (x_sol_cmp c dirs) wfs cstore (crowding (length dirs)) R1 R2 R3 R4 l log Hwf Hinj Hl _ _ (ann_In a Ha)) in Hr.
      destruct (Nat.lt_ge_cases (a_rank a) (length log)) as [|G]; [assumption|]. exfalso.
      rewrite nth_overflow in Hr; [contradiction|]. unfold fronts_of. now rewrite map_length.
    - intros j Hj.
      assert (Hf : nth j (fronts_of xq cstore log) [] <> []).
      { rewrite Forall_forall in Hne. apply Hne. apply nth_In. unfold fronts_of. now rewrite map_length. }
      destruct (nth j (fronts_of xq cstore log) []) as [|x f] eqn:E; [congruence|].
      assert (Hx : In x (nth j (fronts_of xq cstore log) [])) by (rewrite E; now left).
      destruct (loop_layering xq (x_sol_cmp c dirs) wfs cstore (crowding (length dirs)) R1 R2 R3 R4 _ _ _ _ Hl Hwf Hinj) as [L _].
      assert (HxL : In x l) by (apply (layering_cover xq (x_sol_cmp c dirs) cstore (crowding (length dirs)) _ _ L); eauto).
      destruct (ann_of x HxL) as [a [Ha Ea]]. subst x.
      apply (rank_front xq (x_sol_cmp c dirs) wfs cstore (crowding (length dirs)) R1 R2 R3 R4 l log Hwf Hinj Hl _ _ HxL) in Hx.
      destruct (ann_rank log a Hl Han Ha) as [Hr _]. unfold rank in Hx. rewrite Hr in Hx. injection Hx as Hx.
      intro C. assert (In a (filter (fun a => Nat.eqb (a_rank a) j) ann)) by (apply filter_In; split; [assumption|now apply Nat.eqb_eq]).
      rewrite C in H. contradiction.
  Qed.

  (* the crowding attribute of a member is what crowding_distance computed for its own front *)
  Theorem x_crowd_front a : In a ann -> exists front cs,
    In (a_sol a) front /\ sid_inj front /\
    (forall b, In b ann -> (In (a_sol b) front <-> a_rank b = a_rank a)) /\
    (forall x, In x front -> In x l) /\
    crowding (length dirs) front = Some cs /\ cget cs (sid (a_sol a)) = Some (a_crowd a).
  Proof.
    intro Ha. destruct xsort_log as [log [Hl Han]].
    destruct (ann_rank log a Hl Han Ha) as [Hr Hc].
    destruct (log_crowd_front c dirs l log Hwf Hinj Hl (a_sol a) (a_rank a) (ann_In a Ha) Hr)
      as [front [cs [v [Hin [Hfi [Hmem [Hsub [Hcs [Hv Hco]]]]]]]]].
    exists front, cs. repeat split; auto.
    - intro Hb. apply (Hmem _ (ann_In b H)) in Hb.
      destruct (ann_rank log b Hl Han H) as [Hrb _]. rewrite Hrb in Hb. now injection Hb.
    - intro Eb. apply (Hmem _ (ann_In b H)). destruct (ann_rank log b Hl Han H) as [Hrb _]. now rewrite Hrb, Eb.
    - rewrite Hc in Hco. injection Hco as ->. exact Hv.
  Qed.

  Corollary x_crowd_nonneg a : In a ann -> xnonneg (a_crowd a).
  Proof.
    intro Ha. destruct (x_crowd_front a Ha) as [front [cs [Hin [Hfi [_ [_ [Hcs Hg]]]]]]].
    eapply crowding_nonneg; eauto.
  Qed.
End XSort.
