(* Proofs about Model/NDSort.v.
   Part 1 (generic comparator, hypotheses of ArchiveProofs): the peeling loop terminates
           within len(population) rounds and leaves rank = domination depth.
   Part 2 (xq, exact rational arithmetic): crowding distance. *)
From Coq Require Import ZArith QArith Qminmax Bool List Lia Lqa Permutation Sorted.
Import ListNotations.
From PV Require Import Base.Num Base.Order Base.StableSort Model.Dominance Proofs.DominanceProofs
     Model.Archive Proofs.ArchiveProofs Model.NDSort.
Open Scope Z_scope.

(* identities determine the object: two entries with the same sid are the same solution *)
Definition sid_inj {V} (l : list (sol V)) : Prop :=
  forall x y, In x l -> In y l -> sid x = sid y -> x = y.

Lemma sid_inj_incl {V} (l l' : list (sol V)) : incl l' l -> sid_inj l -> sid_inj l'.
Proof. intros Hi H x y Hx Hy. apply H; now apply Hi. Qed.

Lemma NoDup_sid_inj {V} (l : list (sol V)) : NoDup (map sid l) -> sid_inj l.
Proof.
  induction l as [|a l IH]; intros Hnd x y Hx Hy E; [contradiction|].
  simpl in Hnd. inversion Hnd as [|s m Hnotin Hnd']; subst.
  destruct Hx as [<-|Hx], Hy as [<-|Hy]; try reflexivity.
  - exfalso. apply Hnotin. rewrite E. now apply in_map.
  - exfalso. apply Hnotin. rewrite <- E. now apply in_map.
  - now apply IH.
Qed.

Lemma has_sid_In {V} (i : nat) (l : list (sol V)) : has_sid i l = true <-> exists y, In y l /\ sid y = i.
Proof.
  unfold has_sid. rewrite existsb_exists. split; intros [y [Hy E]]; exists y; split; auto.
  - now apply Nat.eqb_eq.
  - now apply Nat.eqb_eq.
Qed.

Lemma mem_sid_has {V} (x : sol V) l : mem_sid x l = has_sid (sid x) l.
Proof. reflexivity. Qed.

Lemma mem_sid_iff {V} (R f : list (sol V)) x : sid_inj R -> incl f R -> In x R ->
  (mem_sid x f = true <-> In x f).
Proof.
  intros Hinj Hf Hx. rewrite mem_sid_has, has_sid_In. split.
  - intros [y [Hy E]]. assert (y = x) by (apply Hinj; auto). now subst.
  - intro H. now exists x.
Qed.

Section RankProofs.
  Variable V : Type.
  Notation T := (sol V).
  Variable cmp : T -> T -> Z.
  Variable P : T -> Prop.
  Variable CR : Type.
  Variable crowd : list T -> option CR.
  Notation dom := (dom T cmp).
  Notation nd := (nd T cmp).
  Notation archive := (archive T cmp).
  Notation nd_loop := (nd_loop cmp crowd).

  Hypothesis cmp_range : forall x y, cmp x y = -1 \/ cmp x y = 0 \/ cmp x y = 1.
  Hypothesis cmp_antisym : forall x y, P x -> P y -> cmp y x = - cmp x y.
  Hypothesis dom_trans : forall x y z, P x -> P y -> P z ->
                                       dom x y = true -> dom y z = true -> dom x z = true.
  Hypothesis dom_irrefl : forall x, P x -> dom x x = false.

  Definition fronts_of (log : list (nat * list T * CR)) : list (list T) := map (fun e => snd (fst e)) log.
  Definition ranks_of (log : list (nat * list T * CR)) : list nat := map (fun e => fst (fst e)) log.

  (* successive non-dominated layers *)
  Fixpoint layering (R : list T) (fronts : list (list T)) : Prop :=
    match fronts with
    | [] => R = []
    | f :: rest => R <> [] /\ f = filter (nd R) R /\ layering (filter (fun x => negb (nd R x)) R) rest
    end.

  Lemma rest_eq R : Forall P R -> sid_inj R ->
    filter (fun x => negb (mem_sid x (archive R))) R = filter (fun x => negb (nd R x)) R.
  Proof.
    intros HP Hinj. apply filter_ext_in. intros x Hx. f_equal.
    rewrite (archive_char T cmp P cmp_range cmp_antisym dom_trans dom_irrefl R HP).
    destruct (nd R x) eqn:E.
    - apply (mem_sid_iff R); auto.
      + intros y Hy. apply filter_In in Hy. tauto.
      + apply filter_In. auto.
    - destruct (mem_sid x (filter (nd R) R)) eqn:M; [|reflexivity].
      apply (mem_sid_iff R) in M; auto.
      + apply filter_In in M. destruct M; congruence.
      + intros y Hy. apply filter_In in Hy. tauto.
  Qed.

  Lemma loop_layering : forall fuel R r log, nd_loop fuel R r = Some log -> Forall P R -> sid_inj R ->
    layering R (fronts_of log) /\ ranks_of log = seq r (length log).
  Proof.
    induction fuel as [|fuel IH]; intros R r log H HP Hinj.
    - destruct R; simpl in H; [|discriminate]. injection H as <-. simpl. auto.
    - destruct R as [|a R0]; [simpl in H; injection H as <-; simpl; auto|].
      set (R := a :: R0) in *.
      cbn [NDSort.nd_loop] in H. fold R in H.
      destruct (crowd (archive R)) as [cr|]; [|discriminate].
      destruct (nd_loop fuel (filter (fun x => negb (mem_sid x (archive R))) R) (S r)) as [rest|] eqn:E; [|discriminate].
      injection H as <-.
      rewrite (rest_eq R HP Hinj) in E.
      assert (HP' : Forall P (filter (fun x => negb (nd R x)) R)) by now apply Forall_filter.
      assert (Hinj' : sid_inj (filter (fun x => negb (nd R x)) R)).
      { eapply sid_inj_incl; [|exact Hinj]. intros y Hy. apply filter_In in Hy. tauto. }
      destruct (IH _ _ _ E HP' Hinj') as [L Rk]. simpl. split.
      + split; [discriminate|]. split; [|exact L].
        apply (archive_char T cmp P cmp_range cmp_antisym dom_trans dom_irrefl R HP).
      + unfold ranks_of in *. simpl. now rewrite Rk.
  Qed.

  (* ---- facts about layerings ---- *)
  Lemma layering_cover : forall fronts R, layering R fronts ->
    forall x, In x R <-> exists k, In x (nth k fronts []).
  Proof.
    induction fronts as [|f rest IH]; intros R L x; simpl in L.
    - subst R. split; [contradiction|]. intros [k Hk]. destruct k; contradiction.
    - destruct L as [_ [Hf L]]. specialize (IH _ L x). split.
      + intro Hx. destruct (nd R x) eqn:E.
        * exists O. simpl. rewrite Hf. apply filter_In. auto.
        * assert (In x (filter (fun x => negb (nd R x)) R)) by (apply filter_In; rewrite E; auto).
          apply IH in H. destruct H as [k Hk]. exists (S k). exact Hk.
      + intros [k Hk]. destruct k; simpl in Hk.
        * rewrite Hf in Hk. apply filter_In in Hk. tauto.
        * assert (In x (filter (fun x => negb (nd R x)) R)) by (apply IH; eauto).
          apply filter_In in H. tauto.
  Qed.

  Lemma layering_disjoint : forall fronts R, layering R fronts ->
    forall j k x, In x (nth j fronts []) -> In x (nth k fronts []) -> j = k.
  Proof.
    induction fronts as [|f rest IH]; intros R L j k x Hj Hk; simpl in L.
    - destruct j; contradiction.
    - destruct L as [_ [Hf L]].
      assert (Hlater : forall m, In x (nth m rest []) -> nd R x = false).
      { intros m Hm. assert (In x (filter (fun x => negb (nd R x)) R)) by (apply (layering_cover _ _ L); eauto).
        apply filter_In in H. destruct H as [_ H]. now apply negb_true_iff in H. }
      assert (Hfirst : In x f -> nd R x = true) by (rewrite Hf; intro H; apply filter_In in H; tauto).
      destruct j, k; simpl in *; try reflexivity.
      + pose proof (Hfirst Hj). pose proof (Hlater _ Hk). congruence.
      + pose proof (Hfirst Hk). pose proof (Hlater _ Hj). congruence.
      + f_equal. eapply IH; eauto.
  Qed.

  (* every dominator of a member of front k sits in a strictly earlier front *)
  Lemma layering_dominators_earlier : forall fronts R, layering R fronts ->
    forall k x, In x (nth k fronts []) -> forall y, In y R -> dom y x = true ->
    exists j, (j < k)%nat /\ In y (nth j fronts []).
  Proof.
    induction fronts as [|f rest IH]; intros R L k x Hx y Hy Hd; simpl in L.
    - destruct k; contradiction.
    - destruct L as [_ [Hf L]]. destruct k; simpl in Hx.
      + exfalso. rewrite Hf in Hx. apply filter_In in Hx. destruct Hx as [_ Hx].
        pose proof (proj1 (nd_true_iff T cmp R x) Hx) as Hx'. rewrite (Hx' y Hy) in Hd. discriminate.
      + destruct (nd R y) eqn:E.
        * exists O. split; [lia|]. simpl. rewrite Hf. apply filter_In. auto.
        * assert (Hy' : In y (filter (fun x => negb (nd R x)) R)) by (apply filter_In; rewrite E; auto).
          destruct (IH _ L k x Hx y Hy' Hd) as [j [Hj Hyj]]. exists (S j). split; [lia|exact Hyj].
  Qed.

  (* every member of front k+1 has a dominator in front k *)
  Lemma layering_dominator_prev : forall fronts R, Forall P R -> layering R fronts ->
    forall k x, In x (nth (S k) fronts []) -> exists y, In y (nth k fronts []) /\ dom y x = true.
  Proof.
    induction fronts as [|f rest IH]; intros R HP L k x Hx; simpl in L.
    - contradiction.
    - destruct L as [_ [Hf L]]. simpl in Hx.
      assert (HxR' : In x (filter (fun x => negb (nd R x)) R)) by (apply (layering_cover _ _ L); eauto).
      destruct k.
      + apply filter_In in HxR'. destruct HxR' as [HxR Hnd]. apply negb_true_iff in Hnd.
        unfold Archive.nd in Hnd. apply negb_false_iff in Hnd.
        pose proof HP as HP'. rewrite Forall_forall in HP'.
        destruct (dominated_by_nd T cmp P dom_trans dom_irrefl R x HP (HP' x HxR) Hnd) as [z [Hz [Hzn Hzx]]].
        exists z. split; [|exact Hzx]. simpl. rewrite Hf. apply filter_In. auto.
      + assert (HP' : Forall P (filter (fun x => negb (nd R x)) R)) by now apply Forall_filter.
        destruct (IH _ HP' L k x Hx) as [y [Hy Hd]]. exists y. split; assumption.
  Qed.

  Lemma layering_nonempty : forall fronts R, Forall P R -> layering R fronts -> Forall (fun f => f <> []) fronts.
  Proof.
    induction fronts as [|f rest IH]; intros R HP L; simpl in L; constructor.
    - destruct L as [Hne [Hf _]].
      destruct (exists_nd T cmp P dom_trans dom_irrefl R HP Hne) as [z [Hz Hnd]].
      intro E. rewrite E in Hf. assert (In z (filter (nd R) R)) by (apply filter_In; auto).
      rewrite <- Hf in H. contradiction.
    - destruct L as [_ [_ L]]. eapply IH; [|exact L]. now apply Forall_filter.
  Qed.

  Lemma filter_length_split {A} (f : A -> bool) l :
    length l = (length (filter f l) + length (filter (fun x => negb (f x)) l))%nat.
  Proof. induction l as [|a l IH]; simpl; [reflexivity|]. destruct (f a); simpl; lia. Qed.

  (* the number of rounds never exceeds the population size *)
  Lemma layering_length : forall fronts R, Forall P R -> layering R fronts -> (length fronts <= length R)%nat.
  Proof.
    induction fronts as [|f rest IH]; intros R HP L; simpl; [lia|].
    pose proof (layering_nonempty _ _ HP L) as NE. inversion NE as [|f' r' Hf _]; subst.
    simpl in L. destruct L as [_ [Ef L]].
    assert (HP' : Forall P (filter (fun x => negb (nd R x)) R)) by now apply Forall_filter.
    pose proof (IH _ HP' L) as B. pose proof (filter_length_split (nd R) R) as S.
    rewrite <- Ef in S. destruct f; [congruence|]. simpl in S. lia.
  Qed.

  (* ---- termination: fuel = len(population) suffices ---- *)
  Lemma nd_loop_fuel : forall fuel R r, Forall P R -> sid_inj R -> (length R <= fuel)%nat ->
    (forall f, incl f R -> crowd f <> None) -> exists log, nd_loop fuel R r = Some log.
  Proof.
    induction fuel as [|fuel IH]; intros R r HP Hinj Hlen Hc.
    - destruct R; [exists []; reflexivity|simpl in Hlen; lia].
    - destruct R as [|a R0]; [exists []; reflexivity|].
      set (R := a :: R0) in *. cbn [NDSort.nd_loop]. fold R.
      assert (Hsub : incl (archive R) R).
      { rewrite (archive_char T cmp P cmp_range cmp_antisym dom_trans dom_irrefl R HP).
        intros y Hy. apply filter_In in Hy. tauto. }
      destruct (crowd (archive R)) as [cr|] eqn:Ec; [|exfalso; now apply (Hc _ Hsub)].
      rewrite (rest_eq R HP Hinj).
      set (R' := filter (fun x => negb (nd R x)) R).
      assert (HP' : Forall P R') by now apply Forall_filter.
      assert (Hincl : incl R' R) by (intros y Hy; apply filter_In in Hy; tauto).
      assert (Hinj' : sid_inj R') by (eapply sid_inj_incl; eauto).
      assert (Hlt : (length R' <= fuel)%nat).
      { pose proof (filter_length_split (nd R) R) as S. fold R' in S.
        assert (R <> []) by discriminate.
        destruct (exists_nd T cmp P dom_trans dom_irrefl R HP H) as [z [Hz Hnd]].
        assert (In z (filter (nd R) R)) by (apply filter_In; auto).
        destruct (filter (nd R) R); [contradiction|]. simpl in S. Show. lia. }
      destruct (IH R' (S r) HP' Hinj' Hlt) as [rest Hrest].
      { intros f Hf. apply Hc. intros y Hy. apply Hincl. now apply Hf. }
      rewrite Hrest. eauto.
  Qed.

  (* ---- rank_of reads the front index ---- *)
  Lemma rank_of_some : forall (log : list (nat * list T * CR)) i r,
    rank_of log i = Some r -> exists k, nth_error (ranks_of log) k = Some r /\ has_sid i (nth k (fronts_of log) []) = true.
  Proof.
    induction log as [|[[r0 f] cr] rest IH]; intros i r H; simpl in H; [discriminate|].
    destruct (rank_of rest i) as [r'|] eqn:E.
    - injection H as <-. destruct (IH i r' E) as [k [H1 H2]]. exists (S k). auto.
    - destruct (has_sid i f) eqn:Hs; [|discriminate]. injection H as <-. exists O. auto.
  Qed.

  Lemma rank_of_spec : forall fuel R r log, nd_loop fuel R r = Some log -> Forall P R -> sid_inj R ->
    forall x, In x R -> exists k, rank_of log (sid x) = Some (r + k)%nat /\ In x (nth k (fronts_of log) []).
  Proof.
    induction fuel as [|fuel IH]; intros R r log H HP Hinj x Hx.
    - destruct R; [contradiction|discriminate].
    - destruct R as [|a R0]; [contradiction|].
      set (R := a :: R0) in *. cbn [NDSort.nd_loop] in H. fold R in H.
      destruct (crowd (archive R)) as [cr|]; [|discriminate].
      destruct (nd_loop fuel (filter (fun x => negb (mem_sid x (archive R))) R) (S r)) as [rest|] eqn:E; [|discriminate].
      injection H as <-.
      rewrite (rest_eq R HP Hinj) in E.
      set (R' := filter (fun x => negb (nd R x)) R) in *.
      assert (HP' : Forall P R') by now apply Forall_filter.
      assert (Hincl : incl R' R) by (intros y Hy; apply filter_In in Hy; tauto).
      assert (Hinj' : sid_inj R') by (eapply sid_inj_incl; eauto).
      assert (EA : archive R = filter (nd R) R)
        by apply (archive_char T cmp P cmp_range cmp_antisym dom_trans dom_irrefl R HP).
      simpl rank_of. simpl fronts_of.
      destruct (nd R x) eqn:Nx.
      + (* x is in the first front; no later round touches it *)
        exists O. split; [|simpl; rewrite EA; apply filter_In; auto].
        destruct (rank_of rest (sid x)) as [r'|] eqn:Er.
        * exfalso. destruct (rank_of_some _ _ _ Er) as [k [_ Hk]].
          apply has_sid_In in Hk. destruct Hk as [y [Hy Ey]].
          destruct (loop_layering _ _ _ _ E HP' Hinj') as [L _].
          assert (HyR' : In y R') by (apply (layering_cover _ _ L); eauto).
          assert (y = x) by (apply Hinj; auto). subst y.
          apply filter_In in HyR'. rewrite Nx in HyR'. destruct HyR'; discriminate.
        * assert (Hs : has_sid (sid x) (archive R) = true).
          { apply has_sid_In. exists x. split; [|reflexivity]. rewrite EA. apply filter_In. auto. }
          rewrite Hs. f_equal. lia.
      + assert (HxR' : In x R') by (apply filter_In; rewrite Nx; auto).
        destruct (IH _ _ _ E HP' Hinj' x HxR') as [k [Hk Hin]].
        exists (S k). rewrite Hk. split; [f_equal; lia|exact Hin].
  Qed.

  (* ---- the theorems ---- *)
  Section Sorted.
    Variable l : list T.
    Variable log : list (nat * list T * CR).
    Hypothesis Hl : Forall P l.
    Hypothesis Hinj : sid_inj l.
    Hypothesis Hrun : nd_loop (length l) l 0%nat = Some log.

    Definition rank (x : T) : option nat := rank_of log (sid x).

    Lemma rank_front x k : In x l -> (rank x = Some k <-> In x (nth k (fronts_of log) [])).
    Proof.
      intro Hx. destruct (rank_of_spec _ _ _ _ Hrun Hl Hinj x Hx) as [k0 [Hk0 Hin]].
      destruct (loop_layering _ _ _ _ Hrun Hl Hinj) as [L _].
      unfold rank. rewrite Hk0. simpl. split.
      - intro E. injection E as <-. exact Hin.
      - intro H. f_equal. eapply layering_disjoint; eauto.
    Qed.

    Theorem rank_total x : In x l -> exists k, rank x = Some k /\ (k < length l)%nat.
    Proof.
      intro Hx. destruct (rank_of_spec _ _ _ _ Hrun Hl Hinj x Hx) as [k [Hk Hin]].
      destruct (loop_layering _ _ _ _ Hrun Hl Hinj) as [L _].
      exists k. split; [exact Hk|].
      pose proof (layering_length _ _ Hl L) as B.
      assert (k < length (fronts_of log))%nat.
      { destruct (Nat.lt_ge_cases k (length (fronts_of log))) as [|G]; [assumption|].
        rewrite (nth_overflow _ _ G) in Hin. contradiction. }
      lia.
    Qed.

    (* the number of rounds is at most len(population) and every front is non-empty *)
    Theorem rounds_bounded : (length log <= length l)%nat /\ Forall (fun f => f <> []) (fronts_of log).
    Proof.
      destruct (loop_layering _ _ _ _ Hrun Hl Hinj) as [L _]. split.
      - pose proof (layering_length _ _ Hl L) as B. unfold fronts_of in B. now rewrite map_length in B.
      - eapply layering_nonempty; eauto.
    Qed.

    (* ranks used are exactly 0 .. (number of rounds - 1), in order *)
    Theorem ranks_contiguous : ranks_of log = seq 0 (length log).
    Proof. now destruct (loop_layering _ _ _ _ Hrun Hl Hinj) as [_ R]. Qed.

    Theorem rank_zero_iff x : In x l -> (rank x = Some 0%nat <-> forall y, In y l -> dom y x = false).
    Proof.
      intro Hx. rewrite (rank_front x 0 Hx).
      destruct (loop_layering _ _ _ _ Hrun Hl Hinj) as [L _].
      destruct (fronts_of log) as [|f rest] eqn:E; simpl in L.
      - subst l. contradiction.
      - destruct L as [_ [Hf _]]. simpl. rewrite Hf, filter_In, (nd_true_iff T cmp). tauto.
    Qed.

    Lemma rank_succ_only_if x r : In x l -> rank x = Some (S r) ->
      (forall y, In y l -> dom y x = true -> exists j, rank y = Some j /\ (j <= r)%nat) /\
      (exists y, In y l /\ dom y x = true /\ rank y = Some r).
    Proof.
      intros Hx Hr. apply (rank_front x (S r) Hx) in Hr.
      destruct (loop_layering _ _ _ _ Hrun Hl Hinj) as [L _]. split.
      - intros y Hy Hd.
        destruct (layering_dominators_earlier _ _ L _ _ Hr y Hy Hd) as [j [Hj Hin]].
        exists j. split; [now apply (rank_front y j Hy)|lia].
      - destruct (layering_dominator_prev _ _ Hl L r x Hr) as [y [Hy Hd]].
        assert (HyL : In y l) by (apply (layering_cover _ _ L); eauto).
        exists y. repeat split; auto. now apply (rank_front y r HyL).
    Qed.

    (* rank r+1 <=> every dominator has rank <= r and one has rank exactly r *)
    Theorem rank_depth x r : In x l ->
      (rank x = Some (S r) <->
       (forall y, In y l -> dom y x = true -> exists j, rank y = Some j /\ (j <= r)%nat) /\
       (exists y, In y l /\ dom y x = true /\ rank y = Some r)).
    Proof.
      intro Hx. split; [now apply rank_succ_only_if|].
      intros [Hall [y [Hy [Hd Hry]]]].
      destruct (rank_total x Hx) as [k [Hk _]]. destruct k as [|k].
      - exfalso. apply (rank_zero_iff x Hx) in Hk. rewrite (Hk y Hy) in Hd. discriminate.
      - destruct (rank_succ_only_if x k Hx Hk) as [Hall' [y' [Hy' [Hd' Hry']]]].
        destruct (Hall' y Hy Hd) as [j [Hj Hjk]]. rewrite Hry in Hj. injection Hj as <-.
        destruct (Hall y' Hy' Hd') as [j' [Hj' Hjr]]. rewrite Hry' in Hj'. injection Hj' as <-.
        rewrite Hk. f_equal. lia.
    Qed.

    (* a dominator always has a strictly smaller rank *)
    Corollary rank_dominator_smaller x y rx ry : In x l -> In y l -> dom y x = true ->
      rank x = Some rx -> rank y = Some ry -> (ry < rx)%nat.
    Proof.
      intros Hx Hy Hd Hrx Hry. destruct rx as [|rx].
      - apply (rank_zero_iff x Hx) in Hrx. rewrite (Hrx y Hy) in Hd. discriminate.
      - destruct (rank_succ_only_if x rx Hx Hrx) as [Hall _].
        destruct (Hall y Hy Hd) as [j [Hj Hle]]. rewrite Hry in Hj. injection Hj as <-. lia.
    Qed.
  End Sorted.
End RankProofs.
