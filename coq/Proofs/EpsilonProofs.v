(* Proofs about Model/Epsilon.v (exact rational arithmetic; binary64 rounding is not modelled).

   Part 1  total "specification" functions (epsilon vector, sign-adjusted objectives, box
           index vector, corner distance, violation key) and the proof that the literal,
           exception-aware model computes exactly them on well-formed inputs.
   Part 2  eps_compare_spec, same_box_iff, range, transitivity.
   Part 3  consistency with Pareto dominance (the C02 model Model/Dominance.v instantiated
           at the carrier xq, objectives embedded by Fin).
   Part 4  the archive: step lemmas, the invariant EInv over every history, the counter.
   Part 5  non-vacuity examples. *)
From Coq Require Import ZArith QArith Qround Bool List Lia Lqa.
Import ListNotations.
From PV Require Import Base.Num Base.Order Model.Dominance Proofs.DominanceProofs Model.Epsilon.
Open Scope Z_scope.

(* ------------------------------------------------------------------------- *)
(* Part 1 : specification functions                                           *)
(* ------------------------------------------------------------------------- *)

(* epsilons: non-empty, all > 0 *)
Definition wf_eps (es : list Q) : Prop := es <> [] /\ Forall (fun e => (0 < e)%Q) es.
Definition wf_cfg (c : ecfg) : Prop := wf_eps (e_eps c).
(* a solution of the problem: nobjs objectives, violation >= 0 *)
Definition wf_sol (c : ecfg) (s : esol) : Prop :=
  length (e_objs s) = length (e_dirs c) /\ (0 <= e_cv s)%Q.

(* the epsilon of objective i: the i-th, or the LAST one when the list is shorter *)
Definition eps_of (es : list Q) (i : nat) : Q :=
  match eps_at es i with Some e => e | None => 1%Q end.

Fixpoint epsv_from (es : list Q) (i n : nat) : list Q :=
  match n with O => [] | S n' => eps_of es i :: epsv_from es (S i) n' end.
(* one epsilon per objective *)
Definition eps_vec (c : ecfg) : list Q := epsv_from (e_eps c) 0 (length (e_dirs c)).

(* objectives with the maximised ones negated *)
Fixpoint adj_vec (dirs : list bool) (objs : list Q) : list Q :=
  match dirs, objs with
  | mx :: d, o :: r => eps_adj mx o :: adj_vec d r
  | _, _ => []
  end.
Definition eps_adjs (c : ecfg) (s : esol) : list Q := adj_vec (e_dirs c) (e_objs s).

(* box index vector: floor (adjusted objective / epsilon) per objective *)
Fixpoint box_vec (ev av : list Q) : list Z :=
  match ev, av with
  | e :: ev', a :: av' => Qfloor (a / e) :: box_vec ev' av'
  | _, _ => []
  end.
Definition eps_boxes (c : ecfg) (s : esol) : list Z := box_vec (eps_vec c) (eps_adjs c s).

(* squared distance to the ideal corner of the own box, summed left to right from acc *)
Fixpoint cdist_acc (ev av : list Q) (acc : Q) : Q :=
  match ev, av with
  | e :: ev', a :: av' =>
      let t := (a - inject_Z (Qfloor (a / e)) * e)%Q in cdist_acc ev' av' (acc + t * t)%Q
  | _, _ => acc
  end.
Definition eps_cdist (c : ecfg) (s : esol) : Q := cdist_acc (eps_vec c) (eps_adjs c s) 0%Q.

(* violation class: the violation on a constrained problem, nothing otherwise *)
Definition eps_vkey (c : ecfg) (s : esol) : Q := if e_con c then e_cv s else 0%Q.

(* relations on box index vectors *)
Fixpoint zall_le (b1 b2 : list Z) : bool :=
  match b1, b2 with x :: r1, y :: r2 => (x <=? y) && zall_le r1 r2 | _, _ => true end.
Fixpoint zsome_lt (b1 b2 : list Z) : bool :=
  match b1, b2 with x :: r1, y :: r2 => (x <? y) || zsome_lt r1 r2 | _, _ => false end.
(* Pareto dominance between boxes *)
Definition zdom (b1 b2 : list Z) : bool := zall_le b1 b2 && zsome_lt b1 b2.
Fixpoint zvec_eqb (b1 b2 : list Z) : bool :=
  match b1, b2 with
  | x :: r1, y :: r2 => (x =? y) && zvec_eqb r1 r2
  | [], [] => true
  | _, _ => false
  end.

(* the flag scan on box index vectors *)
Fixpoint zscan (b1 b2 : list Z) (d1 d2 : bool) : scanres :=
  match b1, b2 with
  | x :: r1, y :: r2 =>
      if x <? y then (if d2 then SExit else zscan r1 r2 true d2)
      else if x >? y then (if d1 then SExit else zscan r1 r2 d1 true)
      else zscan r1 r2 d1 d2
  | _, _ => SFlags d1 d2
  end.

(* ---- epsilons ---- *)
Lemma eps_at_wf es i : wf_eps es -> eps_at es i = Some (eps_of es i) /\ (0 < eps_of es i)%Q.
Proof.
  intros [Hne Hpos]. unfold eps_of, eps_at.
  assert (Hlen : (0 < length es)%nat) by (destruct es; [congruence|simpl; lia]).
  destruct (i <? length es)%nat eqn:E.
  - apply Nat.ltb_lt in E.
    destruct (nth_error es i) as [e|] eqn:N.
    + split; [reflexivity|]. apply nth_error_In in N. rewrite Forall_forall in Hpos. auto.
    + apply nth_error_None in N. lia.
  - destruct (nth_error es (length es - 1)) as [e|] eqn:N.
    + split; [reflexivity|]. apply nth_error_In in N. rewrite Forall_forall in Hpos. auto.
    + apply nth_error_None in N. lia.
Qed.

Lemma box_index_pos e o : (0 < e)%Q -> box_index e o = Some (Qfloor (o / e)).
Proof.
  intro H. unfold box_index. destruct (Qeq_bool e 0) eqn:E; [|reflexivity].
  apply Qeq_bool_iff in E. rewrite E in H. exfalso. apply (Qlt_irrefl 0 H).
Qed.

Lemma epsv_from_length es i n : length (epsv_from es i n) = n.
Proof. revert i. induction n as [|n IH]; intro i; simpl; [reflexivity|]. now rewrite IH. Qed.

Lemma epsv_from_pos es : wf_eps es -> forall n i, Forall (fun e => (0 < e)%Q) (epsv_from es i n).
Proof.
  intros W n. induction n as [|n IH]; intro i; simpl; constructor.
  - apply (eps_at_wf es i W).
  - apply IH.
Qed.

Lemma adj_vec_length dirs : forall objs, length objs = length dirs -> length (adj_vec dirs objs) = length dirs.
Proof. induction dirs as [|mx d IH]; intros [|o r] H; simpl in *; try discriminate; try reflexivity. f_equal. apply IH. lia. Qed.

Lemma box_vec_length : forall ev av, length av = length ev -> length (box_vec ev av) = length ev.
Proof. induction ev as [|e ev IH]; intros [|a av] H; simpl in *; try discriminate; try reflexivity. f_equal. apply IH. lia. Qed.

Lemma eps_vec_length c : length (eps_vec c) = length (e_dirs c).
Proof. apply epsv_from_length. Qed.

Lemma eps_adjs_length c s : wf_sol c s -> length (eps_adjs c s) = length (e_dirs c).
Proof. intros [H _]. now apply adj_vec_length. Qed.

Lemma eps_boxes_length c s : wf_sol c s -> length (eps_boxes c s) = length (e_dirs c).
Proof.
  intro W. unfold eps_boxes. rewrite box_vec_length; [apply eps_vec_length|].
  now rewrite eps_adjs_length, eps_vec_length.
Qed.

(* ---- the literal loops compute the specification functions ---- *)
Lemma eps_scan_total es : wf_eps es -> forall dirs i o1 o2 d1 d2,
  length o1 = length dirs -> length o2 = length dirs ->
  eps_scan es i dirs o1 o2 d1 d2 =
  Some (zscan (box_vec (epsv_from es i (length dirs)) (adj_vec dirs o1))
              (box_vec (epsv_from es i (length dirs)) (adj_vec dirs o2)) d1 d2).
Proof.
  intros W dirs. induction dirs as [|mx d IH]; intros i [|a r1] [|b r2] d1 d2 H1 H2;
    simpl in H1, H2; try discriminate; try reflexivity.
  cbn [eps_scan zscan box_vec adj_vec epsv_from length].
  destruct (eps_at_wf es i W) as [Ea Ep]. rewrite Ea.
  rewrite !(box_index_pos _ _ Ep).
  destruct (Qfloor (eps_adj mx a / eps_of es i) <? Qfloor (eps_adj mx b / eps_of es i)).
  - destruct d2; [reflexivity|]. apply IH; lia.
  - destruct (Qfloor (eps_adj mx a / eps_of es i) >? Qfloor (eps_adj mx b / eps_of es i)).
    + destruct d1; [reflexivity|]. apply IH; lia.
    + apply IH; lia.
Qed.

(* strict improvement in some (sign-adjusted) objective *)
Fixpoint qsome_lt (av1 av2 : list Q) : bool :=
  match av1, av2 with x :: r1, y :: r2 => Qltb x y || qsome_lt r1 r2 | _, _ => false end.
Fixpoint qall_le (av1 av2 : list Q) : bool :=
  match av1, av2 with x :: r1, y :: r2 => negb (Qltb y x) && qall_le r1 r2 | _, _ => true end.

Lemma Qltb_asym a b : Qltb a b = true -> Qltb b a = false.
Proof. rewrite Qltb_lt, Qltb_false. apply Qlt_le_weak. Qed.

Lemma eps_dist_total es : wf_eps es -> forall dirs i o1 o2 a1 a2 b1 b2,
  length o1 = length dirs -> length o2 = length dirs ->
  eps_dist es i dirs o1 o2 a1 a2 b1 b2 =
  Some (cdist_acc (epsv_from es i (length dirs)) (adj_vec dirs o1) a1,
        cdist_acc (epsv_from es i (length dirs)) (adj_vec dirs o2) a2,
        b1 || qsome_lt (adj_vec dirs o1) (adj_vec dirs o2),
        b2 || qsome_lt (adj_vec dirs o2) (adj_vec dirs o1)).
Proof.
  intros W dirs. induction dirs as [|mx d IH]; intros i [|a r1] [|b r2] a1 a2 b1 b2 H1 H2;
    simpl in H1, H2; try discriminate.
  - cbn [eps_dist cdist_acc adj_vec qsome_lt epsv_from length]. now rewrite !orb_false_r.
  - cbn [eps_dist cdist_acc adj_vec qsome_lt epsv_from length].
    destruct (eps_at_wf es i W) as [Ea Ep]. rewrite Ea.
    rewrite !(box_index_pos _ _ Ep). rewrite IH by lia.
    destruct (Qltb (eps_adj mx a) (eps_adj mx b)) eqn:E.
    + rewrite (Qltb_asym _ _ E). cbn [orb]. now rewrite orb_true_r.
    + cbn [orb]. destruct (Qltb (eps_adj mx b) (eps_adj mx a)); cbn [orb]; [now rewrite orb_true_r|reflexivity].
Qed.

(* ---- the scan on index vectors ---- *)
Lemma zscan_flags : forall b1 b2 d1 d2,
  zscan b1 b2 d1 d2 =
  if (d2 && zsome_lt b1 b2) || (d1 && zsome_lt b2 b1) || (zsome_lt b1 b2 && zsome_lt b2 b1)
  then SExit else SFlags (d1 || zsome_lt b1 b2) (d2 || zsome_lt b2 b1).
Proof.
  induction b1 as [|x r1 IH]; intros [|y r2] d1 d2; simpl;
    try (rewrite ?andb_false_r, ?orb_false_r; reflexivity).
  rewrite Z.gtb_ltb.
  destruct (x <? y) eqn:E1; destruct (y <? x) eqn:E2;
    try (apply Z.ltb_lt in E1; apply Z.ltb_lt in E2; lia).
  - destruct d2; simpl; [now rewrite ?orb_true_r|].
    rewrite IH. simpl. destruct d1, (zsome_lt r1 r2), (zsome_lt r2 r1); reflexivity.
  - destruct d1; simpl; [now rewrite ?orb_true_r|].
    rewrite IH. simpl. destruct d2, (zsome_lt r1 r2), (zsome_lt r2 r1); reflexivity.
  - simpl. apply IH.
Qed.

Lemma zsome_lt_all_le : forall b1 b2, length b1 = length b2 -> zsome_lt b2 b1 = negb (zall_le b1 b2).
Proof.
  induction b1 as [|x r1 IH]; intros [|y r2] H; simpl in *; try discriminate; try reflexivity.
  rewrite negb_andb, (IH r2) by lia. f_equal. rewrite Z.leb_antisym. now rewrite negb_involutive.
Qed.

Lemma zvec_eqb_eq : forall b1 b2, zvec_eqb b1 b2 = true <-> b1 = b2.
Proof.
  induction b1 as [|x r1 IH]; intros [|y r2]; simpl; split; intro H; try discriminate; try reflexivity.
  - apply andb_true_iff in H. destruct H as [A B]. apply Z.eqb_eq in A. apply IH in B. congruence.
  - inversion H; subst. rewrite Z.eqb_refl. simpl. now apply IH.
Qed.

Lemma zvec_eqb_refl b : zvec_eqb b b = true.
Proof. now apply zvec_eqb_eq. Qed.

Lemma zall_le_both_eq : forall b1 b2, length b1 = length b2 ->
  zall_le b1 b2 && zall_le b2 b1 = zvec_eqb b1 b2.
Proof.
  induction b1 as [|x r1 IH]; intros [|y r2] H; simpl in *; try discriminate; try reflexivity.
  rewrite <- (IH r2) by lia.
  destruct (x <=? y) eqn:A, (y <=? x) eqn:B, (x =? y) eqn:C; simpl;
    rewrite ?andb_false_r; try reflexivity;
    try apply Z.leb_le in A; try apply Z.leb_le in B; try apply Z.leb_gt in A; try apply Z.leb_gt in B;
    try apply Z.eqb_eq in C; try apply Z.eqb_neq in C; lia.
Qed.

Lemma zall_le_refl b : zall_le b b = true.
Proof. induction b as [|x r IH]; simpl; [reflexivity|]. now rewrite Z.leb_refl, IH. Qed.

Lemma zsome_lt_irrefl b : zsome_lt b b = false.
Proof. induction b as [|x r IH]; simpl; [reflexivity|]. now rewrite Z.ltb_irrefl, IH. Qed.

Lemma zall_le_trans : forall b1 b2 b3, length b1 = length b2 -> length b2 = length b3 ->
  zall_le b1 b2 = true -> zall_le b2 b3 = true -> zall_le b1 b3 = true.
Proof.
  induction b1 as [|x r1 IH]; intros [|y r2] [|z r3] H1 H2; simpl in *; try discriminate; auto.
  rewrite !andb_true_iff, !Z.leb_le. intros [A1 A2] [B1 B2]. split; [lia|].
  apply (IH r2 r3); auto; lia.
Qed.

Lemma zdom_trans_gen : forall b1 b2 b3, length b1 = length b2 -> length b2 = length b3 ->
  zall_le b1 b2 = true -> zall_le b2 b3 = true ->
  zsome_lt b1 b2 || zsome_lt b2 b3 = true -> zsome_lt b1 b3 = true.
Proof.
  induction b1 as [|x r1 IH]; intros [|y r2] [|z r3] H1 H2; simpl in *; try discriminate; auto.
  rewrite !andb_true_iff, !orb_true_iff, !Z.leb_le, !Z.ltb_lt. intros [A1 A2] [B1 B2] C.
  destruct (Z_lt_dec x z) as [D|D]; [left; exact D|right].
  apply (IH r2 r3); auto; try lia. apply orb_true_iff.
  destruct C as [[C|C]|[C|C]]; try lia; auto.
Qed.

Lemma zdom_trans b1 b2 b3 : length b1 = length b2 -> length b2 = length b3 ->
  zdom b1 b2 = true -> zdom b2 b3 = true -> zdom b1 b3 = true.
Proof.
  unfold zdom. rewrite !andb_true_iff. intros H1 H2 [A1 A2] [B1 B2]. split.
  - eapply zall_le_trans; eauto.
  - eapply zdom_trans_gen; eauto. now rewrite A2.
Qed.

Lemma zdom_le_trans b1 b2 b3 : length b1 = length b2 -> length b2 = length b3 ->
  zdom b1 b2 = true -> zall_le b2 b3 = true -> zdom b1 b3 = true.
Proof.
  unfold zdom. rewrite !andb_true_iff. intros H1 H2 [A1 A2] B1. split.
  - eapply zall_le_trans; eauto.
  - eapply zdom_trans_gen; eauto. now rewrite A2.
Qed.

Lemma zdom_asym b1 b2 : length b1 = length b2 -> zdom b1 b2 = true -> zdom b2 b1 = false.
Proof.
  intros H. unfold zdom. rewrite (zsome_lt_all_le b2 b1) by lia. rewrite (zsome_lt_all_le b1 b2 H).
  destruct (zall_le b1 b2), (zall_le b2 b1); simpl; congruence.
Qed.

Lemma zdom_irrefl b : zdom b b = false.
Proof. unfold zdom. now rewrite zsome_lt_irrefl, andb_false_r. Qed.

(* ---- the violation ladder ---- *)
Lemma Qeq_bool_false_neq a b : Qeq_bool a b = false -> ~ (a == b)%Q.
Proof. intros H C. apply Qeq_bool_iff in C. congruence. Qed.

Lemma eps_ladder_spec con c1 c2 : (0 <= c1)%Q -> (0 <= c2)%Q ->
  eps_ladder con c1 c2 =
    if con && Qltb c1 c2 then Some (-1) else if con && Qltb c2 c1 then Some 1 else None.
Proof.
  intros K1 K2. unfold eps_ladder. destruct con; simpl; [|reflexivity].
  destruct (Qeq_bool c1 c2) eqn:E; simpl.
  - apply Qeq_bool_iff in E.
    assert (A : Qltb c1 c2 = false) by (apply Qltb_false; rewrite E; apply Qle_refl).
    assert (B : Qltb c2 c1 = false) by (apply Qltb_false; rewrite E; apply Qle_refl).
    now rewrite A, B.
  - apply Qeq_bool_false_neq in E.
    destruct (Qeq_bool c1 0) eqn:Z1.
    + apply Qeq_bool_iff in Z1.
      assert (A : Qltb c1 c2 = true).
      { apply Qltb_lt. rewrite Z1 in *. destruct (Qle_lt_or_eq _ _ K2) as [L|L]; [exact L|]. exfalso. apply E. exact L. }
      now rewrite A.
    + apply Qeq_bool_false_neq in Z1.
      destruct (Qeq_bool c2 0) eqn:Z2.
      * apply Qeq_bool_iff in Z2.
        assert (B : Qltb c2 c1 = true).
        { apply Qltb_lt. rewrite Z2 in *. destruct (Qle_lt_or_eq _ _ K1) as [L|L]; [exact L|]. exfalso. apply Z1. symmetry. exact L. }
        assert (A : Qltb c1 c2 = false).
        { apply Qltb_false. apply Qltb_lt in B. apply Qlt_le_weak. exact B. }
        now rewrite A, B.
      * destruct (Qltb c1 c2) eqn:A; [reflexivity|].
        destruct (Qltb c2 c1) eqn:B; [reflexivity|].
        exfalso. apply Qltb_false in A, B. apply E. apply Qle_antisym; assumption.
Qed.
