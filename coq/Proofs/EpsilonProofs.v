(* Proofs about Model/Epsilon.v (exact rational arithmetic; binary64 rounding is not modelled).

   Part 1  total "specification" functions (epsilon vector, sign-adjusted objectives, box
           index vector, corner distance, violation key) and the proof that the literal,
           exception-aware model computes exactly them on well-formed inputs.
   Part 2  eps_compare_spec, same_box_iff, range, transitivity.
   Part 3  consistency with Pareto dominance (the C02 model Model/Dominance.v instantiated
           at the carrier xq, objectives embedded by Fin).
   Part 4  the archive: step lemmas, the invariant EInv over every history, the counter.
   Part 5  non-vacuity examples. *)
From Coq Require Import ZArith QArith Qround Bool List Lia Lqa.
Import ListNotations.
From PV Require Import Base.Num Base.Order Model.Dominance Proofs.DominanceProofs Model.Epsilon.
Open Scope Z_scope.

(* ------------------------------------------------------------------------- *)
(* Part 1 : specification functions                                           *)
(* ------------------------------------------------------------------------- *)

(* epsilons: non-empty, all > 0 *)
Definition wf_eps (es : list Q) : Prop := es <> [] /\ Forall (fun e => (0 < e)%Q) es.
Definition wf_cfg (c : ecfg) : Prop := wf_eps (e_eps c).
(* a solution of the problem: nobjs objectives, violation >= 0 *)
Definition wf_sol (c : ecfg) (s : esol) : Prop :=
  length (e_objs s) = length (e_dirs c) /\ (0 <= e_cv s)%Q.

(* the epsilon of objective i: the i-th, or the LAST one when the list is shorter *)
Definition eps_of (es : list Q) (i : nat) : Q :=
  match eps_at es i with Some e => e | None => 1%Q end.

Fixpoint epsv_from (es : list Q) (i n : nat) : list Q :=
  match n with O => [] | S n' => eps_of es i :: epsv_from es (S i) n' end.
(* one epsilon per objective *)
Definition eps_vec (c : ecfg) : list Q := epsv_from (e_eps c) 0 (length (e_dirs c)).

(* objectives with the maximised ones negated *)
Fixpoint adj_vec (dirs : list bool) (objs : list Q) : list Q :=
  match dirs, objs with
  | mx :: d, o :: r => eps_adj mx o :: adj_vec d r
  | _, _ => []
  end.
Definition eps_adjs (c : ecfg) (s : esol) : list Q := adj_vec (e_dirs c) (e_objs s).

(* box index vector: floor (adjusted objective / epsilon) per objective *)
Fixpoint box_vec (ev av : list Q) : list Z :=
  match ev, av with
  | e :: ev', a :: av' => Qfloor (a / e) :: box_vec ev' av'
  | _, _ => []
  end.
Definition eps_boxes (c : ecfg) (s : esol) : list Z := box_vec (eps_vec c) (eps_adjs c s).

(* squared distance to the ideal corner of the own box, summed left to right from acc *)
Fixpoint cdist_acc (ev av : list Q) (acc : Q) : Q :=
  match ev, av with
  | e :: ev', a :: av' =>
      let t := (a - inject_Z (Qfloor (a / e)) * e)%Q in cdist_acc ev' av' (acc + t * t)%Q
  | _, _ => acc
  end.
Definition eps_cdist (c : ecfg) (s : esol) : Q := cdist_acc (eps_vec c) (eps_adjs c s) 0%Q.

(* violation class: the violation on a constrained problem, nothing otherwise *)
Definition eps_vkey (c : ecfg) (s : esol) : Q := if e_con c then e_cv s else 0%Q.

(* relations on box index vectors *)
Fixpoint zall_le (b1 b2 : list Z) : bool :=
  match b1, b2 with x :: r1, y :: r2 => (x <=? y) && zall_le r1 r2 | _, _ => true end.
Fixpoint zsome_lt (b1 b2 : list Z) : bool :=
  match b1, b2 with x :: r1, y :: r2 => (x <? y) || zsome_lt r1 r2 | _, _ => false end.
(* Pareto dominance between boxes *)
Definition zdom (b1 b2 : list Z) : bool := zall_le b1 b2 && zsome_lt b1 b2.
Fixpoint zvec_eqb (b1 b2 : list Z) : bool :=
  match b1, b2 with
  | x :: r1, y :: r2 => (x =? y) && zvec_eqb r1 r2
  | [], [] => true
  | _, _ => false
  end.

(* the flag scan on box index vectors *)
Fixpoint zscan (b1 b2 : list Z) (d1 d2 : bool) : scanres :=
  match b1, b2 with
  | x :: r1, y :: r2 =>
      if x <? y then (if d2 then SExit else zscan r1 r2 true d2)
      else if x >? y then (if d1 then SExit else zscan r1 r2 d1 true)
      else zscan r1 r2 d1 d2
  | _, _ => SFlags d1 d2
  end.

(* ---- epsilons ---- *)
Lemma eps_at_wf es i : wf_eps es -> eps_at es i = Some (eps_of es i) /\ (0 < eps_of es i)%Q.
Proof.
  intros [Hne Hpos]. unfold eps_of, eps_at.
  assert (Hlen : (0 < length es)%nat) by (destruct es; [congruence|simpl; lia]).
  destruct (i <? length es)%nat eqn:E.
  - apply Nat.ltb_lt in E.
    destruct (nth_error es i) as [e|] eqn:N.
    + split; [reflexivity|]. apply nth_error_In in N. rewrite Forall_forall in Hpos. auto.
    + apply nth_error_None in N. lia.
  - destruct (nth_error es (length es - 1)) as [e|] eqn:N.
    + split; [reflexivity|]. apply nth_error_In in N. rewrite Forall_forall in Hpos. auto.
    + apply nth_error_None in N. lia.
Qed.

Lemma box_index_pos e o : (0 < e)%Q -> box_index e o = Some (Qfloor (o / e)).
Proof.
  intro H. unfold box_index. destruct (Qeq_bool e 0) eqn:E; [|reflexivity].
  apply Qeq_bool_iff in E. rewrite E in H. exfalso. apply (Qlt_irrefl 0 H).
Qed.

Lemma epsv_from_length es i n : length (epsv_from es i n) = n.
Proof. revert i. induction n as [|n IH]; intro i; simpl; [reflexivity|]. now rewrite IH. Qed.

Lemma epsv_from_pos es : wf_eps es -> forall n i, Forall (fun e => (0 < e)%Q) (epsv_from es i n).
Proof.
  intros W n. induction n as [|n IH]; intro i; simpl; constructor.
  - apply (eps_at_wf es i W).
  - apply IH.
Qed.

Lemma adj_vec_length dirs : forall objs, length objs = length dirs -> length (adj_vec dirs objs) = length dirs.
Proof. induction dirs as [|mx d IH]; intros [|o r] H; simpl in *; try discriminate; try reflexivity. f_equal. apply IH. lia. Qed.

Lemma box_vec_length : forall ev av, length av = length ev -> length (box_vec ev av) = length ev.
Proof. induction ev as [|e ev IH]; intros [|a av] H; simpl in *; try discriminate; try reflexivity. f_equal. apply IH. lia. Qed.

Lemma eps_vec_length c : length (eps_vec c) = length (e_dirs c).
Proof. apply epsv_from_length. Qed.

Lemma eps_adjs_length c s : wf_sol c s -> length (eps_adjs c s) = length (e_dirs c).
Proof. intros [H _]. now apply adj_vec_length. Qed.

Lemma eps_boxes_length c s : wf_sol c s -> length (eps_boxes c s) = length (e_dirs c).
Proof.
  intro W. unfold eps_boxes. rewrite box_vec_length; [apply eps_vec_length|].
  now rewrite eps_adjs_length, eps_vec_length.
Qed.

(* ---- the literal loops compute the specification functions ---- *)
Lemma eps_scan_total es : wf_eps es -> forall dirs i o1 o2 d1 d2,
  length o1 = length dirs -> length o2 = length dirs ->
  eps_scan es i dirs o1 o2 d1 d2 =
  Some (zscan (box_vec (epsv_from es i (length dirs)) (adj_vec dirs o1))
              (box_vec (epsv_from es i (length dirs)) (adj_vec dirs o2)) d1 d2).
Proof.
  intros W dirs. induction dirs as [|mx d IH]; intros i [|a r1] [|b r2] d1 d2 H1 H2;
    simpl in H1, H2; try discriminate; try reflexivity.
  cbn [eps_scan zscan box_vec adj_vec epsv_from length].
  destruct (eps_at_wf es i W) as [Ea Ep]. rewrite Ea.
  rewrite !(box_index_pos _ _ Ep).
  destruct (Qfloor (eps_adj mx a / eps_of es i) <? Qfloor (eps_adj mx b / eps_of es i)).
  - destruct d2; [reflexivity|]. apply IH; lia.
  - destruct (Qfloor (eps_adj mx a / eps_of es i) >? Qfloor (eps_adj mx b / eps_of es i)).
    + destruct d1; [reflexivity|]. apply IH; lia.
    + apply IH; lia.
Qed.

(* strict improvement in some (sign-adjusted) objective *)
Fixpoint qsome_lt (av1 av2 : list Q) : bool :=
  match av1, av2 with x :: r1, y :: r2 => Qltb x y || qsome_lt r1 r2 | _, _ => false end.
Fixpoint qall_le (av1 av2 : list Q) : bool :=
  match av1, av2 with x :: r1, y :: r2 => negb (Qltb y x) && qall_le r1 r2 | _, _ => true end.

Lemma Qltb_asym a b : Qltb a b = true -> Qltb b a = false.
Proof. rewrite Qltb_lt, Qltb_false. apply Qlt_le_weak. Qed.

Lemma eps_dist_total es : wf_eps es -> forall dirs i o1 o2 a1 a2 b1 b2,
  length o1 = length dirs -> length o2 = length dirs ->
  eps_dist es i dirs o1 o2 a1 a2 b1 b2 =
  Some (cdist_acc (epsv_from es i (length dirs)) (adj_vec dirs o1) a1,
        cdist_acc (epsv_from es i (length dirs)) (adj_vec dirs o2) a2,
        b1 || qsome_lt (adj_vec dirs o1) (adj_vec dirs o2),
        b2 || qsome_lt (adj_vec dirs o2) (adj_vec dirs o1)).
Proof.
  intros W dirs. induction dirs as [|mx d IH]; intros i [|a r1] [|b r2] a1 a2 b1 b2 H1 H2;
    simpl in H1, H2; try discriminate.
  - cbn [eps_dist cdist_acc adj_vec qsome_lt epsv_from length]. now rewrite !orb_false_r.
  - cbn [eps_dist cdist_acc adj_vec qsome_lt epsv_from length].
    destruct (eps_at_wf es i W) as [Ea Ep]. rewrite Ea.
    rewrite !(box_index_pos _ _ Ep). rewrite IH by lia.
    destruct (Qltb (eps_adj mx a) (eps_adj mx b)) eqn:E.
    + rewrite (Qltb_asym _ _ E). cbn [orb]. now rewrite orb_true_r.
    + cbn [orb]. destruct (Qltb (eps_adj mx b) (eps_adj mx a)); cbn [orb]; [now rewrite orb_true_r|reflexivity].
Qed.

(* ---- the scan on index vectors ---- *)
Lemma zscan_flags : forall b1 b2 d1 d2,
  zscan b1 b2 d1 d2 =
  if (d2 && zsome_lt b1 b2) || (d1 && zsome_lt b2 b1) || (zsome_lt b1 b2 && zsome_lt b2 b1)
  then SExit else SFlags (d1 || zsome_lt b1 b2) (d2 || zsome_lt b2 b1).
Proof.
  induction b1 as [|x r1 IH]; intros [|y r2] d1 d2; simpl;
    try (rewrite ?andb_false_r, ?orb_false_r; reflexivity).
  rewrite Z.gtb_ltb.
  destruct (x <? y) eqn:E1; destruct (y <? x) eqn:E2;
    try (apply Z.ltb_lt in E1; apply Z.ltb_lt in E2; lia).
  - destruct d2; simpl; [now rewrite ?orb_true_r|].
    rewrite IH. simpl. destruct d1, (zsome_lt r1 r2), (zsome_lt r2 r1); reflexivity.
  - destruct d1; simpl; [now rewrite ?orb_true_r|].
    rewrite IH. simpl. destruct d2, (zsome_lt r1 r2), (zsome_lt r2 r1); reflexivity.
  - simpl. apply IH.
Qed.

Lemma zsome_lt_all_le : forall b1 b2, length b1 = length b2 -> zsome_lt b2 b1 = negb (zall_le b1 b2).
Proof.
  induction b1 as [|x r1 IH]; intros [|y r2] H; simpl in *; try discriminate; try reflexivity.
  rewrite negb_andb, (IH r2) by lia. f_equal. rewrite Z.leb_antisym. now rewrite negb_involutive.
Qed.

Lemma zvec_eqb_eq : forall b1 b2, zvec_eqb b1 b2 = true <-> b1 = b2.
Proof.
  induction b1 as [|x r1 IH]; intros [|y r2]; simpl; split; intro H; try discriminate; try reflexivity.
  - apply andb_true_iff in H. destruct H as [A B]. apply Z.eqb_eq in A. apply IH in B. congruence.
  - inversion H; subst. rewrite Z.eqb_refl. simpl. now apply IH.
Qed.

Lemma zvec_eqb_refl b : zvec_eqb b b = true.
Proof. now apply zvec_eqb_eq. Qed.

Lemma zall_le_both_eq : forall b1 b2, length b1 = length b2 ->
  zall_le b1 b2 && zall_le b2 b1 = zvec_eqb b1 b2.
Proof.
  induction b1 as [|x r1 IH]; intros [|y r2] H; simpl in *; try discriminate; try reflexivity.
  rewrite <- (IH r2) by lia.
  destruct (x <=? y) eqn:A, (y <=? x) eqn:B, (x =? y) eqn:C; simpl;
    rewrite ?andb_false_r; try reflexivity;
    try apply Z.leb_le in A; try apply Z.leb_le in B; try apply Z.leb_gt in A; try apply Z.leb_gt in B;
    try apply Z.eqb_eq in C; try apply Z.eqb_neq in C; lia.
Qed.

Lemma zall_le_refl b : zall_le b b = true.
Proof. induction b as [|x r IH]; simpl; [reflexivity|]. now rewrite Z.leb_refl, IH. Qed.

Lemma zsome_lt_irrefl b : zsome_lt b b = false.
Proof. induction b as [|x r IH]; simpl; [reflexivity|]. now rewrite Z.ltb_irrefl, IH. Qed.

Lemma zall_le_trans : forall b1 b2 b3, length b1 = length b2 -> length b2 = length b3 ->
  zall_le b1 b2 = true -> zall_le b2 b3 = true -> zall_le b1 b3 = true.
Proof.
  induction b1 as [|x r1 IH]; intros [|y r2] [|z r3] H1 H2; simpl in *; try discriminate; auto.
  rewrite !andb_true_iff, !Z.leb_le. intros [A1 A2] [B1 B2]. split; [lia|].
  apply (IH r2 r3); auto; lia.
Qed.

Lemma zdom_trans_gen : forall b1 b2 b3, length b1 = length b2 -> length b2 = length b3 ->
  zall_le b1 b2 = true -> zall_le b2 b3 = true ->
  zsome_lt b1 b2 || zsome_lt b2 b3 = true -> zsome_lt b1 b3 = true.
Proof.
  induction b1 as [|x r1 IH]; intros [|y r2] [|z r3] H1 H2; simpl in *; try discriminate; auto.
  rewrite !andb_true_iff, !orb_true_iff, !Z.leb_le, !Z.ltb_lt. intros [A1 A2] [B1 B2] C.
  destruct (Z_lt_dec x z) as [D|D]; [left; exact D|right].
  apply (IH r2 r3); auto; try lia. apply orb_true_iff.
  destruct C as [[C|C]|[C|C]]; try lia; auto.
Qed.

Lemma zdom_trans b1 b2 b3 : length b1 = length b2 -> length b2 = length b3 ->
  zdom b1 b2 = true -> zdom b2 b3 = true -> zdom b1 b3 = true.
Proof.
  unfold zdom. rewrite !andb_true_iff. intros H1 H2 [A1 A2] [B1 B2]. split.
  - eapply zall_le_trans; eauto.
  - eapply zdom_trans_gen; eauto. now rewrite A2.
Qed.

Lemma zdom_le_trans b1 b2 b3 : length b1 = length b2 -> length b2 = length b3 ->
  zdom b1 b2 = true -> zall_le b2 b3 = true -> zdom b1 b3 = true.
Proof.
  unfold zdom. rewrite !andb_true_iff. intros H1 H2 [A1 A2] B1. split.
  - eapply zall_le_trans; eauto.
  - eapply zdom_trans_gen; eauto. now rewrite A2.
Qed.

Lemma zdom_asym b1 b2 : length b1 = length b2 -> zdom b1 b2 = true -> zdom b2 b1 = false.
Proof.
  intros H. unfold zdom. rewrite (zsome_lt_all_le b2 b1) by lia. rewrite (zsome_lt_all_le b1 b2 H).
  destruct (zall_le b1 b2), (zall_le b2 b1); simpl; congruence.
Qed.

Lemma zdom_irrefl b : zdom b b = false.
Proof. unfold zdom. now rewrite zsome_lt_irrefl, andb_false_r. Qed.

(* ---- the violation ladder ---- *)
Lemma Qeq_bool_false_neq a b : Qeq_bool a b = false -> ~ (a == b)%Q.
Proof. intros H C. apply Qeq_bool_iff in C. congruence. Qed.

Lemma eps_ladder_spec con c1 c2 : (0 <= c1)%Q -> (0 <= c2)%Q ->
  eps_ladder con c1 c2 =
    if con && Qltb c1 c2 then Some (-1) else if con && Qltb c2 c1 then Some 1 else None.
Proof.
  intros K1 K2. unfold eps_ladder. destruct con; simpl; [|reflexivity].
  destruct (Qeq_bool c1 c2) eqn:E; simpl.
  - apply Qeq_bool_iff in E.
    assert (A : Qltb c1 c2 = false) by (apply Qltb_false; rewrite E; apply Qle_refl).
    assert (B : Qltb c2 c1 = false) by (apply Qltb_false; rewrite E; apply Qle_refl).
    now rewrite A, B.
  - apply Qeq_bool_false_neq in E.
    destruct (Qeq_bool c1 0) eqn:Z1.
    + apply Qeq_bool_iff in Z1.
      assert (A : Qltb c1 c2 = true).
      { apply Qltb_lt. rewrite Z1 in *. destruct (Qle_lt_or_eq _ _ K2) as [L|L]; [exact L|]. exfalso. apply E. exact L. }
      now rewrite A.
    + apply Qeq_bool_false_neq in Z1.
      destruct (Qeq_bool c2 0) eqn:Z2.
      * apply Qeq_bool_iff in Z2.
        assert (B : Qltb c2 c1 = true).
        { apply Qltb_lt. rewrite Z2 in *. destruct (Qle_lt_or_eq _ _ K1) as [L|L]; [exact L|]. exfalso. apply Z1. symmetry. exact L. }
        assert (A : Qltb c1 c2 = false).
        { apply Qltb_false. apply Qltb_lt in B. apply Qlt_le_weak. exact B. }
        now rewrite A, B.
      * destruct (Qltb c1 c2) eqn:A; [reflexivity|].
        destruct (Qltb c2 c1) eqn:B; [reflexivity|].
        exfalso. apply Qltb_false in A, B. apply E. apply Qle_antisym; assumption.
Qed.


(* ------------------------------------------------------------------------- *)
(* Part 2 : eps_compare and same_box against their specification              *)
(* ------------------------------------------------------------------------- *)

(* ---- floor facts (exact arithmetic) ---- *)
Lemma floor_mul_le x e : (0 < e)%Q -> (inject_Z (Qfloor (x / e)) * e <= x)%Q.
Proof.
  intro He. pose proof (Qfloor_le (x / e)) as H.
  apply (Qmult_le_compat_r _ _ e) in H; [|apply Qlt_le_weak; exact He].
  assert (E : (x / e * e == x)%Q) by (field; intro C; rewrite C in He; apply (Qlt_irrefl 0 He)).
  now rewrite E in H.
Qed.

Lemma floor_mul_gt x e : (0 < e)%Q -> (x < (inject_Z (Qfloor (x / e)) + 1) * e)%Q.
Proof.
  intro He. pose proof (Qlt_floor (x / e)) as H.
  rewrite inject_Z_plus in H.
  apply (Qmult_lt_compat_r _ _ e He) in H.
  assert (E : (x / e * e == x)%Q) by (field; intro C; rewrite C in He; apply (Qlt_irrefl 0 He)).
  now rewrite E in H.
Qed.

Lemma floor_div_mono x y e : (0 < e)%Q -> (x <= y)%Q -> Qfloor (x / e) <= Qfloor (y / e).
Proof.
  intros He H. apply Qfloor_resp_le. unfold Qdiv.
  apply Qmult_le_compat_r; [exact H|]. apply Qlt_le_weak. now apply Qinv_lt_0_compat.
Qed.

(* ---- corner distance ---- *)
Fixpoint csum (ev av : list Q) : Q :=
  match ev, av with
  | e :: ev', a :: av' =>
      let t := (a - inject_Z (Qfloor (a / e)) * e)%Q in (t * t + csum ev' av')%Q
  | _, _ => 0%Q
  end.

Lemma cdist_acc_csum : forall ev av acc, (cdist_acc ev av acc == acc + csum ev av)%Q.
Proof.
  induction ev as [|e ev IH]; intros [|a av] acc; cbn [cdist_acc csum]; try lra.
  rewrite IH. lra.
Qed.

Lemma qsome_lt_all_le : forall av1 av2, length av1 = length av2 -> qsome_lt av2 av1 = negb (qall_le av1 av2).
Proof.
  induction av1 as [|x r1 IH]; intros [|y r2] H; simpl in H; try discriminate; try reflexivity.
  cbn [qsome_lt qall_le]. rewrite negb_andb, negb_involutive, (IH r2) by lia. reflexivity.
Qed.

(* inside one box: no worse everywhere => no farther from the corner; better somewhere => nearer *)
Lemma same_box_csum : forall ev av1 av2,
  Forall (fun e => (0 < e)%Q) ev -> length av1 = length ev -> length av2 = length ev ->
  box_vec ev av1 = box_vec ev av2 -> qall_le av1 av2 = true ->
  (csum ev av1 <= csum ev av2)%Q /\ (qsome_lt av1 av2 = true -> (csum ev av1 < csum ev av2)%Q).
Proof.
  induction ev as [|e ev IH]; intros [|x r1] [|y r2] Hp H1 H2 Hb Hle; simpl in H1, H2; try discriminate.
  - cbn [csum qsome_lt]. split; [lra|discriminate].
  - cbn [csum qsome_lt box_vec qall_le] in *.
    inversion Hp as [|? ? He Hp']; subst.
    assert (Hk : Qfloor (x / e) = Qfloor (y / e)) by (change (hd 0 (Qfloor (x / e) :: box_vec ev r1) = hd 0 (Qfloor (y / e) :: box_vec ev r2)); now rewrite Hb).
    assert (Hb' : box_vec ev r1 = box_vec ev r2) by (change (tl (Qfloor (x / e) :: box_vec ev r1) = tl (Qfloor (y / e) :: box_vec ev r2)); now rewrite Hb).
    apply andb_true_iff in Hle. destruct Hle as [Hxy Hle']. apply negb_true_iff, Qltb_false in Hxy.
    destruct (IH r1 r2 Hp' ltac:(lia) ltac:(lia) Hb' Hle') as [IH1 IH2].
    pose proof (floor_mul_le x e He) as Lx.
    rewrite <- Hk.
    set (k := inject_Z (Qfloor (x / e))) in *.
    assert (Sq : ((x - k * e) * (x - k * e) <= (y - k * e) * (y - k * e))%Q) by nra.
    split; [lra|].
    intro S. apply orb_true_iff in S. destruct S as [S|S].
    + apply Qltb_lt in S.
      assert (Sq' : ((x - k * e) * (x - k * e) < (y - k * e) * (y - k * e))%Q) by nra.
      lra.
    + specialize (IH2 S). lra.
Qed.

(* ---- violation key ---- *)
Definition vlt (c : ecfg) (a b : esol) : bool := Qltb (eps_vkey c a) (eps_vkey c b).

(* ---- the specification of compare ----
   smaller violation class first; then Pareto dominance between the BOX INDEX vectors;
   in one and the same box the solution nearer the box's ideal corner (equal distance
   answers 1, never 0); boxes that do not dominate each other and differ: 0 *)
Definition eps_cmp_spec (c : ecfg) (a b : esol) : Z :=
  if vlt c a b then -1 else if vlt c b a then 1
  else if zdom (eps_boxes c a) (eps_boxes c b) then -1
  else if zdom (eps_boxes c b) (eps_boxes c a) then 1
  else if zvec_eqb (eps_boxes c a) (eps_boxes c b)
       then (if Qltb (eps_cdist c a) (eps_cdist c b) then -1 else 1)
  else 0.

Definition same_box_spec (c : ecfg) (a b : esol) : bool :=
  Qeq_bool (eps_vkey c a) (eps_vkey c b) && zvec_eqb (eps_boxes c a) (eps_boxes c b).

Lemma Qltb_compat a a' b b' : (a == a')%Q -> (b == b')%Q -> Qltb a b = Qltb a' b'.
Proof.
  intros Ea Eb. destruct (Qltb a b) eqn:E1; symmetry.
  - apply Qltb_lt. apply Qltb_lt in E1. now rewrite <- Ea, <- Eb.
  - apply Qltb_false. apply Qltb_false in E1. now rewrite <- Ea, <- Eb.
Qed.

Lemma eps_cdist_csum c s : (eps_cdist c s == csum (eps_vec c) (eps_adjs c s))%Q.
Proof. unfold eps_cdist. rewrite cdist_acc_csum. lra. Qed.

(* The tie-break inside one box, as the (repaired) code computes it: Pareto-better on the
   adjusted objectives wins outright, otherwise the smaller corner distance.  In exact
   arithmetic the first two branches agree with the distance rule. *)
Lemma tie_break_is_distance c a b : wf_cfg c -> wf_sol c a -> wf_sol c b ->
  eps_boxes c a = eps_boxes c b ->
  let b1 := qsome_lt (eps_adjs c a) (eps_adjs c b) in
  let b2 := qsome_lt (eps_adjs c b) (eps_adjs c a) in
  (if b1 && negb b2 then Some (-1) else if b2 && negb b1 then Some 1
   else if Qltb (eps_cdist c a) (eps_cdist c b) then Some (-1) else Some 1)
  = (if Qltb (eps_cdist c a) (eps_cdist c b) then Some (-1) else Some 1).
Proof.
  intros Wc Wa Wb Hbox b1 b2.
  pose proof (epsv_from_pos (e_eps c) Wc (length (e_dirs c)) 0%nat) as Hp. fold (eps_vec c) in Hp.
  pose proof (eps_adjs_length c a Wa) as La. pose proof (eps_adjs_length c b Wb) as Lb.
  pose proof (eps_vec_length c) as Le.
  rewrite (Qltb_compat _ _ _ _ (eps_cdist_csum c a) (eps_cdist_csum c b)).
  subst b1 b2.
  rewrite (qsome_lt_all_le (eps_adjs c a) (eps_adjs c b)) by lia.
  destruct (qall_le (eps_adjs c a) (eps_adjs c b)) eqn:A; cbn [negb andb].
  - (* a <= b everywhere *)
    assert (La' : length (eps_adjs c a) = length (eps_vec c)) by lia.
    assert (Lb' : length (eps_adjs c b) = length (eps_vec c)) by lia.
    destruct (same_box_csum (eps_vec c) (eps_adjs c a) (eps_adjs c b) Hp La' Lb' Hbox A) as [_ S].
    destruct (qsome_lt (eps_adjs c a) (eps_adjs c b)) eqn:B; cbn [negb andb]; [|reflexivity].
    specialize (S eq_refl). apply Qltb_lt in S. now rewrite S.
  - rewrite andb_false_r.
    rewrite (qsome_lt_all_le (eps_adjs c b) (eps_adjs c a)) by lia.
    destruct (qall_le (eps_adjs c b) (eps_adjs c a)) eqn:B; cbn [negb andb]; [|reflexivity].
    (* b <= a everywhere and b < a somewhere *)
    assert (La' : length (eps_adjs c a) = length (eps_vec c)) by lia.
    assert (Lb' : length (eps_adjs c b) = length (eps_vec c)) by lia.
    destruct (same_box_csum (eps_vec c) (eps_adjs c b) (eps_adjs c a) Hp Lb' La' (eq_sym Hbox) B) as [_ S].
    assert (S' : qsome_lt (eps_adjs c b) (eps_adjs c a) = true).
    { rewrite (qsome_lt_all_le (eps_adjs c a) (eps_adjs c b)) by lia. now rewrite A. }
    specialize (S S').
    assert (F : Qltb (csum (eps_vec c) (eps_adjs c a)) (csum (eps_vec c) (eps_adjs c b)) = false).
    { apply Qltb_false. apply Qlt_le_weak. exact S. }
    now rewrite F.
Qed.

Lemma vkey_nonneg c s : wf_sol c s -> (0 <= eps_vkey c s)%Q.
Proof. intros [_ H]. unfold eps_vkey. destruct (e_con c); [exact H|apply Qle_refl]. Qed.

Lemma eps_ladder_vkey c a b : wf_sol c a -> wf_sol c b ->
  eps_ladder (e_con c) (e_cv a) (e_cv b) =
    if vlt c a b then Some (-1) else if vlt c b a then Some 1 else None.
Proof.
  intros [_ Ka] [_ Kb]. rewrite (eps_ladder_spec _ _ _ Ka Kb). unfold vlt, eps_vkey.
  destruct (e_con c); cbn [andb]; [reflexivity|].
  assert (Z : Qltb 0 0 = false) by reflexivity. now rewrite Z.
Qed.

(* eps_compare_spec : on well-formed inputs (eps > 0, nobjs objectives, cv >= 0) compare
   raises nothing and answers exactly eps_cmp_spec. *)
Theorem eps_compare_spec c a b : wf_cfg c -> wf_sol c a -> wf_sol c b ->
  eps_compare c a b = Some (eps_cmp_spec c a b).
Proof.
  intros Wc Wa Wb. unfold eps_compare, eps_cmp_spec.
  rewrite (eps_ladder_vkey c a b Wa Wb).
  destruct (vlt c a b); [reflexivity|]. destruct (vlt c b a); [reflexivity|].
  destruct Wa as [La Ka]. destruct Wb as [Lb Kb].
  rewrite (eps_scan_total _ Wc _ _ _ _ _ _ La Lb).
  fold (eps_vec c). fold (eps_adjs c a). fold (eps_adjs c b). fold (eps_boxes c a). fold (eps_boxes c b).
  rewrite zscan_flags. cbn [andb orb].
  assert (Lab : length (eps_boxes c a) = length (eps_boxes c b)).
  { rewrite !eps_boxes_length; [reflexivity|split; assumption|split; assumption]. }
  unfold zdom.
  rewrite (zsome_lt_all_le (eps_boxes c a) (eps_boxes c b) Lab).
  rewrite (zsome_lt_all_le (eps_boxes c b) (eps_boxes c a)) by lia.
  rewrite <- (zall_le_both_eq _ _ Lab).
  destruct (zall_le (eps_boxes c a) (eps_boxes c b)) eqn:A, (zall_le (eps_boxes c b) (eps_boxes c a)) eqn:B;
    cbn [negb andb orb]; try reflexivity.
  (* same box *)
  rewrite (eps_dist_total _ Wc _ _ _ _ _ _ _ _ La Lb).
  fold (eps_vec c). fold (eps_adjs c a). fold (eps_adjs c b). fold (eps_cdist c a). fold (eps_cdist c b).
  cbn [orb].
  assert (Hbox : eps_boxes c a = eps_boxes c b).
  { apply zvec_eqb_eq. rewrite <- (zall_le_both_eq _ _ Lab). now rewrite A, B. }
  pose proof (tie_break_is_distance c a b Wc (conj La Ka) (conj Lb Kb) Hbox) as T. cbv zeta in T.
  rewrite T. destruct (Qltb (eps_cdist c a) (eps_cdist c b)); reflexivity.
Qed.

(* same_box_iff : same_box answers True exactly when the violation classes are equal and
   all box indices are equal *)
Theorem same_box_total c a b : wf_cfg c -> wf_sol c a -> wf_sol c b ->
  same_box c a b = Some (same_box_spec c a b).
Proof.
  intros Wc Wa Wb. unfold same_box, same_box_spec.
  rewrite (eps_ladder_vkey c a b Wa Wb). unfold vlt.
  pose proof (vkey_nonneg c a Wa) as Na. pose proof (vkey_nonneg c b Wb) as Nb.
  destruct (Qltb (eps_vkey c a) (eps_vkey c b)) eqn:E1.
  - apply Qltb_lt in E1.
    assert (F : Qeq_bool (eps_vkey c a) (eps_vkey c b) = false).
    { destruct (Qeq_bool _ _) eqn:F; [|reflexivity]. apply Qeq_bool_iff in F. rewrite F in E1. exfalso. apply (Qlt_irrefl _ E1). }
    now rewrite F.
  - destruct (Qltb (eps_vkey c b) (eps_vkey c a)) eqn:E2.
    + apply Qltb_lt in E2.
      assert (F : Qeq_bool (eps_vkey c a) (eps_vkey c b) = false).
      { destruct (Qeq_bool _ _) eqn:F; [|reflexivity]. apply Qeq_bool_iff in F. rewrite F in E2. exfalso. apply (Qlt_irrefl _ E2). }
      now rewrite F.
    + apply Qltb_false in E1, E2.
      assert (F : Qeq_bool (eps_vkey c a) (eps_vkey c b) = true).
      { apply Qeq_bool_iff. apply Qle_antisym; assumption. }
      rewrite F. cbn [andb].
      destruct Wa as [La Ka]. destruct Wb as [Lb Kb].
      rewrite (eps_scan_total _ Wc _ _ _ _ _ _ La Lb).
      fold (eps_vec c). fold (eps_adjs c a). fold (eps_adjs c b). fold (eps_boxes c a). fold (eps_boxes c b).
      rewrite zscan_flags. cbn [andb orb].
      assert (Lab : length (eps_boxes c a) = length (eps_boxes c b)).
      { rewrite !eps_boxes_length; [reflexivity|split; assumption|split; assumption]. }
      rewrite (zsome_lt_all_le (eps_boxes c a) (eps_boxes c b) Lab).
      rewrite (zsome_lt_all_le (eps_boxes c b) (eps_boxes c a)) by lia.
      rewrite <- (zall_le_both_eq _ _ Lab).
      destruct (zall_le (eps_boxes c a) (eps_boxes c b)), (zall_le (eps_boxes c b) (eps_boxes c a)); reflexivity.
Qed.

Corollary same_box_iff c a b : wf_cfg c -> wf_sol c a -> wf_sol c b ->
  (same_box c a b = Some true <->
   (eps_vkey c a == eps_vkey c b)%Q /\ eps_boxes c a = eps_boxes c b).
Proof.
  intros Wc Wa Wb. rewrite (same_box_total c a b Wc Wa Wb). unfold same_box_spec. split.
  - intro H. injection H as H. apply andb_true_iff in H. destruct H as [A B].
    split; [now apply Qeq_bool_iff|now apply zvec_eqb_eq].
  - intros [A B]. f_equal. apply andb_true_iff. split; [now apply Qeq_bool_iff|now apply zvec_eqb_eq].
Qed.

(* ---- a case view of the specification (all branches, as propositions) ---- *)
Inductive cmp_view (c : ecfg) (a b : esol) : Z -> Prop :=
| CV_less_violating : (eps_vkey c a < eps_vkey c b)%Q -> cmp_view c a b (-1)
| CV_more_violating : (eps_vkey c b < eps_vkey c a)%Q -> cmp_view c a b 1
| CV_box_dominates : (eps_vkey c a == eps_vkey c b)%Q ->
    zdom (eps_boxes c a) (eps_boxes c b) = true -> cmp_view c a b (-1)
| CV_box_dominated : (eps_vkey c a == eps_vkey c b)%Q ->
    zdom (eps_boxes c b) (eps_boxes c a) = true -> cmp_view c a b 1
| CV_same_box_nearer : (eps_vkey c a == eps_vkey c b)%Q -> eps_boxes c a = eps_boxes c b ->
    (eps_cdist c a < eps_cdist c b)%Q -> cmp_view c a b (-1)
| CV_same_box_not_nearer : (eps_vkey c a == eps_vkey c b)%Q -> eps_boxes c a = eps_boxes c b ->
    (eps_cdist c b <= eps_cdist c a)%Q -> cmp_view c a b 1
| CV_incomparable : (eps_vkey c a == eps_vkey c b)%Q ->
    zdom (eps_boxes c a) (eps_boxes c b) = false -> zdom (eps_boxes c b) (eps_boxes c a) = false ->
    eps_boxes c a <> eps_boxes c b -> cmp_view c a b 0.

Lemma cmp_viewP c a b : cmp_view c a b (eps_cmp_spec c a b).
Proof.
  unfold eps_cmp_spec, vlt.
  destruct (Qltb (eps_vkey c a) (eps_vkey c b)) eqn:E1.
  { apply CV_less_violating. now apply Qltb_lt. }
  destruct (Qltb (eps_vkey c b) (eps_vkey c a)) eqn:E2.
  { apply CV_more_violating. now apply Qltb_lt. }
  apply Qltb_false in E1, E2.
  assert (V : (eps_vkey c a == eps_vkey c b)%Q) by (apply Qle_antisym; assumption).
  destruct (zdom (eps_boxes c a) (eps_boxes c b)) eqn:D1; [now apply CV_box_dominates|].
  destruct (zdom (eps_boxes c b) (eps_boxes c a)) eqn:D2; [now apply CV_box_dominated|].
  destruct (zvec_eqb (eps_boxes c a) (eps_boxes c b)) eqn:D3.
  - apply zvec_eqb_eq in D3.
    destruct (Qltb (eps_cdist c a) (eps_cdist c b)) eqn:D4.
    + apply CV_same_box_nearer; auto. now apply Qltb_lt.
    + apply CV_same_box_not_nearer; auto. now apply Qltb_false.
  - apply CV_incomparable; auto. intro H. apply zvec_eqb_eq in H. congruence.
Qed.

Lemma cmp_spec_range c a b :
  eps_cmp_spec c a b = -1 \/ eps_cmp_spec c a b = 0 \/ eps_cmp_spec c a b = 1.
Proof. destruct (cmp_viewP c a b); auto. Qed.

(* "a eps-dominates b" *)
Definition edom (c : ecfg) (a b : esol) : Prop :=
  (eps_vkey c a < eps_vkey c b)%Q \/
  ((eps_vkey c a == eps_vkey c b)%Q /\
   (zdom (eps_boxes c a) (eps_boxes c b) = true \/
    (eps_boxes c a = eps_boxes c b /\ (eps_cdist c a < eps_cdist c b)%Q))).

Lemma Qltb_of_eq a b : (a == b)%Q -> Qltb a b = false.
Proof. intro E. apply Qltb_false. rewrite E. apply Qle_refl. Qed.

Lemma cmp_spec_first c a b : wf_sol c a -> wf_sol c b ->
  (eps_cmp_spec c a b = -1 <-> edom c a b).
Proof.
  intros Wa Wb.
  assert (Lab : length (eps_boxes c a) = length (eps_boxes c b)) by (now rewrite !eps_boxes_length).
  split.
  - intro H. unfold edom. destruct (cmp_viewP c a b); try discriminate; auto.
  - unfold edom, eps_cmp_spec, vlt. intros [H|[V [H|[H1 H2]]]].
    + apply Qltb_lt in H. now rewrite H.
    + rewrite (Qltb_of_eq _ _ V). symmetry in V. rewrite (Qltb_of_eq _ _ V). now rewrite H.
    + rewrite (Qltb_of_eq _ _ V). symmetry in V. rewrite (Qltb_of_eq _ _ V).
      rewrite H1, zdom_irrefl, zvec_eqb_refl. apply Qltb_lt in H2. now rewrite H2.
Qed.

(* inside one box compare never answers 0: it is -1 or 1 according to the corner distance *)
Corollary cmp_spec_same_box c a b :
  (eps_vkey c a == eps_vkey c b)%Q -> eps_boxes c a = eps_boxes c b ->
  eps_cmp_spec c a b = if Qltb (eps_cdist c a) (eps_cdist c b) then -1 else 1.
Proof.
  intros V H. unfold eps_cmp_spec, vlt.
  rewrite (Qltb_of_eq _ _ V). symmetry in V. rewrite (Qltb_of_eq _ _ V).
  now rewrite H, zdom_irrefl, zvec_eqb_refl.
Qed.

(* 0 exactly for equal violation class and distinct, mutually non-dominating boxes *)
Lemma cmp_spec_zero c a b : wf_sol c a -> wf_sol c b ->
  (eps_cmp_spec c a b = 0 <->
   (eps_vkey c a == eps_vkey c b)%Q /\ zdom (eps_boxes c a) (eps_boxes c b) = false /\
   zdom (eps_boxes c b) (eps_boxes c a) = false /\ eps_boxes c a <> eps_boxes c b).
Proof.
  intros Wa Wb. split.
  - intro H. destruct (cmp_viewP c a b); try discriminate; auto.
  - intros [V [D1 [D2 N]]]. unfold eps_cmp_spec, vlt.
    rewrite (Qltb_of_eq _ _ V). symmetry in V. rewrite (Qltb_of_eq _ _ V). rewrite D1, D2.
    destruct (zvec_eqb (eps_boxes c a) (eps_boxes c b)) eqn:E; [|reflexivity].
    apply zvec_eqb_eq in E. contradiction.
Qed.

(* eps-dominance is transitive *)
Theorem edom_trans c x y z : wf_sol c x -> wf_sol c y -> wf_sol c z ->
  edom c x y -> edom c y z -> edom c x z.
Proof.
  intros Wx Wy Wz.
  assert (Lxy : length (eps_boxes c x) = length (eps_boxes c y)) by (now rewrite !eps_boxes_length).
  assert (Lyz : length (eps_boxes c y) = length (eps_boxes c z)) by (now rewrite !eps_boxes_length).
  unfold edom. intros [A|[VA A]] [B|[VB B]].
  - left. lra.
  - left. lra.
  - left. lra.
  - right. split; [lra|].
    destruct A as [A|[A1 A2]], B as [B|[B1 B2]].
    + left. eapply zdom_trans; eauto.
    + left. now rewrite <- B1.
    + left. now rewrite A1.
    + right. split; [congruence|lra].
Qed.

Theorem eps_dominates_trans c x y z : wf_cfg c -> wf_sol c x -> wf_sol c y -> wf_sol c z ->
  eps_compare c x y = Some (-1) -> eps_compare c y z = Some (-1) -> eps_compare c x z = Some (-1).
Proof.
  intros Wc Wx Wy Wz. rewrite !eps_compare_spec by assumption. intros A B.
  injection A as A. injection B as B. f_equal.
  apply (cmp_spec_first c x y Wx Wy) in A. apply (cmp_spec_first c y z Wy Wz) in B.
  apply (cmp_spec_first c x z Wx Wz). exact (edom_trans c x y z Wx Wy Wz A B).
Qed.

(* and irreflexive / asymmetric *)
Lemma edom_irrefl c x : ~ edom c x x.
Proof.
  unfold edom. intros [H|[_ [H|[_ H]]]].
  - apply (Qlt_irrefl _ H).
  - rewrite zdom_irrefl in H. discriminate.
  - apply (Qlt_irrefl _ H).
Qed.

Lemma edom_asym c x y : wf_sol c x -> wf_sol c y -> edom c x y -> ~ edom c y x.
Proof. intros Wx Wy A B. apply (edom_irrefl c x). exact (edom_trans c x y x Wx Wy Wx A B). Qed.

(* first dominates second  =>  the swapped call answers 1 *)
Lemma cmp_spec_flip c a b : wf_sol c a -> wf_sol c b ->
  eps_cmp_spec c a b = -1 -> eps_cmp_spec c b a = 1.
Proof.
  intros Wa Wb H. apply (cmp_spec_first c a b Wa Wb) in H.
  destruct (cmp_viewP c b a) as [V|V|V D|V D|V E D|V E D|V D1 D2 N]; try reflexivity; exfalso.
  - apply (edom_asym c a b Wa Wb H). left. exact V.
  - apply (edom_asym c a b Wa Wb H). right. split; auto.
  - apply (edom_asym c a b Wa Wb H). right. split; auto.
  - destruct H as [H|[_ [H|[H _]]]]; [lra|congruence|congruence].
Qed.


(* ------------------------------------------------------------------------- *)
(* Part 3 : consistency with Pareto dominance                                 *)
(*   Pareto dominance is the C02 model (Model/Dominance.v, proved there to be  *)
(*   the constraint-first Pareto order) at the carrier xq, the rational        *)
(*   objectives / violation embedded by Fin.                                   *)
(* ------------------------------------------------------------------------- *)
Definition to_dsol (s : esol) : xdsol := Build_dsol (map Fin (e_objs s)) (Fin (e_cv s)).

Definition pareto_cmp (c : ecfg) (a b : esol) : Z :=
  x_pareto_compare (e_con c) (e_dirs c) (to_dsol a) (to_dsol b).

Lemma to_dsol_wf c s : wf_sol c s -> wf xq xltb xzero (e_dirs c) (to_dsol s).
Proof.
  intros [L K]. split.
  - cbn [to_dsol d_objs]. now rewrite map_length.
  - unfold cv_ok. cbn [to_dsol d_cv xzero xltb]. now apply Qltb_false.
Qed.

Lemma xq_all_le_q dirs : forall o1 o2, length o1 = length dirs -> length o2 = length dirs ->
  all_le xq xltb xneg dirs (map Fin o1) (map Fin o2) = qall_le (adj_vec dirs o1) (adj_vec dirs o2).
Proof.
  induction dirs as [|mx d IH]; intros [|a r1] [|b r2] H1 H2; simpl in H1, H2; try discriminate; try reflexivity.
  cbn [map all_le adj_vec qall_le]. rewrite IH by lia. f_equal. destruct mx; reflexivity.
Qed.

Lemma xq_some_lt_q dirs : forall o1 o2, length o1 = length dirs -> length o2 = length dirs ->
  some_lt xq xltb xneg dirs (map Fin o1) (map Fin o2) = qsome_lt (adj_vec dirs o1) (adj_vec dirs o2).
Proof.
  induction dirs as [|mx d IH]; intros [|a r1] [|b r2] H1 H2; simpl in H1, H2; try discriminate; try reflexivity.
  cbn [map some_lt adj_vec qsome_lt]. rewrite IH by lia. f_equal. destruct mx; reflexivity.
Qed.

(* floor is monotone: no worse everywhere => box no worse everywhere *)
Lemma qall_le_boxes : forall ev av1 av2, Forall (fun e => (0 < e)%Q) ev ->
  length av1 = length ev -> length av2 = length ev ->
  qall_le av1 av2 = true -> zall_le (box_vec ev av1) (box_vec ev av2) = true.
Proof.
  induction ev as [|e ev IH]; intros [|x r1] [|y r2] Hp H1 H2 H; simpl in H1, H2; try discriminate; try reflexivity.
  cbn [qall_le box_vec zall_le] in *. inversion Hp as [|? ? He Hp']; subst.
  apply andb_true_iff in H. destruct H as [A B]. apply negb_true_iff, Qltb_false in A.
  apply andb_true_iff. split.
  - apply Z.leb_le. now apply floor_div_mono.
  - apply IH; auto; lia.
Qed.

(* Pareto-better on the problem (violation first, then objectives) implies eps-dominance *)
Lemma pareto_better_edom c a b : wf_cfg c -> wf_sol c a -> wf_sol c b ->
  better xq xltb xneg (e_con c) (e_dirs c) (to_dsol a) (to_dsol b) = true -> edom c a b.
Proof.
  intros Wc Wa Wb H.
  pose proof (epsv_from_pos (e_eps c) Wc (length (e_dirs c)) 0%nat) as Hp. fold (eps_vec c) in Hp.
  pose proof (eps_adjs_length c a Wa) as La. pose proof (eps_adjs_length c b Wb) as Lb.
  pose proof (eps_vec_length c) as Le.
  assert (La' : length (eps_adjs c a) = length (eps_vec c)) by lia.
  assert (Lb' : length (eps_adjs c b) = length (eps_vec c)) by lia.
  assert (Lab : length (eps_boxes c a) = length (eps_boxes c b)) by (now rewrite !eps_boxes_length).
  destruct Wa as [LA KA]. destruct Wb as [LB KB].
  unfold better in H. cbn [to_dsol d_cv d_objs xltb] in H.
  apply orb_true_iff in H. destruct H as [H|H].
  - apply andb_true_iff in H. destruct H as [Hc H]. left. unfold eps_vkey. rewrite Hc. now apply Qltb_lt.
  - apply andb_true_iff in H. destruct H as [Hv Hd].
    assert (V : (eps_vkey c a == eps_vkey c b)%Q).
    { unfold eps_vkey. destruct (e_con c); [|reflexivity]. cbn [negb orb] in Hv.
      unfold Dominance.veq in Hv. cbn [xltb] in Hv. apply andb_true_iff in Hv. destruct Hv as [A B].
      apply negb_true_iff, Qltb_false in A, B. now apply Qle_antisym. }
    right. split; [exact V|].
    unfold pdom in Hd. rewrite (xq_all_le_q _ _ _ LA LB), (xq_some_lt_q _ _ _ LA LB) in Hd.
    fold (eps_adjs c a) in Hd. fold (eps_adjs c b) in Hd.
    apply andb_true_iff in Hd. destruct Hd as [Hle Hlt].
    pose proof (qall_le_boxes (eps_vec c) _ _ Hp La' Lb' Hle) as Bl.
    fold (eps_boxes c a) in Bl. fold (eps_boxes c b) in Bl.
    destruct (zsome_lt (eps_boxes c a) (eps_boxes c b)) eqn:S.
    + left. unfold zdom. now rewrite Bl, S.
    + right.
      assert (E : eps_boxes c a = eps_boxes c b).
      { apply zvec_eqb_eq. rewrite <- (zall_le_both_eq _ _ Lab). rewrite Bl. cbn [andb].
        rewrite (zsome_lt_all_le (eps_boxes c b) (eps_boxes c a)) in S by lia.
        now apply negb_false_iff in S. }
      split; [exact E|].
      destruct (same_box_csum (eps_vec c) (eps_adjs c a) (eps_adjs c b) Hp La' Lb' E Hle) as [_ St].
      rewrite (eps_cdist_csum c a), (eps_cdist_csum c b). now apply St.
Qed.

(* eps_respects_pareto : whenever Pareto dominance prefers the first solution, so does
   epsilon-dominance (and symmetrically for the second): it never contradicts Pareto *)
Theorem eps_respects_pareto c a b : wf_cfg c -> wf_sol c a -> wf_sol c b ->
  pareto_cmp c a b = -1 -> eps_compare c a b = Some (-1).
Proof.
  intros Wc Wa Wb H. rewrite (eps_compare_spec c a b Wc Wa Wb). f_equal.
  apply (cmp_spec_first c a b Wa Wb). apply (pareto_better_edom c a b Wc Wa Wb).
  unfold pareto_cmp, x_pareto_compare in H.
  now apply (compare_iff_first xq xltb xneg xzero xq_laws (e_con c) (e_dirs c) _ _
               (to_dsol_wf c a Wa) (to_dsol_wf c b Wb)).
Qed.

Theorem eps_respects_pareto_second c a b : wf_cfg c -> wf_sol c a -> wf_sol c b ->
  pareto_cmp c a b = 1 -> eps_compare c a b = Some 1.
Proof.
  intros Wc Wa Wb H. rewrite (eps_compare_spec c a b Wc Wa Wb). f_equal.
  apply (cmp_spec_flip c b a Wb Wa).
  apply (cmp_spec_first c b a Wb Wa). apply (pareto_better_edom c b a Wc Wb Wa).
  unfold pareto_cmp, x_pareto_compare in H.
  now apply (compare_iff_second xq xltb xneg xzero xq_laws (e_con c) (e_dirs c) _ _
               (to_dsol_wf c a Wa) (to_dsol_wf c b Wb)).
Qed.


(* ------------------------------------------------------------------------- *)
(* Part 4 : the archives                                                      *)
(* ------------------------------------------------------------------------- *)

(* ---- list plumbing ---- *)
Lemma map_opt_total {A B} (f : A -> option B) (g : A -> B) : forall l,
  (forall x, In x l -> f x = Some (g x)) -> eps_map_opt f l = Some (map g l).
Proof.
  induction l as [|x r IH]; intro H; cbn [eps_map_opt map]; [reflexivity|].
  rewrite (H x (or_introl eq_refl)). rewrite IH; [reflexivity|]. intros y Hy. apply H. now right.
Qed.

Lemma compress_filter {A B} (g : A -> B) (h : B -> bool) : forall l,
  eps_compress l (map h (map g l)) = filter (fun m => h (g m)) l.
Proof.
  induction l as [|x r IH]; cbn [eps_compress map filter]; [reflexivity|].
  destruct (h (g x)); now rewrite IH.
Qed.

Lemma existsb_map {A B} (g : A -> B) (h : B -> bool) l : existsb h (map g l) = existsb (fun m => h (g m)) l.
Proof. induction l as [|x r IH]; cbn [existsb map]; [reflexivity|]. now rewrite IH. Qed.

Lemma forallb_map {A B} (g : A -> B) (h : B -> bool) l : forallb h (map g l) = forallb (fun m => h (g m)) l.
Proof. induction l as [|x r IH]; cbn [forallb map]; [reflexivity|]. now rewrite IH. Qed.

Lemma FOP_filter {A} (R : A -> A -> Prop) (f : A -> bool) l :
  ForallOrdPairs R l -> ForallOrdPairs R (filter f l).
Proof.
  induction 1 as [|x l Hx Hl IH]; cbn [filter]; [constructor|].
  destruct (f x); [|exact IH]. constructor; [|exact IH].
  rewrite Forall_forall in *. intros y Hy. apply Hx. apply filter_In in Hy. tauto.
Qed.

Lemma FOP_snoc {A} (R : A -> A -> Prop) l s :
  ForallOrdPairs R l -> Forall (fun m => R m s) l -> ForallOrdPairs R (l ++ [s]).
Proof.
  induction 1 as [|x l Hx Hl IH]; intro H; cbn [app].
  - constructor; constructor.
  - inversion H as [|? ? Hxs Hls]; subst. constructor; [|now apply IH].
    apply Forall_app. split; [exact Hx|]. constructor; [exact Hxs|constructor].
Qed.

Lemma FOP_In {A} (R : A -> A -> Prop) (Rsym : forall x y, R x y -> R y x) l :
  ForallOrdPairs R l -> forall x y, In x l -> In y l -> x = y \/ R x y.
Proof.
  induction 1 as [|z l Hz Hl IH]; intros x y Hx Hy; [destruct Hx|].
  rewrite Forall_forall in Hz.
  destruct Hx as [Hx|Hx], Hy as [Hy|Hy]; subst; auto.
Qed.

(* ---- total step functions (what the model computes on well-formed inputs) ---- *)
(* some member is at least as good: compare(s, m) = 1 *)
Definition rejects (c : ecfg) (a : list esol) (s : esol) : bool :=
  existsb (fun m => eps_cmp_spec c s m >? 0) a.
Definition add_contents (c : ecfg) (a : list esol) (s : esol) : list esol :=
  if rejects c a s then a else filter (fun m => eps_cmp_spec c s m =? 0) a ++ [s].
(* no current member has the violation class and box of s *)
Definition unoccupied (c : ecfg) (a : list esol) (s : esol) : bool :=
  forallb (fun m => negb (same_box_spec c s m)) a.

Lemma add_contents_wf c a s : Forall (wf_sol c) a -> wf_sol c s -> Forall (wf_sol c) (add_contents c a s).
Proof.
  intros Ha Hs. unfold add_contents. destruct (rejects c a s); [exact Ha|].
  apply Forall_app. split; [|now constructor].
  rewrite Forall_forall in *. intros m Hm. apply filter_In in Hm. now apply Ha.
Qed.

Lemma eps_box_add_total c a imp s : wf_cfg c -> Forall (wf_sol c) a -> wf_sol c s ->
  eps_box_add c (a, imp) s =
  Some ((add_contents c a s, if negb (rejects c a s) && unoccupied c a s then S imp else imp),
        negb (rejects c a s)).
Proof.
  intros Wc Wa Ws. rewrite Forall_forall in Wa. unfold eps_box_add.
  rewrite (map_opt_total (eps_compare c s) (eps_cmp_spec c s)) by (intros m Hm; apply eps_compare_spec; auto).
  rewrite (map_opt_total (same_box c s) (same_box_spec c s)) by (intros m Hm; apply same_box_total; auto).
  rewrite existsb_map. fold (rejects c a s). unfold add_contents.
  destruct (rejects c a s); cbn [negb andb]; [reflexivity|].
  rewrite compress_filter, !forallb_map. reflexivity.
Qed.

Lemma eps_plain_add_total c a s : wf_cfg c -> Forall (wf_sol c) a -> wf_sol c s ->
  eps_plain_add c a s = Some (add_contents c a s, negb (rejects c a s)).
Proof.
  intros Wc Wa Ws. rewrite Forall_forall in Wa. unfold eps_plain_add, eps_arch_add.
  rewrite (map_opt_total (eps_compare c s) (eps_cmp_spec c s)) by (intros m Hm; apply eps_compare_spec; auto).
  rewrite existsb_map. fold (rejects c a s). unfold add_contents.
  destruct (rejects c a s); cbn [negb]; [reflexivity|].
  now rewrite compress_filter.
Qed.

(* a rejected add leaves contents and counter unchanged (no hypotheses needed) *)
Lemma eps_box_add_reject c st s st' : eps_box_add c st s = Some (st', false) -> st' = st.
Proof.
  destruct st as [a imp]. unfold eps_box_add.
  destruct (eps_map_opt (eps_compare c s) a) as [flags|]; [|discriminate].
  destruct (eps_map_opt (same_box c s) a) as [sb|]; [|discriminate].
  destruct (existsb _ flags); intro H; [congruence|discriminate].
Qed.

Lemma eps_plain_add_reject c a s a' : eps_plain_add c a s = Some (a', false) -> a' = a.
Proof.
  unfold eps_plain_add, eps_arch_add.
  destruct (eps_map_opt (eps_compare c s) a) as [flags|]; [|discriminate].
  destruct (existsb _ flags); intro H; [congruence|discriminate].
Qed.

(* ---- relations the invariant speaks about ---- *)
(* same key = same violation class and same box *)
Definition same_key (c : ecfg) (m m' : esol) : Prop :=
  (eps_vkey c m == eps_vkey c m')%Q /\ eps_boxes c m = eps_boxes c m'.
(* members live side by side: equal violation class, different boxes, neither box dominates *)
Definition indep (c : ecfg) (m m' : esol) : Prop :=
  (eps_vkey c m == eps_vkey c m')%Q /\ zdom (eps_boxes c m) (eps_boxes c m') = false /\
  zdom (eps_boxes c m') (eps_boxes c m) = false /\ eps_boxes c m <> eps_boxes c m'.
(* m weakly box-dominates x (or x is more constraint-violating) *)
Definition wdom (c : ecfg) (m x : esol) : Prop :=
  (eps_vkey c m < eps_vkey c x)%Q \/
  ((eps_vkey c m == eps_vkey c x)%Q /\ zall_le (eps_boxes c m) (eps_boxes c x) = true).

Lemma indep_sym c m m' : indep c m m' -> indep c m' m.
Proof. intros [V [A [B N]]]. repeat split; auto. now symmetry. Qed.

Lemma wdom_refl c x : wdom c x x.
Proof. right. split; [reflexivity|apply zall_le_refl]. Qed.

Lemma wdom_trans c x y z : wf_sol c x -> wf_sol c y -> wf_sol c z ->
  wdom c x y -> wdom c y z -> wdom c x z.
Proof.
  intros Wx Wy Wz.
  assert (Lxy : length (eps_boxes c x) = length (eps_boxes c y)) by (now rewrite !eps_boxes_length).
  assert (Lyz : length (eps_boxes c y) = length (eps_boxes c z)) by (now rewrite !eps_boxes_length).
  unfold wdom. intros [A|[VA A]] [B|[VB B]].
  - left; lra.
  - left; lra.
  - left; lra.
  - right. split; [lra|]. eapply zall_le_trans; eauto.
Qed.

Lemma zdom_all_le b1 b2 : zdom b1 b2 = true -> zall_le b1 b2 = true.
Proof. unfold zdom. intro H. apply andb_true_iff in H. tauto. Qed.

Lemma edom_wdom c m x : edom c m x -> wdom c m x.
Proof.
  intros [H|[V [H|[H _]]]]; [now left| |]; right; split; auto.
  - now apply zdom_all_le.
  - rewrite H. apply zall_le_refl.
Qed.

(* compare(s, m) = 1 : m is at least as good as s *)
Lemma cmp_one_wdom c s m : eps_cmp_spec c s m = 1 -> wdom c m s.
Proof.
  intro H. destruct (cmp_viewP c s m) as [V|V|V D|V D|V E D|V E D|V D1 D2 N]; try discriminate.
  - now left.
  - right. split; [now symmetry|now apply zdom_all_le].
  - right. split; [now symmetry|]. rewrite E. apply zall_le_refl.
Qed.

(* ---- one step preserves the invariant ---- *)
(* z is at least as good as x: compare(x, z) = 1 *)
Definition geq (c : ecfg) (z x : esol) : Prop :=
  (eps_vkey c z < eps_vkey c x)%Q \/
  ((eps_vkey c z == eps_vkey c x)%Q /\
   (zdom (eps_boxes c z) (eps_boxes c x) = true \/
    (eps_boxes c z = eps_boxes c x /\ (eps_cdist c z <= eps_cdist c x)%Q))).

Lemma geq_refl c x : geq c x x.
Proof. right. split; [reflexivity|]. right. split; [reflexivity|apply Qle_refl]. Qed.

Lemma geq_wdom c z x : geq c z x -> wdom c z x.
Proof.
  intros [H|[V [H|[H _]]]]; [now left| |]; right; split; auto.
  - now apply zdom_all_le.
  - rewrite H. apply zall_le_refl.
Qed.

Lemma cmp_one_geq c s m : eps_cmp_spec c s m = 1 -> geq c m s.
Proof.
  intro H. destruct (cmp_viewP c s m) as [V|V|V D|V D|V E D|V E D|V D1 D2 N]; try discriminate.
  - now left.
  - right. split; [now symmetry|now left].
  - right. split; [now symmetry|]. right. split; [now symmetry|exact D].
Qed.

Lemma geq_edom_trans c z x m : wf_sol c z -> wf_sol c x -> wf_sol c m ->
  geq c z x -> edom c x m -> edom c z m.
Proof.
  intros Wz Wx Wm.
  assert (L1 : length (eps_boxes c z) = length (eps_boxes c x)) by (now rewrite !eps_boxes_length).
  assert (L2 : length (eps_boxes c x) = length (eps_boxes c m)) by (now rewrite !eps_boxes_length).
  unfold geq, edom. intros [A|[VA A]] [B|[VB B]].
  - left; lra.
  - left; lra.
  - left; lra.
  - right. split; [lra|].
    destruct A as [A|[A1 A2]], B as [B|[B1 B2]].
    + left. eapply zdom_trans; eauto.
    + left. now rewrite <- B1.
    + left. now rewrite A1.
    + right. split; [congruence|lra].
Qed.

Lemma edom_geq_trans c s z x : wf_sol c s -> wf_sol c z -> wf_sol c x ->
  edom c s z -> geq c z x -> edom c s x.
Proof.
  intros Ws Wz Wx.
  assert (L1 : length (eps_boxes c s) = length (eps_boxes c z)) by (now rewrite !eps_boxes_length).
  assert (L2 : length (eps_boxes c z) = length (eps_boxes c x)) by (now rewrite !eps_boxes_length).
  unfold geq, edom. intros [A|[VA A]] [B|[VB B]].
  - left; lra.
  - left; lra.
  - left; lra.
  - right. split; [lra|].
    destruct A as [A|[A1 A2]], B as [B|[B1 B2]].
    + left. eapply zdom_trans; eauto.
    + left. now rewrite <- B1.
    + left. now rewrite A1.
    + right. split; [congruence|lra].
Qed.

Lemma indep_not_edom c z m : indep c z m -> ~ edom c z m.
Proof.
  intros [V [D [_ N]]] [H|[_ [H|[H _]]]]; [lra|congruence|contradiction].
Qed.

Lemma edom_geq c z x : edom c z x -> geq c z x.
Proof.
  intros [H|[V [H|[H1 H2]]]]; [now left|right; split; auto|].
  right. split; [exact V|]. right. split; [exact H1|now apply Qlt_le_weak].
Qed.

(* ---- one step preserves the invariant ---- *)
Definition members_ok (c : ecfg) (a : list esol) : Prop :=
  Forall (wf_sol c) a /\ ForallOrdPairs (indep c) a.
(* strong coverage: every offered solution is beaten or tied by some member *)
Definition covers (c : ecfg) (a offered : list esol) : Prop :=
  Forall (fun x => Exists (fun m => geq c m x) a) offered.
(* no member is eps-dominated by anything ever offered *)
Definition nodom (c : ecfg) (a offered : list esol) : Prop :=
  forall x m, In x offered -> In m a -> ~ edom c x m.

Lemma step_members c a s : members_ok c a -> wf_sol c s -> members_ok c (add_contents c a s).
Proof.
  intros [Wa Pa] Ws. split; [now apply add_contents_wf|].
  unfold add_contents. destruct (rejects c a s); [exact Pa|].
  apply FOP_snoc; [now apply FOP_filter|].
  rewrite Forall_forall in *. intros m Hm. apply filter_In in Hm. destruct Hm as [Hm Hz].
  apply Z.eqb_eq in Hz. apply (cmp_spec_zero c s m Ws (Wa m Hm)) in Hz.
  apply indep_sym. exact Hz.
Qed.

Lemma rejects_witness c a s : rejects c a s = true -> exists m, In m a /\ eps_cmp_spec c s m = 1.
Proof.
  unfold rejects. intro R. apply existsb_exists in R. destruct R as [m [Hm Hp]].
  exists m. split; [exact Hm|]. apply Z.gtb_lt in Hp.
  destruct (cmp_spec_range c s m) as [H|[H|H]]; rewrite H in *; try lia; reflexivity.
Qed.

Lemma accepted_no_one c a s m : rejects c a s = false -> In m a -> eps_cmp_spec c s m <> 1.
Proof.
  unfold rejects. intros R Hm H.
  assert (existsb (fun m0 => eps_cmp_spec c s m0 >? 0) a = true).
  { apply existsb_exists. exists m. split; [exact Hm|]. now rewrite H. }
  congruence.
Qed.

Lemma step_covers c a offered s : Forall (wf_sol c) a -> Forall (wf_sol c) offered -> wf_sol c s ->
  covers c a offered -> covers c (add_contents c a s) (offered ++ [s]).
Proof.
  intros Wa Wo Ws Hc. unfold covers in *. unfold add_contents.
  destruct (rejects c a s) eqn:R.
  - (* rejected: contents unchanged, s is covered by the member that beat it *)
    apply Forall_app. split; [exact Hc|]. constructor; [|constructor].
    destruct (rejects_witness c a s R) as [m [Hm H1]].
    apply Exists_exists. exists m. split; [exact Hm|]. now apply cmp_one_geq.
  - (* accepted *)
    apply Forall_app. split.
    + rewrite Forall_forall in *. intros x Hx. specialize (Hc x Hx).
      apply Exists_exists in Hc. destruct Hc as [m [Hm Hmx]].
      apply Exists_exists.
      destruct (cmp_spec_range c s m) as [H|[H|H]].
      * (* s eps-dominates m: m is removed, s takes over its coverage *)
        exists s. split; [apply in_or_app; right; now left|].
        apply (cmp_spec_first c s m Ws (Wa m Hm)) in H.
        apply edom_geq. exact (edom_geq_trans c s m x Ws (Wa m Hm) (Wo x Hx) H Hmx).
      * exists m. split; [|exact Hmx]. apply in_or_app. left. apply filter_In. split; [exact Hm|].
        now apply Z.eqb_eq.
      * exfalso. exact (accepted_no_one c a s m R Hm H).
    + constructor; [|constructor]. apply Exists_exists. exists s. split; [apply in_or_app; right; now left|apply geq_refl].
Qed.

Lemma step_nodom c a offered s : members_ok c a -> Forall (wf_sol c) offered -> wf_sol c s ->
  covers c a offered -> nodom c a offered -> nodom c (add_contents c a s) (offered ++ [s]).
Proof.
  intros [Wa Pa] Wo Ws Hc Hn. unfold nodom in *. unfold add_contents.
  rewrite Forall_forall in Wa, Wo. unfold covers in Hc. rewrite Forall_forall in Hc.
  destruct (rejects c a s) eqn:R; intros x m Hx Hm E; apply in_app_or in Hx.
  - (* rejected *)
    destruct Hx as [Hx|[<-|[]]]; [exact (Hn x m Hx Hm E)|].
    destruct (rejects_witness c a s R) as [z [Hz H1]]. apply cmp_one_geq in H1.
    pose proof (geq_edom_trans c z s m (Wa z Hz) Ws (Wa m Hm) H1 E) as Ezm.
    destruct (FOP_In (indep c) (indep_sym c) a Pa z m Hz Hm) as [->|I].
    + exact (edom_irrefl c m Ezm).
    + exact (indep_not_edom c z m I Ezm).
  - (* accepted *)
    apply in_app_or in Hm. destruct Hm as [Hm|[<-|[]]].
    + apply filter_In in Hm. destruct Hm as [Hm Hz]. apply Z.eqb_eq in Hz.
      destruct Hx as [Hx|[<-|[]]]; [exact (Hn x m Hx Hm E)|].
      apply (cmp_spec_first c s m Ws (Wa m Hm)) in E. lia.
    + destruct Hx as [Hx|[<-|[]]]; [|exact (edom_irrefl c s E)].
      (* an earlier offer x eps-dominates the newcomer: then the member covering x beats s *)
      specialize (Hc x Hx). apply Exists_exists in Hc. destruct Hc as [z [Hz Gzx]].
      pose proof (geq_edom_trans c z x s (Wa z Hz) (Wo x Hx) Ws Gzx E) as Ezs.
      apply (cmp_spec_first c z s (Wa z Hz) Ws) in Ezs.
      apply (cmp_spec_flip c z s (Wa z Hz) Ws) in Ezs.
      exact (accepted_no_one c a s z R Hz Ezs).
Qed.

Lemma add_contents_incl c a offered s : incl a offered -> incl (add_contents c a s) (offered ++ [s]).
Proof.
  intros H x Hx. unfold add_contents in Hx. destruct (rejects c a s).
  - apply in_or_app. left. now apply H.
  - apply in_app_or in Hx. destruct Hx as [Hx|Hx].
    + apply filter_In in Hx. apply in_or_app. left. apply H. tauto.
    + apply in_or_app. now right.
Qed.

(* ---- the counter ---- *)
(* number of offers of the history l (applied from state st on) that were accepted AND whose
   key (violation class, box) was held by no member at that moment *)
Fixpoint new_box_count_from (c : ecfg) (st : list esol * nat) (l : list esol) : nat :=
  match l with
  | [] => 0
  | s :: r =>
      match eps_box_add c st s with
      | Some (st', ok) => (if ok && unoccupied c (fst st) s then 1 else 0) + new_box_count_from c st' r
      | None => 0
      end
  end.
Definition new_box_count (c : ecfg) (l : list esol) : nat := new_box_count_from c ([], 0%nat) l.

(* ---- the invariant ---- *)
Record EInv (c : ecfg) (offered a : list esol) (imp : nat) : Prop := {
  (* members are offered solutions *)
  ei_members_offered : incl a offered;
  (* (i) at most one member per (violation class, box) key *)
  ei_one_per_box : ForallOrdPairs (fun m m' => ~ same_key c m m') a;
  (*     (all members share one violation class) *)
  ei_one_class : forall m m', In m a -> In m' a -> (eps_vkey c m == eps_vkey c m')%Q;
  (* (ii) no member's box Pareto-dominates another member's box *)
  ei_no_box_dominates : forall m m', In m a -> In m' a -> zdom (eps_boxes c m) (eps_boxes c m') = false;
  (* (iii) coverage: every solution ever offered is weakly box-dominated by, or more
           constraint-violating than, some member *)
  ei_coverage : Forall (fun x => Exists (fun m => wdom c m x) a) offered;
  (*     stronger: ... is beaten or tied by some member (box-dominated, or same box and the
         member at least as near the corner) *)
  ei_strong_coverage : Forall (fun x => Exists (fun m => geq c m x) a) offered;
  (*     and no member is eps-dominated by anything ever offered *)
  ei_members_nondominated : forall x m, In x offered -> In m a -> ~ edom c x m;
  (* (iv) the counter *)
  ei_counter : imp = new_box_count c offered
}.

Lemma run_from_inv c : wf_cfg c -> forall l offered st,
  members_ok c (fst st) -> incl (fst st) offered -> Forall (wf_sol c) offered ->
  covers c (fst st) offered -> nodom c (fst st) offered ->
  Forall (wf_sol c) l ->
  exists st', eps_box_run_from c st l = Some st' /\
              members_ok c (fst st') /\ incl (fst st') (offered ++ l) /\
              covers c (fst st') (offered ++ l) /\ nodom c (fst st') (offered ++ l) /\
              snd st' = (snd st + new_box_count_from c st l)%nat.
Proof.
  intros Wc l. induction l as [|s r IH]; intros offered [a imp] Hm Hi Wo Hc Hn Wl.
  - exists (a, imp). cbn [eps_box_run_from new_box_count_from fst snd] in *. rewrite app_nil_r.
    repeat split; auto; try apply Hm; lia.
  - inversion Wl as [|? ? Ws Wr]; subst. cbn [fst snd] in *.
    cbn [eps_box_run_from new_box_count_from].
    rewrite (eps_box_add_total c a imp s Wc (proj1 Hm) Ws).
    set (a1 := add_contents c a s).
    set (imp1 := if negb (rejects c a s) && unoccupied c a s then S imp else imp).
    destruct (IH (offered ++ [s]) (a1, imp1)) as [st' [E [M [I [C [D N]]]]]]; cbn [fst snd].
    + now apply step_members.
    + now apply add_contents_incl.
    + apply Forall_app. split; [exact Wo|now constructor].
    + apply step_covers; auto. apply Hm.
    + now apply step_nodom.
    + exact Wr.
    + exists st'. rewrite <- app_assoc in I, C, D. cbn [app] in I, C, D.
      repeat split; auto; try apply M.
      rewrite N. cbn [fst snd]. subst imp1.
      destruct (negb (rejects c a s) && unoccupied c a s); lia.
Qed.

Lemma indep_not_same_key c m m' : indep c m m' -> ~ same_key c m m'.
Proof. intros [_ [_ [_ N]]] [_ E]. contradiction. Qed.

Lemma FOP_impl {A} (R R' : A -> A -> Prop) l : (forall x y, R x y -> R' x y) ->
  ForallOrdPairs R l -> ForallOrdPairs R' l.
Proof.
  intros H. induction 1 as [|x l Hx Hl IH]; constructor; auto.
  rewrite Forall_forall in *. auto.
Qed.

(* EInv holds after EVERY insertion history of well-formed solutions, and the run raises nothing *)
Theorem eps_box_run_inv c l : wf_cfg c -> Forall (wf_sol c) l ->
  exists a imp, eps_box_run c l = Some (a, imp) /\ EInv c l a imp.
Proof.
  intros Wc Wl. unfold eps_box_run.
  destruct (run_from_inv c Wc l [] ([], 0%nat)) as [[a imp] [E [[Wa Pa] [I [C [D N]]]]]]; cbn [fst snd] in *.
  - split; constructor.
  - intros x [].
  - constructor.
  - constructor.
  - intros x m [].
  - exact Wl.
  - exists a, imp. split; [exact E|].
    pose proof (FOP_In (indep c) (indep_sym c) a Pa) as PI.
    split.
    + exact I.
    + apply (FOP_impl (indep c)); [apply indep_not_same_key|exact Pa].
    + intros m m' Hm Hm'. destruct (PI m m' Hm Hm') as [->|[V _]]; [reflexivity|exact V].
    + intros m m' Hm Hm'. destruct (PI m m' Hm Hm') as [->|[_ [D' _]]]; [apply zdom_irrefl|exact D'].
    + unfold covers in C. rewrite Forall_forall in *. intros x Hx. specialize (C x Hx).
      apply Exists_exists in C. destruct C as [m [Hm G]]. apply Exists_exists. exists m. split; [exact Hm|now apply geq_wdom].
    + exact C.
    + exact D.
    + unfold new_box_count. lia.
Qed.

(* Archive(EpsilonDominance(..)) holds the very same contents as EpsilonBoxArchive *)
Lemma plain_run_from_eq c : wf_cfg c -> forall l a imp, Forall (wf_sol c) a -> Forall (wf_sol c) l ->
  eps_plain_run_from c a l = option_map fst (eps_box_run_from c (a, imp) l).
Proof.
  intros Wc l. induction l as [|s r IH]; intros a imp Wa Wl; [reflexivity|].
  inversion Wl as [|? ? Ws Wr]; subst.
  cbn [eps_plain_run_from eps_box_run_from].
  rewrite (eps_plain_add_total c a s Wc Wa Ws), (eps_box_add_total c a imp s Wc Wa Ws).
  apply IH; [now apply add_contents_wf|exact Wr].
Qed.

Theorem eps_plain_run_eq c l : wf_cfg c -> Forall (wf_sol c) l ->
  eps_plain_run c l = option_map fst (eps_box_run c l).
Proof. intros Wc Wl. apply plain_run_from_eq; auto. Qed.

(* accepted iff no member is at least as good *)
Theorem eps_box_add_accept_iff c a imp s st' ok : wf_cfg c -> Forall (wf_sol c) a -> wf_sol c s ->
  eps_box_add c (a, imp) s = Some (st', ok) ->
  (ok = false <-> exists m, In m a /\ eps_compare c s m = Some 1).
Proof.
  intros Wc Wa Ws. rewrite (eps_box_add_total c a imp s Wc Wa Ws). intro H. injection H as _ H. subst ok.
  rewrite negb_false_iff. unfold rejects. rewrite existsb_exists. rewrite Forall_forall in Wa.
  split; intros [m [Hm Hp]]; exists m; (split; [exact Hm|]).
  - rewrite (eps_compare_spec c s m Wc Ws (Wa m Hm)). f_equal. apply Z.gtb_lt in Hp.
    destruct (cmp_spec_range c s m) as [R|[R|R]]; rewrite R in *; try lia.
  - rewrite (eps_compare_spec c s m Wc Ws (Wa m Hm)) in Hp. injection Hp as Hp. now rewrite Hp.
Qed.

(* one step of the counter, in terms of the key of the newcomer *)
Theorem eps_box_add_counter c a imp s a' imp' ok : wf_cfg c -> Forall (wf_sol c) a -> wf_sol c s ->
  eps_box_add c (a, imp) s = Some ((a', imp'), ok) ->
  imp' = (imp + (if ok && forallb (fun m => negb (same_box_spec c s m)) a then 1 else 0))%nat.
Proof.
  intros Wc Wa Ws. rewrite (eps_box_add_total c a imp s Wc Wa Ws). intro H.
  injection H as _ H1 H2. subst ok imp'. unfold unoccupied.
  destruct (negb (rejects c a s) && forallb _ a); lia.
Qed.

(* ---- coverage in objective space: within one epsilon in every objective ---- *)
Lemma zall_le_within : forall ev av1 av2, Forall (fun e => (0 < e)%Q) ev ->
  length av1 = length ev -> length av2 = length ev ->
  zall_le (box_vec ev av1) (box_vec ev av2) = true ->
  forall i, (i < length ev)%nat -> (nth i av1 0 < nth i av2 0 + nth i ev 0)%Q.
Proof.
  induction ev as [|e ev IH]; intros [|x r1] [|y r2] Hp H1 H2 H i Hi; simpl in H1, H2, Hi; try discriminate; try lia.
  cbn [box_vec zall_le] in H. inversion Hp as [|? ? He Hp']; subst.
  apply andb_true_iff in H. destruct H as [A B]. apply Z.leb_le in A.
  destruct i as [|i]; cbn [nth].
  - pose proof (floor_mul_gt x e He) as Gx. pose proof (floor_mul_le y e He) as Ly.
    assert (A' : (inject_Z (Qfloor (x / e)) <= inject_Z (Qfloor (y / e)))%Q) by (rewrite <- Zle_Qle; exact A).
    set (kx := inject_Z (Qfloor (x / e))) in *. set (ky := inject_Z (Qfloor (y / e))) in *. nra.
  - apply IH; auto; lia.
Qed.

Theorem wdom_within_eps c m x : wf_cfg c -> wf_sol c m -> wf_sol c x -> wdom c m x ->
  (eps_vkey c m < eps_vkey c x)%Q \/
  ((eps_vkey c m == eps_vkey c x)%Q /\
   forall i, (i < length (e_dirs c))%nat ->
     (nth i (eps_adjs c m) 0 < nth i (eps_adjs c x) 0 + nth i (eps_vec c) 0)%Q).
Proof.
  intros Wc Wm Wx [H|[V H]]; [now left|right]. split; [exact V|].
  pose proof (epsv_from_pos (e_eps c) Wc (length (e_dirs c)) 0%nat) as Hp. fold (eps_vec c) in Hp.
  pose proof (eps_adjs_length c m Wm) as Lm. pose proof (eps_adjs_length c x Wx) as Lx.
  pose proof (eps_vec_length c) as Le.
  intros i Hi. apply (zall_le_within (eps_vec c)); auto; lia.
Qed.


(* ---- model-level forms of the characterisations (used by Props/C05.v) ---- *)
Theorem eps_compare_first_iff c a b : wf_cfg c -> wf_sol c a -> wf_sol c b ->
  (eps_compare c a b = Some (-1) <-> edom c a b).
Proof.
  intros Wc Wa Wb. rewrite (eps_compare_spec c a b Wc Wa Wb).
  rewrite <- (cmp_spec_first c a b Wa Wb). split; intro H; [now injection H|now f_equal].
Qed.

Theorem eps_compare_same_box c a b : wf_cfg c -> wf_sol c a -> wf_sol c b ->
  (eps_vkey c a == eps_vkey c b)%Q -> eps_boxes c a = eps_boxes c b ->
  eps_compare c a b = Some (if Qltb (eps_cdist c a) (eps_cdist c b) then -1 else 1).
Proof.
  intros Wc Wa Wb V E. rewrite (eps_compare_spec c a b Wc Wa Wb). f_equal. now apply cmp_spec_same_box.
Qed.

Theorem einv_clauses c l a imp : EInv c l a imp ->
  incl a l /\
  ForallOrdPairs (fun m m' => ~ ((eps_vkey c m == eps_vkey c m')%Q /\ eps_boxes c m = eps_boxes c m')) a /\
  (forall m m', In m a -> In m' a -> (eps_vkey c m == eps_vkey c m')%Q) /\
  (forall m m', In m a -> In m' a -> zdom (eps_boxes c m) (eps_boxes c m') = false) /\
  Forall (fun x => Exists (fun m =>
      (eps_vkey c m < eps_vkey c x)%Q \/
      ((eps_vkey c m == eps_vkey c x)%Q /\ zall_le (eps_boxes c m) (eps_boxes c x) = true)) a) l /\
  imp = new_box_count c l.
Proof. intros [H1 H2 H3 H4 H5 H5' H5'' H6]. repeat split; assumption. Qed.

(* consequence for plain Pareto dominance: the archive never keeps a solution that some offered
   solution Pareto-dominates *)
Theorem einv_pareto_nondominated c l a imp : wf_cfg c -> Forall (wf_sol c) l -> EInv c l a imp ->
  forall x m, In x l -> In m a -> pareto_cmp c x m <> -1.
Proof.
  intros Wc Wl H x m Hx Hm P. rewrite Forall_forall in Wl.
  pose proof (Wl x Hx) as Wx. pose proof (Wl m (ei_members_offered c l a imp H m Hm)) as Wm.
  apply (eps_respects_pareto c x m Wc Wx Wm) in P.
  apply (eps_compare_first_iff c x m Wc Wx Wm) in P.
  exact (ei_members_nondominated c l a imp H x m Hx Hm P).
Qed.

Theorem einv_strong c l a imp : EInv c l a imp ->
  Forall (fun x => Exists (fun m => geq c m x) a) l /\
  (forall x m, In x l -> In m a -> ~ edom c x m).
Proof. intros H. split; [exact (ei_strong_coverage c l a imp H)|exact (ei_members_nondominated c l a imp H)]. Qed.


(* ------------------------------------------------------------------------- *)
(* Part 5 : non-vacuity                                                       *)
(* ------------------------------------------------------------------------- *)
(* two objectives, the second maximised, ONE epsilon 1/2 (reused for the second objective),
   constrained problem *)
Definition ex_cfg : ecfg := ECfg [1#2] [false; true] true.
Definition ex_a : esol := ESol 0 [(-3)#4; 1#2] 0.        (* adjusted (-3/4,-1/2): box (-2,-1), corner dist 1/16 *)
Definition ex_b : esol := ESol 1 [(-5)#8; 3#4] 0.        (* adjusted (-5/8,-3/4): box (-2,-2) *)
Definition ex_c : esol := ESol 2 [(-7)#8; 5#8] 0.        (* adjusted (-7/8,-5/8): box (-2,-2), nearer the corner than ex_b *)
Definition ex_d : esol := ESol 3 [(-1)#1; 1#1] (1#4).    (* box (-2,-2) but violating *)
Definition ex_e : esol := ESol 4 [(-5)#8; 3#4] 0.        (* twin of ex_b *)
Definition ex_f : esol := ESol 5 [1#4; 7#4] 0.           (* adjusted (1/4,-7/4): box (0,-4) *)

Example ex_wf : wf_cfg ex_cfg /\ Forall (wf_sol ex_cfg) [ex_a; ex_b; ex_c; ex_d; ex_e; ex_f].
Proof.
  split.
  - split; [discriminate|]. repeat constructor.
  - repeat constructor; unfold Qle; simpl; lia.
Qed.

Example ex_boxes :
  eps_boxes ex_cfg ex_a = [-2; -1] /\ eps_boxes ex_cfg ex_b = [-2; -2] /\
  eps_boxes ex_cfg ex_c = [-2; -2] /\ eps_boxes ex_cfg ex_f = [0; -4] /\ eps_vec ex_cfg = [1#2; 1#2].
Proof. repeat split; vm_compute; reflexivity. Qed.

(* box dominance / same box nearer / same box equal distance answers 1 both ways /
   incomparable boxes / violation first *)
Example ex_compare :
  eps_compare ex_cfg ex_b ex_a = Some (-1) /\ eps_compare ex_cfg ex_a ex_b = Some 1 /\
  eps_compare ex_cfg ex_c ex_b = Some (-1) /\ eps_compare ex_cfg ex_b ex_c = Some 1 /\
  eps_compare ex_cfg ex_b ex_e = Some 1 /\ eps_compare ex_cfg ex_e ex_b = Some 1 /\
  eps_compare ex_cfg ex_f ex_a = Some 0 /\
  eps_compare ex_cfg ex_a ex_d = Some (-1) /\ eps_compare ex_cfg ex_d ex_a = Some 1.
Proof. repeat split; vm_compute; reflexivity. Qed.

Example ex_same_box :
  same_box ex_cfg ex_b ex_c = Some true /\ same_box ex_cfg ex_b ex_a = Some false /\
  same_box ex_cfg ex_b ex_d = Some false /\ same_box ex_cfg ex_d ex_d = Some true.
Proof. repeat split; vm_compute; reflexivity. Qed.

(* exceptions are visible in the model: empty epsilon list, epsilon 0, short objective vector;
   and the early exit / the violation ladder return before the failing index is reached *)
Example ex_errors :
  eps_compare (ECfg [] [false] false) (ESol 0 [1#1] 0) (ESol 1 [2#1] 0) = None /\
  eps_compare (ECfg [1#1; 0#1] [false; false] false) (ESol 0 [1#1; 1#1] 0) (ESol 1 [2#1; 2#1] 0) = None /\
  eps_compare (ECfg [1#1] [false; false] false) (ESol 0 [1#1] 0) (ESol 1 [2#1; 2#1] 0) = None /\
  eps_compare (ECfg [1#1; 1#1; 0#1] [false; false; false] false)
              (ESol 0 [1#1; 2#1; 0#1] 0) (ESol 1 [2#1; 1#1; 0#1] 0) = Some 0 /\
  eps_compare (ECfg [0#1] [false] true) (ESol 0 [1#1] 0) (ESol 1 [2#1] 1) = Some (-1).
Proof. repeat split; vm_compute; reflexivity. Qed.

(* the hypothesis of eps_respects_pareto is satisfiable with the solutions in ONE box
   (so the tie-break is what has to agree with Pareto) *)
Example ex_pareto :
  pareto_cmp ex_cfg ex_c (ESol 9 [(-3)#4; 5#8] 0) = -1 /\
  eps_boxes ex_cfg ex_c = eps_boxes ex_cfg (ESol 9 [(-3)#4; 5#8] 0) /\
  eps_compare ex_cfg ex_c (ESol 9 [(-3)#4; 5#8] 0) = Some (-1).
Proof. repeat split; vm_compute; reflexivity. Qed.

(* a history: a enters an empty box (1); b box-dominates a and enters a new box (2);
   c replaces b inside the SAME box: accepted but NOT an improvement; the twin e of b and the
   violating d are rejected; f enters a new, incomparable box (3).  Five... six offers,
   four accepted, counter 3. *)
Example ex_history :
  eps_box_run ex_cfg [ex_a; ex_b; ex_c; ex_e; ex_d; ex_f] = Some ([ex_c; ex_f], 3%nat) /\
  eps_plain_run ex_cfg [ex_a; ex_b; ex_c; ex_e; ex_d; ex_f] = Some [ex_c; ex_f] /\
  new_box_count ex_cfg [ex_a; ex_b; ex_c; ex_e; ex_d; ex_f] = 3%nat.
Proof. repeat split; vm_compute; reflexivity. Qed.

Example ex_transitive_chain :
  eps_compare ex_cfg ex_c ex_b = Some (-1) /\ eps_compare ex_cfg ex_b ex_a = Some (-1) /\
  eps_compare ex_cfg ex_c ex_a = Some (-1).
Proof. repeat split; vm_compute; reflexivity. Qed.

(* the invariant theorem applies to that history (hypotheses satisfiable, conclusion non-trivial:
   two members, a rejected twin, a same-box replacement, counter 3 < 4 accepted) *)
Example ex_einv : EInv ex_cfg [ex_a; ex_b; ex_c; ex_e; ex_d; ex_f] [ex_c; ex_f] 3%nat.
Proof.
  destruct ex_wf as [Wc Wl0].
  assert (Wl : Forall (wf_sol ex_cfg) [ex_a; ex_b; ex_c; ex_e; ex_d; ex_f]).
  { rewrite Forall_forall in *. intros x Hx. apply Wl0. simpl in *. tauto. }
  destruct (eps_box_run_inv ex_cfg [ex_a; ex_b; ex_c; ex_e; ex_d; ex_f] Wc Wl) as [a [imp [E I]]].
  pose proof (proj1 ex_history) as H.
  assert (X : Some (a, imp) = Some ([ex_c; ex_f], 3%nat)) by (rewrite <- E; exact H).
  injection X as -> ->. exact I.
Qed.
