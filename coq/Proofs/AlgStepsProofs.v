(* Proofs/AlgStepsProofs.v — every modelled algorithm step is an instance of the skeleton
   (DESIGN.md section 6, C01 item 5), for C01's and for C07's reading of the skeleton. *)
From Coq Require Import ZArith Bool List Lia.
Import ListNotations.
From PV Require Import Model.Evaluate Model.AlgSkeleton Model.AlgSteps Proofs.EvaluateProofs Proofs.AlgSkeletonProofs.
Open Scope Z_scope.

(* ---- list facts ---- *)
Lemma pick_incl {A} (idx : list nat) (l : list A) : incl (pick idx l) l.
Proof.
  intros x H. unfold pick in H. apply in_flat_map in H as (i & _ & H).
  destruct (nth_error l i) eqn:E; [|contradiction]. destruct H as [<-|[]]. eapply nth_error_In; eauto.
Qed.
Lemma rm_nth_incl {A} : forall k (l : list A), incl (rm_nth k l) l.
Proof. induction k; intros [|a l] x H; simpl in *; auto; destruct H as [<-|H]; auto. right. now apply IHk. Qed.
Lemma set_nth_incl {A} : forall k (x : A) l, incl (set_nth k x l) (x :: l).
Proof.
  induction k; intros x [|a l] y H; simpl in *; auto.
  - destruct H as [<-|H]; auto.
  - destruct H as [<-|H]; auto. apply IHk in H. destruct H as [<-|H]; auto.
Qed.
Lemma firstn_incl {A} n (l : list A) : incl (firstn n l) l.
Proof. intros x H. rewrite <- (firstn_skipn n l). apply in_or_app. now left. Qed.
Lemma incl_l {A} (a b : list A) : incl a (a ++ b).
Proof. apply incl_appl, incl_refl. Qed.
Lemma incl_r {A} (a b : list A) : incl b (a ++ b).
Proof. apply incl_appr, incl_refl. Qed.
Lemma map2_in {A B R} (f : A -> B -> R) : forall a b r, In r (ev_map2 f a b) -> exists x y, In x a /\ In y b /\ r = f x y.
Proof.
  induction a as [|x a IH]; intros [|y b] r H; simpl in H; try contradiction.
  destruct H as [<-|H]; [exists x, y; simpl; auto|].
  destruct (IH _ _ H) as (x' & y' & ? & ? & ?). exists x', y'. simpl. auto.
Qed.

Section AlgStepsProofs.
  Variable Val : Type.
  Variable Num : Type.
  Variable Ty  : Type.
  Variable decode : Ty -> Val -> Val.
  Variable encode : Ty -> Val -> Val.
  Variable F : list Val -> list Num * list Num.
  Variable C : list (Num -> Num).
  Variable nabs : Num -> Num.
  Variable nadd : Num -> Num -> Num.
  Variable nzero : Num.
  Variable niszero : Num -> bool.
  Variable types : list Ty.
  Notation sol := (sol Val Num).
  Variable ev : list sol -> list (jobres Val Num).
  Variable T : Type.
  Variable vary : T -> list sol -> list sol.
  Variable mutate : T -> sol -> sol.
  Variable move : T -> sol -> sol.
  Variable sample : T -> sol.
  Variable Gen : sol -> Prop.
  Variable cmp : sol -> sol -> Z.
  Variable better : sol -> sol -> nat -> bool.
  Variable test : list sol -> sol -> sol -> bool.
  Variable worst : list sol -> nat.
  Variable survive : list sol -> list sol.
  Variable sortf : list sol -> list sol.
  Variable trunc : list sol -> list sol.
  Variable arch_add : list sol -> sol -> list sol.
  Variable arch_added : list sol -> sol -> bool.
  Variable lead_add : list sol -> sol -> list sol.
  Notation evaluate_all := (evaluate_all Val Num ev).
  Notation ev_spec := (ev_spec Val Num Ty decode encode F C nabs nadd nzero niszero types).
  Notation problem_call := (problem_call Val Num Ty decode encode F C nabs nadd nzero niszero types).
  Notation Good := (Good Val Num Ty decode F C nabs nadd nzero niszero types).
  Notation flag_discipline := (flag_discipline Val Num).
  Notation produced := (produced Val Num).
  Notation step_ok := (step_ok Val Num).
  Notation pool_after := (pool_after Val Num).
  Notation derived := (derived Val Num T vary mutate move sample Gen).
  Notation mkb := (mkb Val Num ev).
  Notation mate := (mate Val Num T vary).
  Notation arch_extend := (arch_extend Val Num arch_add).
  Notation lead_extend := (lead_extend Val Num lead_add).
  Notation oarch := (oarch Val Num).

  (* ---- the contracts of the abstract components ---- *)
  Hypothesis roundtrip : forall t v, In t types -> decode t (encode t (decode t v)) = decode t v.
  Hypothesis ev_ok : ev_spec ev.                                                       (* C12 *)
  Hypothesis vary_flag : forall t ps c, In c (vary t ps) -> exists p, In p ps /\ flag_discipline p c.   (* C06 *)
  Hypothesis mutate_flag : forall t p, flag_discipline p (mutate t p).                 (* C06 *)
  Hypothesis move_clear : forall t p, evaluated (move t p) = false.                    (* algorithms.py:1134 *)
  Hypothesis sample_clear : forall t, evaluated (sample t) = false.                    (* algorithms.py:1482, core.py:578 *)
  Hypothesis gen_clear : forall s, Gen s -> evaluated s = false.                       (* operators.py:40, core.py:578 *)
  Hypothesis survive_incl : forall l, incl (survive l) l.
  Hypothesis sortf_incl : forall l, incl (sortf l) l.
  Hypothesis trunc_incl : forall l, incl (trunc l) l.
  Hypothesis arch_add_incl : forall a s, incl (arch_add a s) (s :: a).
  Hypothesis lead_add_incl : forall a s, incl (lead_add a s) (s :: a).

  (* induction principle for the nested relation *)
  Lemma derived_ind' (pool : list sol) (P : sol -> Prop) :
    (forall s, In s pool -> P s) ->
    (forall t ps c, Forall (derived pool) ps -> Forall P ps -> In c (vary t ps) -> P c) ->
    (forall t p, derived pool p -> P p -> P (mutate t p)) ->
    (forall t p, derived pool p -> P p -> P (move t p)) ->
    (forall t, P (sample t)) ->
    (forall s, Gen s -> P s) ->
    forall s, derived pool s -> P s.
  Proof.
    intros Hm Hv Hu Ho Hs Hg. fix IH 2. intros s0 H. destruct H as [s I|t ps c Hps Hc|t p Hp|t p Hp|t|s G].
    - now apply Hm.
    - apply (Hv t ps c Hps); [|exact Hc]. clear Hc.
      induction Hps as [|x l Hx Hl IHl]; constructor; [exact (IH x Hx)|exact IHl].
    - apply Hu; [exact Hp|exact (IH p Hp)].
    - apply Ho; [exact Hp|exact (IH p Hp)].
    - apply Hs.
    - now apply Hg.
  Qed.

  Lemma derived_weaken pool pool' s : incl pool pool' -> derived pool s -> derived pool' s.
  Proof.
    intro I. apply (derived_ind' pool (derived pool')).
    - intros x Hx. apply D_member, I, Hx.
    - intros t ps c _ IH Hc. eapply D_vary; eauto.
    - intros t p _ IH. now apply D_mutate.
    - intros t p _ IH. now apply D_move.
    - apply D_sample.
    - apply D_gen.
  Qed.

  (* everything an algorithm model derives is something the skeleton allows it to submit *)
  Lemma derived_produced pool s : derived pool s -> produced pool s.
  Proof.
    apply (derived_ind' pool (produced pool)).
    - apply P_member.
    - intros t ps c _ IH Hc. destruct (vary_flag t ps c Hc) as (p & Ip & D).
      rewrite Forall_forall in IH. eapply P_vary; [apply IH, Ip|exact D].
    - intros t p _ IH. eapply P_vary; [exact IH|apply mutate_flag].
    - intros t p _ _. apply P_fresh, move_clear.
    - intro t. apply P_fresh, sample_clear.
    - intros x G. apply P_fresh, gen_clear, G.
  Qed.

  (* ---- data-flow conditions of a step, in terms of the model ---- *)
  Fixpoint flow_batches (pool : list sol) (bs : list (batch Val Num)) : Prop :=
    match bs with
    | [] => True
    | b :: r => Forall (derived pool) (b_before b) /\ b_after b = evaluate_all (b_before b) /\ flow_batches (pool ++ b_after b) r
    end.
  Definition flow_ok (pool : list sol) (bs : list (batch Val Num)) (exposed' : list sol) : Prop :=
    flow_batches pool bs /\ incl exposed' (pool_after pool bs).

  Lemma evaluate_all_evaluated sols : Forall (fun s => evaluated s = true) (evaluate_all sols).
  Proof.
    rewrite (evaluate_all_char Val Num Ty decode encode F C nabs nadd nzero niszero types ev sols ev_ok).
    apply Forall_forall. intros s H. apply in_map_iff in H as (x & <- & _).
    destruct (evaluated x) eqn:E; [exact E|reflexivity].
  Qed.

  Lemma flow_batches_ok : forall bs pool, flow_batches pool bs -> batches_ok Val Num ev pool bs.
  Proof.
    induction bs as [|b bs IH]; intros pool H; simpl in *; [exact I|].
    destruct H as (H1 & H2 & H3). split; [|now apply IH]. split; [|exact H2].
    eapply Forall_impl; [|exact H1]. apply derived_produced.
  Qed.

  Lemma flow_pool_evaluated : forall bs pool, Forall (fun s => evaluated s = true) pool -> flow_batches pool bs ->
    Forall (fun s => evaluated s = true) (pool_after pool bs).
  Proof.
    induction bs as [|b bs IH]; intros pool HP H; simpl in *; [exact HP|].
    destruct H as (_ & H2 & H3). apply IH; [|exact H3]. apply Forall_app. split; [exact HP|].
    rewrite H2. apply evaluate_all_evaluated.
  Qed.

  (* the generic bridge: a model step whose data flow is ok is a step of the skeleton *)
  Theorem flow_step_ok pool bs exposed' : Forall (fun s => evaluated s = true) pool ->
    flow_ok pool bs exposed' -> step_ok ev pool (mkStep bs exposed').
  Proof.
    intros HP [HB HI]. split; [now apply flow_batches_ok|]. split; [exact HI|].
    simpl. pose proof (flow_pool_evaluated bs pool HP HB) as HE.
    rewrite Forall_forall in *. intros s Hs. apply HE, HI, Hs.
  Qed.

  (* and therefore keeps every exposed solution Good *)
  Theorem flow_good pool bs exposed' : Forall Good pool -> flow_ok pool bs exposed' -> Forall Good exposed'.
  Proof.
    intros G H.
    apply (skeleton_invariant Val Num Ty decode encode F C nabs nadd nzero niszero types roundtrip ev pool (mkStep bs exposed') ev_ok G).
    apply flow_step_ok; [|exact H]. eapply Forall_impl; [|exact G]. intros s (E & _). exact E.
  Qed.

  Lemma flow_app : forall bs1 bs2 pool, flow_batches pool bs1 -> flow_batches (pool_after pool bs1) bs2 -> flow_batches pool (bs1 ++ bs2).
  Proof.
    induction bs1 as [|b bs1 IH]; intros bs2 pool H1 H2; simpl in *; [exact H2|].
    destruct H1 as (A & B & D). repeat split; auto.
  Qed.
  Lemma pool_after_app : forall bs1 bs2 pool, pool_after pool (bs1 ++ bs2) = pool_after (pool_after pool bs1) bs2.
  Proof. induction bs1; intros; simpl; auto. Qed.
  Lemma pool_after_incl : forall bs pool, incl pool (pool_after pool bs).
  Proof. induction bs as [|b bs IH]; intros pool; simpl; [apply incl_refl|]. eapply incl_tran; [apply incl_l|apply IH]. Qed.

  (* one evaluate_all call *)
  Lemma flow_one pool offspring exposed' :
    Forall (derived pool) offspring -> incl exposed' (pool ++ evaluate_all offspring) -> flow_ok pool [mkb offspring] exposed'.
  Proof. intros H I. split; [simpl; auto|exact I]. Qed.

  (* ---- building blocks ---- *)
  Lemma members_derived pool l : incl l pool -> Forall (derived pool) l.
  Proof. intro I. apply Forall_forall. intros x H. apply D_member, I, H. Qed.

  Lemma mate_derived pool tape src : incl src pool -> Forall (derived pool) (mate tape src).
  Proof.
    intro I. apply Forall_forall. intros c H. unfold AlgSteps.mate in H.
    apply in_flat_map in H as (e & _ & H). eapply D_vary; [|exact H].
    apply members_derived. eapply incl_tran; [apply pick_incl|exact I].
  Qed.

  Lemma arch_extend_incl : forall l a, incl (arch_extend a l) (a ++ l).
  Proof.
    unfold AlgSteps.arch_extend. induction l as [|s l IH]; intro a; simpl; [rewrite app_nil_r; apply incl_refl|].
    intros x H. apply IH in H. apply in_app_or in H as [H|H].
    - apply arch_add_incl in H. destruct H as [<-|H]; apply in_or_app; [right; now left|now left].
    - apply in_or_app. right. now right.
  Qed.
  Lemma lead_extend_incl : forall l a, incl (lead_extend a l) (a ++ l).
  Proof.
    unfold AlgSteps.lead_extend. induction l as [|s l IH]; intro a; simpl; [rewrite app_nil_r; apply incl_refl|].
    intros x H. apply IH in H. apply in_app_or in H as [H|H].
    - apply lead_add_incl in H. destruct H as [<-|H]; apply in_or_app; [right; now left|now left].
    - apply in_or_app. right. now right.
  Qed.
  Lemma oarch_map_incl (a : option (list sol)) l m :
    incl (oarch a) m -> incl l m -> incl (oarch (option_map (fun x => arch_extend x l) a)) m.
  Proof.
    intros Ia Il. destruct a as [x|]; simpl in *; [|intros y []].
    eapply incl_tran; [apply arch_extend_incl|]. now apply incl_app.
  Qed.

  Ltac inc :=
    repeat match goal with
           | |- incl (_ ++ _) _ => apply incl_app
           | |- incl (survive _) _ => eapply incl_tran; [apply survive_incl|]
           | |- incl (sortf _) _ => eapply incl_tran; [apply sortf_incl|]
           | |- incl (trunc _) _ => eapply incl_tran; [apply trunc_incl|]
           | |- incl (firstn _ _) _ => eapply incl_tran; [apply firstn_incl|]
           | |- incl (arch_extend _ _) _ => eapply incl_tran; [apply arch_extend_incl|]
           | |- incl (lead_extend _ _) _ => eapply incl_tran; [apply lead_extend_incl|]
           | |- incl [] _ => intros ? []
           end.
  (* membership in a nest of appends *)
  Ltac mem := repeat (apply in_or_app; first [left; assumption | right]); try assumption.
  Ltac sub :=
    let x := fresh "x" in let H := fresh "H" in
    intros x H; repeat rewrite in_app_iff in H; repeat rewrite in_app_iff; cbn [In] in H |- *; clear - H; intuition (subst; auto).

  (* ================= the algorithms ================= *)

  (* AbstractGeneticAlgorithm.initialize: the generator returns new solutions or injected ones (the initial pool) *)
  Definition generated (pool : list sol) (gen : list sol) : Prop := Forall (fun s => Gen s \/ In s pool) gen.
  Lemma generated_derived pool gen : generated pool gen -> Forall (derived pool) gen.
  Proof. intro H. eapply Forall_impl; [|exact H]. intros s [G|I]; [now apply D_gen|now apply D_member]. Qed.

  Notation ga_initialize := (ga_initialize Val Num ev sortf).
  Notation ga_iterate := (ga_iterate Val Num ev T vary survive).
  Notation ga_exposed := (ga_exposed Val Num).

  Theorem ga_initialize_flow injected gen : generated injected gen ->
    flow_ok injected (snd (ga_initialize gen)) (ga_exposed (fst (ga_initialize gen))).
  Proof.
    intro G. apply flow_one; [now apply generated_derived|].
    unfold AlgSteps.ga_exposed, AlgSteps.ga_initialize, AlgSteps.init_population; cbn [fst snd ga_pop ga_fittest].
    inc; apply incl_r.
  Qed.

  Theorem ga_iterate_flow tape st :
    flow_ok (ga_exposed st) (snd (ga_iterate tape st)) (ga_exposed (fst (ga_iterate tape st))).
  Proof.
    apply flow_one; [apply mate_derived, incl_l|].
    unfold AlgSteps.ga_exposed, AlgSteps.ga_iterate; cbn [fst snd ga_pop ga_fittest].
    inc; sub.
  Qed.
  (* ---- EvolutionaryStrategy ---- *)
  Notation es_mate := (es_mate Val Num T vary).
  Notation es_iterate := (es_iterate Val Num ev T vary survive).
  Lemma es_mate_derived pool ts pop : incl pop pool -> Forall (derived pool) (es_mate ts pop).
  Proof.
    intro I. apply Forall_forall. intros c H. unfold AlgSteps.es_mate in H.
    apply in_flat_map in H as (e & _ & H). eapply D_vary; [|exact H].
    apply members_derived. eapply incl_tran; [apply pick_incl|exact I].
  Qed.
  Theorem es_iterate_flow ts pop : flow_ok pop (snd (es_iterate ts pop)) (fst (es_iterate ts pop)).
  Proof.
    apply flow_one; [apply es_mate_derived, incl_refl|].
    unfold AlgSteps.es_iterate; cbn [fst snd]. inc; sub.
  Qed.

  (* ---- NSGAII (with or without archive), NSGAIII, SPEA2 ---- *)
  Notation pa_exposed := (pa_exposed Val Num).
  Notation nsga2_initialize := (nsga2_initialize Val Num ev arch_add).
  Notation nsga2_iterate := (nsga2_iterate Val Num ev T vary survive arch_add).
  Notation plus_iterate := (plus_iterate Val Num ev T vary survive).

  Theorem nsga2_initialize_flow injected arch0 gen : generated injected gen -> incl (oarch arch0) injected ->
    flow_ok injected (snd (nsga2_initialize arch0 gen)) (pa_exposed (fst (nsga2_initialize arch0 gen))).
  Proof.
    intros G A. apply flow_one; [now apply generated_derived|].
    unfold AlgSteps.pa_exposed, AlgSteps.nsga2_initialize, AlgSteps.init_population; cbn [fst snd pa_pop pa_arch].
    apply incl_app; [apply incl_r|]. apply oarch_map_incl; [eapply incl_tran; [exact A|apply incl_l]|apply incl_r].
  Qed.

  Theorem nsga2_iterate_flow tape st :
    flow_ok (pa_exposed st) (snd (nsga2_iterate tape st)) (pa_exposed (fst (nsga2_iterate tape st))).
  Proof.
    apply flow_one; [apply mate_derived, incl_l|].
    unfold AlgSteps.pa_exposed, AlgSteps.nsga2_iterate; cbn [fst snd pa_pop pa_arch].
    apply incl_app; [inc; sub|]. apply oarch_map_incl; [sub|inc; sub].
  Qed.

  Theorem plus_iterate_flow tape pop : flow_ok pop (snd (plus_iterate tape pop)) (fst (plus_iterate tape pop)).
  Proof.
    apply flow_one; [apply mate_derived, incl_refl|].
    unfold AlgSteps.plus_iterate; cbn [fst snd]. inc; sub.
  Qed.
  Definition nsga3_iterate_flow := plus_iterate_flow.
  Definition spea2_iterate_flow := plus_iterate_flow.

  (* ---- restart (AdaptiveTimeContinuation) and EpsNSGAII's step = iterate + optional restart ---- *)
  Notation restart := (restart Val Num ev T vary arch_add).
  Notation epsnsga2_step := (epsnsga2_step Val Num ev T vary survive arch_add).
  Theorem restart_flow rt st pool : incl (pa_exposed st) pool ->
    flow_ok pool (snd (restart rt st)) (pa_exposed (fst (restart rt st))).
  Proof.
    intro I. apply flow_one.
    - apply mate_derived. eapply incl_tran; [apply incl_r|exact I].
    - unfold AlgSteps.pa_exposed, AlgSteps.restart in *; cbn [fst snd pa_pop pa_arch] in *.
      assert (incl (oarch (pa_arch st)) pool) as IA by (eapply incl_tran; [apply incl_r|exact I]).
      apply incl_app; [apply incl_app; [eapply incl_tran; [exact IA|apply incl_l]|apply incl_r]|].
      apply oarch_map_incl; [eapply incl_tran; [exact IA|apply incl_l]|apply incl_r].
  Qed.

  Theorem epsnsga2_step_flow tape rt st :
    flow_ok (pa_exposed st) (snd (epsnsga2_step tape rt st)) (pa_exposed (fst (epsnsga2_step tape rt st))).
  Proof.
    unfold AlgSteps.epsnsga2_step. destruct rt as [rt|]; [|apply nsga2_iterate_flow].
    destruct (nsga2_iterate_flow tape st) as [B1 I1]. cbn [fst snd].
    destruct (restart_flow rt (fst (nsga2_iterate tape st)) _ I1) as [B2 I2].
    split; [now apply flow_app|]. now rewrite pool_after_app.
  Qed.

  (* ---- EpsMOEA ---- *)
  Notation add_to_population := (add_to_population Val Num cmp).
  Notation eps_insert := (eps_insert Val Num cmp arch_add).
  Notation epsmoea_iterate := (epsmoea_iterate Val Num ev T vary cmp arch_add).
  Lemma add_to_population_incl k s pop : incl (add_to_population k s pop) (pop ++ [s]).
  Proof.
    unfold AlgSteps.add_to_population.
    destruct (indices_where Val Num _ pop); [destruct (existsb _ pop); [apply incl_l|]|];
      (apply incl_app; [eapply incl_tran; [apply rm_nth_incl|apply incl_l]|apply incl_r]).
  Qed.
  Lemma eps_insert_incl : forall children ks pop arch,
    incl (fst (eps_insert ks children (pop, arch))) (pop ++ children) /\
    incl (snd (eps_insert ks children (pop, arch))) (arch ++ children).
  Proof.
    induction children as [|c r IH]; intros ks pop arch; simpl.
    - rewrite !app_nil_r. split; apply incl_refl.
    - destruct (IH (tl ks) (add_to_population (hd O ks) c pop) (arch_add arch c)) as [H1 H2]. split.
      + eapply incl_tran; [exact H1|]. apply incl_app; [|sub].
        eapply incl_tran; [apply add_to_population_incl|]. intros x H. apply in_app_or in H as [H|[<-|[]]]; apply in_or_app; [now left|right; now left].
      + eapply incl_tran; [exact H2|]. apply incl_app; [|sub].
        intros x H. apply arch_add_incl in H. destruct H as [<-|H]; apply in_or_app; [right; now left|now left].
  Qed.
  Theorem epsmoea_iterate_flow tp st :
    flow_ok (pa_exposed st) (snd (epsmoea_iterate tp st)) (pa_exposed (fst (epsmoea_iterate tp st))).
  Proof.
    apply flow_one.
    - apply Forall_forall. intros c H. eapply D_vary; [|exact H]. apply members_derived.
      eapply incl_tran; [apply pick_incl|]. unfold AlgSteps.pa_exposed.
      destruct (Nat.leb _ 1); [eapply incl_tran; [apply pick_incl|apply incl_l]|].
      apply incl_app; (eapply incl_tran; [apply pick_incl|]); [apply incl_l|apply incl_r].
    - unfold AlgSteps.pa_exposed, AlgSteps.epsmoea_iterate; cbn [fst snd pa_pop pa_arch AlgSteps.oarch].
      match goal with |- context[eps_insert ?ks ?ch (?p, ?a)] => destruct (eps_insert_incl ch ks p a) as [H1 H2] end.
      apply incl_app; (eapply incl_tran; [eassumption|]); sub.
  Qed.

  (* ---- GDE3 ---- *)
  Notation gde3_mate := (gde3_mate Val Num T vary).
  Notation gde3_pairs := (gde3_pairs Val Num cmp).
  Notation gde3_iterate := (gde3_iterate Val Num ev T vary cmp survive).
  Lemma gde3_pairs_incl : forall off pop, incl (gde3_pairs off pop) (off ++ pop).
  Proof.
    induction off as [|o off IH]; intros [|p pop]; simpl; try (intros x []).
    intros x H. repeat (apply in_app_or in H; destruct H as [H|H]).
    - destruct (cmp o p <=? 0); [destruct H as [<-|[]]; now left|contradiction].
    - destruct (cmp o p >=? 0); [destruct H as [<-|[]]; right; apply in_or_app; right; now left|contradiction].
    - apply IH in H. right. apply in_app_or in H as [H|H]; apply in_or_app; [now left|right; now right].
  Qed.
  Theorem gde3_iterate_flow tape pop : flow_ok pop (snd (gde3_iterate tape pop)) (fst (gde3_iterate tape pop)).
  Proof.
    apply flow_one.
    - apply Forall_forall. intros c H. unfold AlgSteps.gde3_mate in H.
      apply in_flat_map in H as (e & _ & H). eapply D_vary; [|exact H]. apply members_derived, pick_incl.
    - unfold AlgSteps.gde3_iterate; cbn [fst snd]. inc. eapply incl_tran; [apply gde3_pairs_incl|]. sub.
  Qed.

  (* ---- IBEA ---- *)
  Notation ibea_trim := (ibea_trim Val Num worst).
  Notation ibea_iterate := (ibea_iterate Val Num ev T vary worst).
  Lemma ibea_trim_incl : forall fuel size pop, incl (ibea_trim fuel size pop) pop.
  Proof.
    induction fuel as [|f IH]; intros size pop; simpl; destruct (Nat.leb (length pop) size); try apply incl_refl.
    eapply incl_tran; [apply IH|apply rm_nth_incl].
  Qed.
  Theorem ibea_iterate_flow size tape pop : flow_ok pop (snd (ibea_iterate size tape pop)) (fst (ibea_iterate size tape pop)).
  Proof.
    apply flow_one; [apply mate_derived, incl_refl|].
    unfold AlgSteps.ibea_iterate; cbn [fst snd]. apply ibea_trim_incl.
  Qed.

  (* ---- PAES ---- *)
  Notation paes_iterate := (paes_iterate Val Num ev T vary cmp test arch_add arch_added).
  Theorem paes_iterate_flow t st :
    flow_ok (pa_exposed st) (snd (paes_iterate t st)) (pa_exposed (fst (paes_iterate t st))).
  Proof.
    unfold AlgSteps.paes_iterate. destruct (pa_pop st) as [|parent rest] eqn:EP.
    - split; [exact I|apply incl_refl].
    - assert (In parent (pa_exposed st)) as HP by (unfold AlgSteps.pa_exposed; rewrite EP; now left).
      assert (Forall (derived (pa_exposed st)) (firstn 1 (vary t [parent]))) as HD.
      { apply Forall_forall. intros c H. apply firstn_incl in H. eapply D_vary; [|exact H].
        constructor; [now apply D_member|constructor]. }
      destruct (evaluate_all (firstn 1 (vary t [parent]))) as [|offspring r] eqn:EA.
      + apply flow_one; [exact HD|]. cbn [fst]. apply incl_l.
      + assert (forall x, In x (arch_add (oarch (pa_arch st)) offspring) -> In x (pa_exposed st ++ offspring :: r)) as HA.
        { intros x H. apply arch_add_incl in H. destruct H as [<-|H]; apply in_or_app; [right; left; reflexivity|left].
          unfold AlgSteps.pa_exposed. apply in_or_app. right. exact H. }
        cbn [fst snd]. apply flow_one; [exact HD|]. rewrite EA.
        destruct (cmp parent offspring =? 1).
        * unfold AlgSteps.pa_exposed; cbn [pa_pop pa_arch AlgSteps.oarch].
          intros x H. apply in_app_or in H as [[<-|[]]|H]; [apply in_or_app; right; now left|now apply HA].
        * destruct (cmp parent offspring =? 0); [|apply incl_l].
          destruct (arch_added _ offspring); unfold AlgSteps.pa_exposed; cbn [pa_pop pa_arch AlgSteps.oarch].
          -- intros x H. apply in_app_or in H as [[<-|[]]|H]; [|now apply HA].
             destruct (test _ parent offspring); apply in_or_app; [right; now left|left; exact HP].
          -- intros x H. apply in_app_or in H as [H|H]; [|now apply HA].
             apply in_or_app. left. apply in_or_app. left. rewrite EP. exact H.
  Qed.

  (* ---- PESA2 ---- *)
  Notation pesa2_iterate := (pesa2_iterate Val Num ev T vary arch_add).
  Theorem pesa2_iterate_flow tape st :
    flow_ok (pa_exposed st) (snd (pesa2_iterate tape st)) (pa_exposed (fst (pesa2_iterate tape st))).
  Proof.
    apply flow_one; [apply mate_derived, incl_r|].
    unfold AlgSteps.pa_exposed, AlgSteps.pesa2_iterate; cbn [fst snd pa_pop pa_arch AlgSteps.oarch].
    inc; sub.
  Qed.

  (* ---- ParticleSwarm / OMOPSO / SMPSO ---- *)
  Notation pso_exposed := (pso_exposed Val Num).
  Notation pso_initialize := (pso_initialize Val Num ev trunc arch_add lead_add).
  Notation pso_move := (pso_move Val Num T mutate move).
  Notation pso_iterate := (pso_iterate Val Num ev T mutate move cmp trunc arch_add lead_add).
  Lemma pso_move_derived pool tape particles : incl particles pool -> Forall (derived pool) (pso_move tape particles).
  Proof.
    intro I. apply Forall_forall. intros c H. unfold AlgSteps.pso_move in H.
    apply map2_in in H as (tt & p & _ & Hp & ->).
    assert (derived pool (move (fst tt) p)) as D by (apply D_move, D_member, I, Hp).
    destruct (snd tt); [now apply D_mutate|exact D].
  Qed.
  Theorem pso_initialize_flow injected arch0 gen : generated injected gen -> incl (oarch arch0) injected ->
    flow_ok injected (snd (pso_initialize arch0 gen)) (pso_exposed (fst (pso_initialize arch0 gen))).
  Proof.
    intros G A. apply flow_one; [now apply generated_derived|].
    unfold AlgSteps.pso_exposed, AlgSteps.pso_initialize; cbn [fst snd ps_particles ps_local ps_leaders ps_arch].
    apply incl_app; [apply incl_r|]. apply incl_app; [apply incl_r|]. apply incl_app.
    - inc. apply incl_r.
    - apply oarch_map_incl; [eapply incl_tran; [exact A|apply incl_l]|apply incl_r].
  Qed.
  Theorem pso_iterate_flow tape st :
    flow_ok (pso_exposed st) (snd (pso_iterate tape st)) (pso_exposed (fst (pso_iterate tape st))).
  Proof.
    apply flow_one; [apply pso_move_derived, incl_l|].
    unfold AlgSteps.pso_exposed, AlgSteps.pso_iterate; cbn [fst snd ps_particles ps_local ps_leaders ps_arch].
    apply incl_app; [apply incl_r|]. apply incl_app; [|apply incl_app].
    - intros x H. apply map2_in in H as (p & lb & Hp & Hl & ->).
      destruct (cmp p lb <=? 0); repeat rewrite in_app_iff; auto.
    - inc; sub.
    - apply oarch_map_incl; [sub|apply incl_r].
  Qed.

  (* ---- CMAES ---- *)
  Notation cmaes_iterate := (cmaes_iterate Val Num ev T sample sortf arch_add).
  Theorem cmaes_iterate_flow ts st :
    flow_ok (pa_exposed st) (snd (cmaes_iterate ts st)) (pa_exposed (fst (cmaes_iterate ts st))).
  Proof.
    apply flow_one.
    - apply Forall_forall. intros c H. apply in_map_iff in H as (t & <- & _). apply D_sample.
    - unfold AlgSteps.pa_exposed, AlgSteps.cmaes_iterate; cbn [fst snd pa_pop pa_arch AlgSteps.oarch]. inc; sub.
  Qed.
  (* ---- the same data flow attribute by attribute: what the rules of [iter_rules] / [init_rules] say about a logged step ---- *)
  Lemma ga_population_flow tape st :
    incl (ga_pop (fst (ga_iterate tape st))) (evaluate_all (mate tape (ga_pop st)) ++ ga_fittest st) /\
    incl (ga_fittest (fst (ga_iterate tape st))) (ga_pop (fst (ga_iterate tape st))).
  Proof. unfold AlgSteps.ga_iterate; cbn [fst ga_pop ga_fittest]. split; [apply survive_incl|apply firstn_incl]. Qed.
  Lemma nsga2_population_flow tape st :
    incl (pa_pop (fst (nsga2_iterate tape st))) (evaluate_all (mate tape (pa_pop st)) ++ pa_pop st).
  Proof. unfold AlgSteps.nsga2_iterate; cbn [fst pa_pop]. apply survive_incl. Qed.
  Lemma nsga2_archive_flow tape st :
    incl (oarch (pa_arch (fst (nsga2_iterate tape st)))) (oarch (pa_arch st) ++ pa_pop (fst (nsga2_iterate tape st))).
  Proof.
    unfold AlgSteps.nsga2_iterate; cbn [fst pa_pop pa_arch]. apply oarch_map_incl; [apply incl_l|apply incl_r].
  Qed.
  Lemma pesa2_population_flow tape st :
    pa_pop (fst (pesa2_iterate tape st)) = evaluate_all (mate tape (oarch (pa_arch st))) /\
    incl (oarch (pa_arch (fst (pesa2_iterate tape st)))) (oarch (pa_arch st) ++ pa_pop (fst (pesa2_iterate tape st))).
  Proof. unfold AlgSteps.pesa2_iterate; cbn [fst pa_pop pa_arch AlgSteps.oarch]. split; [reflexivity|apply arch_extend_incl]. Qed.
  Lemma cmaes_population_flow ts st :
    incl (pa_pop (fst (cmaes_iterate ts st))) (evaluate_all (map sample ts)) /\
    incl (oarch (pa_arch (fst (cmaes_iterate ts st)))) (oarch (pa_arch st) ++ evaluate_all (map sample ts)).
  Proof. unfold AlgSteps.cmaes_iterate; cbn [fst pa_pop pa_arch AlgSteps.oarch]. split; [apply sortf_incl|apply arch_extend_incl]. Qed.
  Lemma pso_attribute_flow tape st :
    let st' := fst (pso_iterate tape st) in
    ps_particles st' = evaluate_all (pso_move tape (ps_particles st)) /\
    (forall x, In x (ps_local st') -> In x (ps_particles st') \/ In x (ps_local st)) /\
    incl (ps_leaders st') (ps_leaders st ++ ps_particles st') /\
    incl (oarch (ps_arch st')) (oarch (ps_arch st) ++ ps_particles st').
  Proof.
    unfold AlgSteps.pso_iterate; cbn [fst ps_particles ps_local ps_leaders ps_arch]. repeat split.
    - intros x H. apply map2_in in H as (p & lb & Hp & Hl & ->). destruct (cmp p lb <=? 0); auto.
    - eapply incl_tran; [apply trunc_incl|apply lead_extend_incl].
    - apply oarch_map_incl; [apply incl_l|apply incl_r].
  Qed.

  (* ---- every modelled step is a step of the skeleton (C01) ---- *)
  Corollary ga_initialize_step_ok injected gen (Hg : generated injected gen) : Forall (fun s => evaluated s = true) (injected) ->
    step_ok ev (injected) (mkStep (snd (ga_initialize gen)) (ga_exposed (fst (ga_initialize gen)))).
  Proof. intro H. apply flow_step_ok; [exact H|exact (ga_initialize_flow injected gen Hg)]. Qed.

  Corollary ga_step_ok tape st  : Forall (fun s => evaluated s = true) (ga_exposed st) ->
    step_ok ev (ga_exposed st) (mkStep (snd (ga_iterate tape st)) (ga_exposed (fst (ga_iterate tape st)))).
  Proof. intro H. apply flow_step_ok; [exact H|exact (ga_iterate_flow tape st)]. Qed.

  Corollary es_step_ok ts pop  : Forall (fun s => evaluated s = true) (pop) ->
    step_ok ev (pop) (mkStep (snd (es_iterate ts pop)) (fst (es_iterate ts pop))).
  Proof. intro H. apply flow_step_ok; [exact H|exact (es_iterate_flow ts pop)]. Qed.

  Corollary nsga2_initialize_step_ok injected arch0 gen (Hg : generated injected gen) (Ha : incl (oarch arch0) injected) : Forall (fun s => evaluated s = true) (injected) ->
    step_ok ev (injected) (mkStep (snd (nsga2_initialize arch0 gen)) (pa_exposed (fst (nsga2_initialize arch0 gen)))).
  Proof. intro H. apply flow_step_ok; [exact H|exact (nsga2_initialize_flow injected arch0 gen Hg Ha)]. Qed.

  Corollary nsga2_step_ok tape st  : Forall (fun s => evaluated s = true) (pa_exposed st) ->
    step_ok ev (pa_exposed st) (mkStep (snd (nsga2_iterate tape st)) (pa_exposed (fst (nsga2_iterate tape st)))).
  Proof. intro H. apply flow_step_ok; [exact H|exact (nsga2_iterate_flow tape st)]. Qed.

  Corollary nsga3_step_ok tape pop  : Forall (fun s => evaluated s = true) (pop) ->
    step_ok ev (pop) (mkStep (snd (plus_iterate tape pop)) (fst (plus_iterate tape pop))).
  Proof. intro H. apply flow_step_ok; [exact H|exact (plus_iterate_flow tape pop)]. Qed.

  Corollary spea2_step_ok tape pop  : Forall (fun s => evaluated s = true) (pop) ->
    step_ok ev (pop) (mkStep (snd (plus_iterate tape pop)) (fst (plus_iterate tape pop))).
  Proof. intro H. apply flow_step_ok; [exact H|exact (plus_iterate_flow tape pop)]. Qed.

  Corollary epsnsga2_step_ok tape rt st  : Forall (fun s => evaluated s = true) (pa_exposed st) ->
    step_ok ev (pa_exposed st) (mkStep (snd (epsnsga2_step tape rt st)) (pa_exposed (fst (epsnsga2_step tape rt st)))).
  Proof. intro H. apply flow_step_ok; [exact H|exact (epsnsga2_step_flow tape rt st)]. Qed.

  Corollary restart_step_ok rt st  : Forall (fun s => evaluated s = true) (pa_exposed st) ->
    step_ok ev (pa_exposed st) (mkStep (snd (restart rt st)) (pa_exposed (fst (restart rt st)))).
  Proof. intro H. apply flow_step_ok; [exact H|exact (restart_flow rt st (pa_exposed st) (incl_refl _))]. Qed.

  Corollary epsmoea_step_ok tp st  : Forall (fun s => evaluated s = true) (pa_exposed st) ->
    step_ok ev (pa_exposed st) (mkStep (snd (epsmoea_iterate tp st)) (pa_exposed (fst (epsmoea_iterate tp st)))).
  Proof. intro H. apply flow_step_ok; [exact H|exact (epsmoea_iterate_flow tp st)]. Qed.

  Corollary gde3_step_ok tape pop  : Forall (fun s => evaluated s = true) (pop) ->
    step_ok ev (pop) (mkStep (snd (gde3_iterate tape pop)) (fst (gde3_iterate tape pop))).
  Proof. intro H. apply flow_step_ok; [exact H|exact (gde3_iterate_flow tape pop)]. Qed.

  Corollary ibea_step_ok size tape pop  : Forall (fun s => evaluated s = true) (pop) ->
    step_ok ev (pop) (mkStep (snd (ibea_iterate size tape pop)) (fst (ibea_iterate size tape pop))).
  Proof. intro H. apply flow_step_ok; [exact H|exact (ibea_iterate_flow size tape pop)]. Qed.

  Corollary paes_step_ok t st  : Forall (fun s => evaluated s = true) (pa_exposed st) ->
    step_ok ev (pa_exposed st) (mkStep (snd (paes_iterate t st)) (pa_exposed (fst (paes_iterate t st)))).
  Proof. intro H. apply flow_step_ok; [exact H|exact (paes_iterate_flow t st)]. Qed.

  Corollary pesa2_step_ok tape st  : Forall (fun s => evaluated s = true) (pa_exposed st) ->
    step_ok ev (pa_exposed st) (mkStep (snd (pesa2_iterate tape st)) (pa_exposed (fst (pesa2_iterate tape st)))).
  Proof. intro H. apply flow_step_ok; [exact H|exact (pesa2_iterate_flow tape st)]. Qed.

  Corollary pso_initialize_step_ok injected arch0 gen (Hg : generated injected gen) (Ha : incl (oarch arch0) injected) : Forall (fun s => evaluated s = true) (injected) ->
    step_ok ev (injected) (mkStep (snd (pso_initialize arch0 gen)) (pso_exposed (fst (pso_initialize arch0 gen)))).
  Proof. intro H. apply flow_step_ok; [exact H|exact (pso_initialize_flow injected arch0 gen Hg Ha)]. Qed.

  Corollary pso_step_ok tape st  : Forall (fun s => evaluated s = true) (pso_exposed st) ->
    step_ok ev (pso_exposed st) (mkStep (snd (pso_iterate tape st)) (pso_exposed (fst (pso_iterate tape st)))).
  Proof. intro H. apply flow_step_ok; [exact H|exact (pso_iterate_flow tape st)]. Qed.

  Corollary cmaes_step_ok ts st  : Forall (fun s => evaluated s = true) (pa_exposed st) ->
    step_ok ev (pa_exposed st) (mkStep (snd (cmaes_iterate ts st)) (pa_exposed (fst (cmaes_iterate ts st)))).
  Proof. intro H. apply flow_step_ok; [exact H|exact (cmaes_iterate_flow ts st)]. Qed.

  (* ---- MOEAD ---- *)
  Variable arity : nat.
  Variable eta : nat.
  Notation update_solution := (update_solution Val Num better eta).
  Notation moead_iterate := (moead_iterate Val Num ev T vary better arity eta).
  Lemma update_solution_incl child : forall mating c pop, incl (update_solution child mating c pop) (child :: pop).
  Proof.
    induction mating as [|i r IH]; intros c pop; simpl; [apply incl_tl, incl_refl|].
    set (replace := match nth_error pop i with Some cand => better child cand i | None => false end).
    assert (incl (if replace then set_nth i child pop else pop) (child :: pop)) as H.
    { destruct replace; [apply set_nth_incl|apply incl_tl, incl_refl]. }
    destruct (Nat.leb eta _); [exact H|]. eapply incl_tran; [apply IH|].
    intros x [<-|Hx]; [now left|now apply H].
  Qed.
  Lemma update_fold_incl mating : forall after pop,
    incl (fold_left (fun p child => update_solution child mating O p) after pop) (pop ++ after).
  Proof.
    induction after as [|a r IH]; intro pop; simpl; [rewrite app_nil_r; apply incl_refl|].
    eapply incl_tran; [apply IH|]. apply incl_app; [|sub].
    eapply incl_tran; [apply update_solution_incl|]. intros x [<-|H]; apply in_or_app; [right; now left|now left].
  Qed.
  Lemma moead_flow : forall items pop pool, incl pop pool ->
    flow_batches pool (snd (moead_iterate items pop)) /\
    incl (fst (moead_iterate items pop)) (pool_after pool (snd (moead_iterate items pop))).
  Proof.
    induction items as [|it r IH]; intros pop pool I; simpl; [split; [exact Logic.I|exact I]|].
    set (offspring := vary (m_draw it) (pick (m_index it :: firstn (arity - 1) (m_mating it)) pop)).
    set (pop1 := fold_left (fun p child => update_solution child (m_mating it) O p) (evaluate_all offspring) pop).
    assert (incl pop1 (pool ++ evaluate_all offspring)) as I1.
    { eapply incl_tran; [apply update_fold_incl|]. apply incl_app; [eapply incl_tran; [exact I|apply incl_l]|apply incl_r]. }
    destruct (IH pop1 _ I1) as [B E]. split; [|exact E].
    split; [|split; [reflexivity|exact B]].
    apply Forall_forall. intros c H. eapply D_vary; [|exact H]. apply members_derived.
    eapply incl_tran; [exact (pick_incl (m_index it :: firstn (arity - 1) (m_mating it)) pop)|exact I].
  Qed.
  Theorem moead_iterate_flow items pop : flow_ok pop (snd (moead_iterate items pop)) (fst (moead_iterate items pop)).
  Proof. apply moead_flow, incl_refl. Qed.


  Corollary moead_step_ok items pop  : Forall (fun s => evaluated s = true) (pop) ->
    step_ok ev (pop) (mkStep (snd (moead_iterate items pop)) (fst (moead_iterate items pop))).
  Proof. intro H. apply flow_step_ok; [exact H|exact (moead_iterate_flow items pop)]. Qed.

  (* ================= C07 on the same models ================= *)
  Variable dom_enc : Ty -> Val -> Prop.
  Variable dom_dec : Ty -> Val -> Prop.
  Notation EncOK := (EncOK Val Num Ty types dom_enc).
  Notation InDomain := (InDomain Val Ty types dom_dec).
  Notation calls_of := (calls_of Val Num Ty decode types).
  Hypothesis decode_dom : forall t v, In t types -> dom_enc t v -> dom_dec t (decode t v).       (* c07_decode_in_domain *)
  Hypothesis encode_dom : forall t v, In t types -> dom_dec t v -> dom_enc t (encode t v).       (* c07_encode_in_domain *)
  Hypothesis vary_dom : forall t ps c, Forall EncOK ps -> In c (vary t ps) -> EncOK c.          (* C06 validity *)
  Hypothesis mutate_dom : forall t p, EncOK p -> EncOK (mutate t p).                            (* C06 validity *)
  Hypothesis move_dom : forall t p, EncOK p -> EncOK (move t p).                                (* c07_pso_update_positions_in_domain, non-NaN candidate *)
  Hypothesis sample_dom : forall t, EncOK (sample t).                                           (* c07_cmaes_sample_in_domain, non-NaN candidate *)
  Hypothesis gen_dom : forall s, Gen s -> EncOK s.                                              (* c07_rand_*_in_domain *)

  (* the producers of the models as an operator relation of the skeleton *)
  Definition OpM (ps : list sol) (c : sol) : Prop :=
    (exists t, In c (vary t ps)) \/
    (exists t p, ps = [p] /\ (c = mutate t p \/ c = move t p)) \/
    (ps = [] /\ ((exists t, c = sample t) \/ Gen c)).
  Notation producedD := (producedD Val Num OpM).

  Lemma OpM_dom ps c : Forall EncOK ps -> OpM ps c -> EncOK c.
  Proof.
    intros H [(t & Hc)|[(t & p & -> & [->| ->])|(-> & [(t & ->)|G])]].
    - eapply vary_dom; eauto.
    - apply mutate_dom. now inversion H.
    - apply move_dom. now inversion H.
    - apply sample_dom.
    - now apply gen_dom.
  Qed.

  Lemma derived_producedD pool s : derived pool s -> producedD pool s.
  Proof.
    apply (derived_ind' pool (producedD pool)).
    - apply PD_member.
    - intros t ps c _ IH Hc. apply (PD_op Val Num OpM pool ps c IH). left. now exists t.
    - intros t p _ IH. apply (PD_op Val Num OpM pool [p]); [now constructor|]. right. left. exists t, p. auto.
    - intros t p _ IH. apply (PD_op Val Num OpM pool [p]); [now constructor|]. right. left. exists t, p. auto.
    - intro t. apply (PD_op Val Num OpM pool []); [constructor|]. right. right. split; [reflexivity|left; now exists t].
    - intros x G. apply (PD_op Val Num OpM pool []); [constructor|]. right. right. split; [reflexivity|now right].
  Qed.

  Lemma flow_batchesD : forall bs pool, flow_batches pool bs -> batchesD_ok Val Num OpM ev pool bs.
  Proof.
    induction bs as [|b bs IH]; intros pool H; simpl in *; [exact I|].
    destruct H as (H1 & H2 & H3). split; [|now apply IH]. split; [|exact H2].
    eapply Forall_impl; [|exact H1]. apply derived_producedD.
  Qed.

  (* a model step is a step of C07's skeleton *)
  Theorem flow_stepD_ok pool bs exposed' : flow_ok pool bs exposed' -> stepD_ok Val Num OpM ev pool (mkStep bs exposed').
  Proof. intros [B I]. split; [now apply flow_batchesD|exact I]. Qed.

  Lemma flow_submitted : forall bs pool, Forall EncOK pool -> flow_batches pool bs ->
    Forall (fun b => Forall EncOK (b_before b)) bs.
  Proof.
    induction bs as [|b bs IH]; intros pool HP H; simpl in *; constructor; destruct H as (H1 & H2 & H3).
    - apply (submitted_in_domain Val Num Ty decode encode F C nabs nadd nzero niszero types dom_enc dom_dec OpM
               decode_dom encode_dom OpM_dom ev pool b ev_ok HP).
      split; [|exact H2]. eapply Forall_impl; [|exact H1]. apply derived_producedD.
    - apply (IH (pool ++ b_after b)); [|exact H3]. apply Forall_app. split; [exact HP|]. rewrite H2.
      apply (evaluate_all_encok Val Num Ty decode encode F C nabs nadd nzero niszero types dom_enc dom_dec decode_dom encode_dom ev _ ev_ok).
      apply (submitted_in_domain Val Num Ty decode encode F C nabs nadd nzero niszero types dom_enc dom_dec OpM
               decode_dom encode_dom OpM_dom ev pool b ev_ok HP).
      split; [|exact H2]. eapply Forall_impl; [|exact H1]. apply derived_producedD.
  Qed.

  (* every solution a model step hands to evaluate_all is in the encoded domain, every argument vector
     the user function receives is in the domain, and everything exposed afterwards is in the encoded domain *)
  Theorem flow_in_domain pool bs exposed' : Forall EncOK pool -> flow_ok pool bs exposed' ->
    Forall (fun b => Forall EncOK (b_before b)) bs /\
    Forall InDomain (flat_map calls_of bs) /\
    Forall EncOK exposed'.
  Proof.
    intros HP [B I]. split; [eapply flow_submitted; eauto|].
    destruct (batchesD_dom Val Num Ty decode encode F C nabs nadd nzero niszero types dom_enc dom_dec OpM
                decode_dom encode_dom OpM_dom ev ev_ok bs pool HP (flow_batchesD bs pool B)) as [H1 H2].
    split; [exact H1|]. rewrite Forall_forall in *. intros x Hx. apply H2, I, Hx.
  Qed.

  (* ---- every modelled step keeps the user function's arguments in the domain (C07) ---- *)
  Corollary ga_initialize_step_in_domain injected gen (Hg : generated injected gen) : Forall EncOK (injected) ->
    Forall (fun b => Forall EncOK (b_before b)) (snd (ga_initialize gen)) /\
    Forall InDomain (flat_map calls_of (snd (ga_initialize gen))) /\
    Forall EncOK (ga_exposed (fst (ga_initialize gen))).
  Proof. intro H. apply (flow_in_domain (injected)); [exact H|exact (ga_initialize_flow injected gen Hg)]. Qed.

  Corollary ga_step_in_domain tape st  : Forall EncOK (ga_exposed st) ->
    Forall (fun b => Forall EncOK (b_before b)) (snd (ga_iterate tape st)) /\
    Forall InDomain (flat_map calls_of (snd (ga_iterate tape st))) /\
    Forall EncOK (ga_exposed (fst (ga_iterate tape st))).
  Proof. intro H. apply (flow_in_domain (ga_exposed st)); [exact H|exact (ga_iterate_flow tape st)]. Qed.

  Corollary es_step_in_domain ts pop  : Forall EncOK (pop) ->
    Forall (fun b => Forall EncOK (b_before b)) (snd (es_iterate ts pop)) /\
    Forall InDomain (flat_map calls_of (snd (es_iterate ts pop))) /\
    Forall EncOK (fst (es_iterate ts pop)).
  Proof. intro H. apply (flow_in_domain (pop)); [exact H|exact (es_iterate_flow ts pop)]. Qed.

  Corollary nsga2_initialize_step_in_domain injected arch0 gen (Hg : generated injected gen) (Ha : incl (oarch arch0) injected) : Forall EncOK (injected) ->
    Forall (fun b => Forall EncOK (b_before b)) (snd (nsga2_initialize arch0 gen)) /\
    Forall InDomain (flat_map calls_of (snd (nsga2_initialize arch0 gen))) /\
    Forall EncOK (pa_exposed (fst (nsga2_initialize arch0 gen))).
  Proof. intro H. apply (flow_in_domain (injected)); [exact H|exact (nsga2_initialize_flow injected arch0 gen Hg Ha)]. Qed.

  Corollary nsga2_step_in_domain tape st  : Forall EncOK (pa_exposed st) ->
    Forall (fun b => Forall EncOK (b_before b)) (snd (nsga2_iterate tape st)) /\
    Forall InDomain (flat_map calls_of (snd (nsga2_iterate tape st))) /\
    Forall EncOK (pa_exposed (fst (nsga2_iterate tape st))).
  Proof. intro H. apply (flow_in_domain (pa_exposed st)); [exact H|exact (nsga2_iterate_flow tape st)]. Qed.

  Corollary nsga3_step_in_domain tape pop  : Forall EncOK (pop) ->
    Forall (fun b => Forall EncOK (b_before b)) (snd (plus_iterate tape pop)) /\
    Forall InDomain (flat_map calls_of (snd (plus_iterate tape pop))) /\
    Forall EncOK (fst (plus_iterate tape pop)).
  Proof. intro H. apply (flow_in_domain (pop)); [exact H|exact (plus_iterate_flow tape pop)]. Qed.

  Corollary spea2_step_in_domain tape pop  : Forall EncOK (pop) ->
    Forall (fun b => Forall EncOK (b_before b)) (snd (plus_iterate tape pop)) /\
    Forall InDomain (flat_map calls_of (snd (plus_iterate tape pop))) /\
    Forall EncOK (fst (plus_iterate tape pop)).
  Proof. intro H. apply (flow_in_domain (pop)); [exact H|exact (plus_iterate_flow tape pop)]. Qed.

  Corollary epsnsga2_step_in_domain tape rt st  : Forall EncOK (pa_exposed st) ->
    Forall (fun b => Forall EncOK (b_before b)) (snd (epsnsga2_step tape rt st)) /\
    Forall InDomain (flat_map calls_of (snd (epsnsga2_step tape rt st))) /\
    Forall EncOK (pa_exposed (fst (epsnsga2_step tape rt st))).
  Proof. intro H. apply (flow_in_domain (pa_exposed st)); [exact H|exact (epsnsga2_step_flow tape rt st)]. Qed.

  Corollary restart_step_in_domain rt st  : Forall EncOK (pa_exposed st) ->
    Forall (fun b => Forall EncOK (b_before b)) (snd (restart rt st)) /\
    Forall InDomain (flat_map calls_of (snd (restart rt st))) /\
    Forall EncOK (pa_exposed (fst (restart rt st))).
  Proof. intro H. apply (flow_in_domain (pa_exposed st)); [exact H|exact (restart_flow rt st (pa_exposed st) (incl_refl _))]. Qed.

  Corollary epsmoea_step_in_domain tp st  : Forall EncOK (pa_exposed st) ->
    Forall (fun b => Forall EncOK (b_before b)) (snd (epsmoea_iterate tp st)) /\
    Forall InDomain (flat_map calls_of (snd (epsmoea_iterate tp st))) /\
    Forall EncOK (pa_exposed (fst (epsmoea_iterate tp st))).
  Proof. intro H. apply (flow_in_domain (pa_exposed st)); [exact H|exact (epsmoea_iterate_flow tp st)]. Qed.

  Corollary gde3_step_in_domain tape pop  : Forall EncOK (pop) ->
    Forall (fun b => Forall EncOK (b_before b)) (snd (gde3_iterate tape pop)) /\
    Forall InDomain (flat_map calls_of (snd (gde3_iterate tape pop))) /\
    Forall EncOK (fst (gde3_iterate tape pop)).
  Proof. intro H. apply (flow_in_domain (pop)); [exact H|exact (gde3_iterate_flow tape pop)]. Qed.

  Corollary ibea_step_in_domain size tape pop  : Forall EncOK (pop) ->
    Forall (fun b => Forall EncOK (b_before b)) (snd (ibea_iterate size tape pop)) /\
    Forall InDomain (flat_map calls_of (snd (ibea_iterate size tape pop))) /\
    Forall EncOK (fst (ibea_iterate size tape pop)).
  Proof. intro H. apply (flow_in_domain (pop)); [exact H|exact (ibea_iterate_flow size tape pop)]. Qed.

  Corollary paes_step_in_domain t st  : Forall EncOK (pa_exposed st) ->
    Forall (fun b => Forall EncOK (b_before b)) (snd (paes_iterate t st)) /\
    Forall InDomain (flat_map calls_of (snd (paes_iterate t st))) /\
    Forall EncOK (pa_exposed (fst (paes_iterate t st))).
  Proof. intro H. apply (flow_in_domain (pa_exposed st)); [exact H|exact (paes_iterate_flow t st)]. Qed.

  Corollary pesa2_step_in_domain tape st  : Forall EncOK (pa_exposed st) ->
    Forall (fun b => Forall EncOK (b_before b)) (snd (pesa2_iterate tape st)) /\
    Forall InDomain (flat_map calls_of (snd (pesa2_iterate tape st))) /\
    Forall EncOK (pa_exposed (fst (pesa2_iterate tape st))).
  Proof. intro H. apply (flow_in_domain (pa_exposed st)); [exact H|exact (pesa2_iterate_flow tape st)]. Qed.

  Corollary pso_initialize_step_in_domain injected arch0 gen (Hg : generated injected gen) (Ha : incl (oarch arch0) injected) : Forall EncOK (injected) ->
    Forall (fun b => Forall EncOK (b_before b)) (snd (pso_initialize arch0 gen)) /\
    Forall InDomain (flat_map calls_of (snd (pso_initialize arch0 gen))) /\
    Forall EncOK (pso_exposed (fst (pso_initialize arch0 gen))).
  Proof. intro H. apply (flow_in_domain (injected)); [exact H|exact (pso_initialize_flow injected arch0 gen Hg Ha)]. Qed.

  Corollary pso_step_in_domain tape st  : Forall EncOK (pso_exposed st) ->
    Forall (fun b => Forall EncOK (b_before b)) (snd (pso_iterate tape st)) /\
    Forall InDomain (flat_map calls_of (snd (pso_iterate tape st))) /\
    Forall EncOK (pso_exposed (fst (pso_iterate tape st))).
  Proof. intro H. apply (flow_in_domain (pso_exposed st)); [exact H|exact (pso_iterate_flow tape st)]. Qed.

  Corollary cmaes_step_in_domain ts st  : Forall EncOK (pa_exposed st) ->
    Forall (fun b => Forall EncOK (b_before b)) (snd (cmaes_iterate ts st)) /\
    Forall InDomain (flat_map calls_of (snd (cmaes_iterate ts st))) /\
    Forall EncOK (pa_exposed (fst (cmaes_iterate ts st))).
  Proof. intro H. apply (flow_in_domain (pa_exposed st)); [exact H|exact (cmaes_iterate_flow ts st)]. Qed.

  Corollary moead_step_in_domain items pop  : Forall EncOK (pop) ->
    Forall (fun b => Forall EncOK (b_before b)) (snd (moead_iterate items pop)) /\
    Forall InDomain (flat_map calls_of (snd (moead_iterate items pop))) /\
    Forall EncOK (fst (moead_iterate items pop)).
  Proof. intro H. apply (flow_in_domain (pop)); [exact H|exact (moead_iterate_flow items pop)]. Qed.
End AlgStepsProofs.

(* what a [Sub] rule that the checker accepted means *)
Lemma sub_rule_sound {S} (eqb : S -> S -> bool) (ident : S -> nat) (old new : amap S) afters a srcs :
  (forall x y, eqb x y = true -> x = y) ->
  rule_ok S eqb ident old new afters (Sub a srcs) = true ->
  forall x, In x (lookup S a new) -> exists s, In s srcs /\ In x (src_sols S old new afters s).
Proof.
  intros E H x Hx. simpl in H. rewrite forallb_forall in H. specialize (H x Hx).
  apply existsb_exists in H as (s & Hs & M). exists s. split; [exact Hs|].
  unfold smem in M. apply existsb_exists in M as (y & Hy & Exy). apply E in Exy. now subst.
Qed.

(* what an accepted [Fresh] rule means: the new objects are not among the objects exposed before *)
Lemma fresh_rule_sound {S} (eqb : S -> S -> bool) (ident : S -> nat) (old new : amap S) afters a :
  rule_ok S eqb ident old new afters (Fresh a) = true ->
  forall x y, In x (lookup S a new) -> In y (flat_map snd old) -> ident x <> ident y.
Proof.
  intros H x y Hx Hy E. simpl in H. rewrite forallb_forall in H. specialize (H x Hx).
  apply negb_true_iff in H. assert (existsb (fun y0 => Nat.eqb (ident x) (ident y0)) (flat_map snd old) = true) as C.
  { apply existsb_exists. exists y. split; [exact Hy|]. now apply Nat.eqb_eq. }
  congruence.
Qed.

(* ------------------------------------------------------------------------- *)
(* Non-vacuity: the contracts are jointly satisfiable (a concrete instantiation
   over the executable carrier: operators that copy, a position update and a
   sampler that clear the flag, truncation by firstn, archive insertion by cons) *)
(* ------------------------------------------------------------------------- *)
Module StepExamples.
  Definition tys := [TInteger 0 5 3%nat].
  Definition tab : list ev_call := [([VInt 2], ([NFin 1 1], [])); ([VInt 3], ([NFin 3 0], []))].
  Definition evx := ev_inplace ev_val ev_num ev_ty ev_decode ev_encode (ev_lookup tab) [] ev_abs ev_add ev_zero ev_iszero tys.
  Definition varyx (t : nat) (ps : list ev_sol) : list ev_sol := map (deepcopy ev_val ev_num t) ps.
  Definition mutatex (t : nat) (p : ev_sol) : ev_sol := deepcopy ev_val ev_num t p.
  Definition movex (t : nat) (p : ev_sol) : ev_sol := mkSol t (vars p) (objs p) (cons p) (cv p) (feasible p) false.
  Definition samplex (t : nat) : ev_sol := mkSol t [VBits [false; true; false]] [] [] ev_zero false false.
  Definition Genx (s : ev_sol) : Prop := evaluated s = false.
  Definition cmpx (a b : ev_sol) : Z := 0.

  Lemma evx_spec : ev_spec ev_val ev_num ev_ty ev_decode ev_encode (ev_lookup tab) [] ev_abs ev_add ev_zero ev_iszero tys evx.
  Proof. apply ev_inplace_spec. Qed.
  Lemma varyx_flag : forall t ps c, In c (varyx t ps) -> exists p, In p ps /\ flag_discipline ev_val ev_num p c.
  Proof.
    intros t ps c H. apply in_map_iff in H as (p & <- & I). exists p. split; [exact I|].
    intros _. apply deepcopy_same_fields.
  Qed.
  Lemma mutatex_flag : forall t p, flag_discipline ev_val ev_num p (mutatex t p).
  Proof. intros t p _. apply deepcopy_same_fields. Qed.

  (* NSGA-II with an archive, one step, for every tape and state *)
  Example nsga2_contracts_satisfiable : forall tape st,
    Forall (fun s : ev_sol => evaluated s = true) (pa_exposed ev_val ev_num st) ->
    step_ok ev_val ev_num evx (pa_exposed ev_val ev_num st)
      (mkStep (snd (nsga2_iterate ev_val ev_num evx nat varyx (firstn 2) (fun a s => s :: a) tape st))
              (pa_exposed ev_val ev_num (fst (nsga2_iterate ev_val ev_num evx nat varyx (firstn 2) (fun a s => s :: a) tape st)))).
  Proof.
    intros tape st.
    apply (nsga2_step_ok ev_val ev_num ev_ty ev_decode ev_encode (ev_lookup tab) [] ev_abs ev_add ev_zero ev_iszero tys evx nat
             varyx mutatex movex samplex Genx (firstn 2) (fun a s => s :: a) evx_spec varyx_flag mutatex_flag).
    - reflexivity.
    - reflexivity.
    - intros s G. exact G.
    - intro l. apply firstn_incl.
    - intros a s. apply incl_refl.
  Qed.

  (* a particle swarm step *)
  Example pso_contracts_satisfiable : forall tape st,
    Forall (fun s : ev_sol => evaluated s = true) (pso_exposed ev_val ev_num st) ->
    step_ok ev_val ev_num evx (pso_exposed ev_val ev_num st)
      (mkStep (snd (pso_iterate ev_val ev_num evx nat mutatex movex cmpx (firstn 2) (fun a s => s :: a) (fun a s => s :: a) tape st))
              (pso_exposed ev_val ev_num (fst (pso_iterate ev_val ev_num evx nat mutatex movex cmpx (firstn 2) (fun a s => s :: a) (fun a s => s :: a) tape st)))).
  Proof.
    intros tape st.
    apply (pso_step_ok ev_val ev_num ev_ty ev_decode ev_encode (ev_lookup tab) [] ev_abs ev_add ev_zero ev_iszero tys evx nat
             varyx mutatex movex samplex Genx cmpx (firstn 2) (fun a s => s :: a) (fun a s => s :: a) evx_spec varyx_flag mutatex_flag).
    - reflexivity.
    - reflexivity.
    - intros s G. exact G.
    - intro l. apply firstn_incl.
    - intros a s. apply incl_refl.
    - intros a s. apply incl_refl.
  Qed.

  (* a concrete run of the NSGA-II model: the population [s] (evaluated), one offspring that is an untouched copy *)
  Definition s1 : ev_sol := mkSol 0%nat [VBits [false; true; true]] [NFin 1 1] [] ev_zero true true.
  Example nsga2_concrete :
    pa_exposed ev_val ev_num
      (fst (nsga2_iterate ev_val ev_num evx nat varyx (firstn 2) (fun a s => s :: a) [([0%nat], 7%nat)] (mkPa [s1] (Some []))))
    = [deepcopy ev_val ev_num 7 s1; s1; s1; deepcopy ev_val ev_num 7 s1].
  Proof. vm_compute. reflexivity. Qed.
End StepExamples.
