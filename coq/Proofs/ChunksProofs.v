(* Proofs/ChunksProofs.v — _chunks preserves order, yields the trailing partial
   chunk, and all chunks but the last have exactly n elements. *)
From Coq Require Import ZArith List Lia.
Import ListNotations.
From PV Require Import Model.Chunks.
Open Scope Z_scope.

Section ChunksProofs.
  Variable A : Type.
  Implicit Types (l acc : list A) (n : Z).

  Lemma chunks_aux_concat : forall l n acc, concat (chunks_aux n acc l) = acc ++ l.
  Proof.
    induction l as [|x r IH]; intros n acc; simpl.
    - destruct acc; simpl; rewrite ?app_nil_r; reflexivity.
    - destruct (Z.of_nat (length (acc ++ [x])) =? n); simpl; rewrite IH; simpl;
        rewrite <- ?app_assoc; reflexivity.
  Qed.

  (* order and content are preserved: nothing dropped, nothing duplicated *)
  Lemma chunks_concat : forall n l, concat (chunks n l) = l.
  Proof. intros n l. unfold chunks. rewrite chunks_aux_concat. reflexivity. Qed.

  Lemma chunks_aux_nonempty : forall l n acc, Forall (fun c => c <> []) (chunks_aux n acc l).
  Proof.
    induction l as [|x r IH]; intros n acc; simpl.
    - destruct acc; constructor; [discriminate|constructor].
    - destruct (Z.of_nat (length (acc ++ [x])) =? n).
      + constructor; [destruct acc; discriminate|apply IH].
      + apply IH.
  Qed.

  Lemma chunks_nonempty : forall n l, Forall (fun c => c <> []) (chunks n l).
  Proof. intros; apply chunks_aux_nonempty. Qed.

  Lemma chunks_aux_sizes : forall l n acc, Z.of_nat (length acc) < n ->
    forall pre last, chunks_aux n acc l = pre ++ [last] ->
      Forall (fun c => Z.of_nat (length c) = n) pre /\ 0 < Z.of_nat (length last) <= n.
  Proof.
    induction l as [|x r IH]; intros n acc Hacc pre last E; simpl in E.
    - destruct acc as [|a acc'].
      + destruct pre; discriminate.
      + destruct pre as [|p pre'].
        * simpl in E. injection E as <-. split; [constructor|]. simpl length in *. lia.
        * simpl in E. injection E as _ E. destruct pre'; discriminate.
    - assert (L : Z.of_nat (length (acc ++ [x])) = Z.of_nat (length acc) + 1)
        by (rewrite app_length; simpl; lia).
      destruct (Z.of_nat (length (acc ++ [x])) =? n) eqn:Q.
      + apply Z.eqb_eq in Q.
        destruct pre as [|p pre'].
        * simpl in E. injection E as E1 E2. subst last. split; [constructor|lia].
        * simpl in E. injection E as E1 E2. subst p.
          destruct (IH n [] ltac:(simpl; lia) pre' last E2) as [F1 F2].
          split; [constructor; assumption|assumption].
      + apply Z.eqb_neq in Q. apply (IH n (acc ++ [x])); [lia|exact E].
  Qed.

  (* every chunk but the last has exactly n elements; the last one is non-empty and has at most n *)
  Lemma chunks_sizes : forall n l pre last, 0 < n -> chunks n l = pre ++ [last] ->
    Forall (fun c => Z.of_nat (length c) = n) pre /\ 0 < Z.of_nat (length last) <= n.
  Proof. intros n l pre last Hn E. apply (chunks_aux_sizes l n []); [simpl; lia|exact E]. Qed.

  Lemma chunks_aux_nonpos : forall l n acc, n <= 0 ->
    chunks_aux n acc l = match acc ++ l with [] => [] | _ :: _ => [acc ++ l] end.
  Proof.
    induction l as [|x r IH]; intros n acc Hn; simpl.
    - rewrite app_nil_r. destruct acc; reflexivity.
    - assert (Q : Z.of_nat (length (acc ++ [x])) =? n = false).
      { apply Z.eqb_neq. rewrite app_length. simpl. lia. }
      rewrite Q, IH by exact Hn. rewrite <- app_assoc. reflexivity.
  Qed.

  (* n <= 0 (what the generator does with it): one chunk holding everything *)
  Lemma chunks_nonpos : forall n l, n <= 0 ->
    chunks n l = match l with [] => [] | _ :: _ => [l] end.
  Proof. intros n l Hn. unfold chunks. rewrite chunks_aux_nonpos by exact Hn. reflexivity. Qed.

  Lemma chunks_nil : forall n, chunks n (@nil A) = [].
  Proof. reflexivity. Qed.
End ChunksProofs.

(* chunking commutes with map (used for the chunked collectors) *)
Lemma chunks_aux_map : forall (A B : Type) (f : A -> B) l n acc,
  chunks_aux n (map f acc) (map f l) = map (map f) (chunks_aux n acc l).
Proof.
  induction l as [|x r IH]; intros n acc; simpl.
  - destruct acc; reflexivity.
  - rewrite <- (map_app f acc [x]) at 1. rewrite map_length.
    change (map f acc ++ [f x]) with (map f acc ++ map f [x]). rewrite <- map_app.
    destruct (Z.of_nat (length (acc ++ [x])) =? n); simpl.
    + f_equal. apply (IH n []).
    + apply IH.
Qed.

Lemma chunks_map : forall (A B : Type) (f : A -> B) n l,
  chunks n (map f l) = map (map f) (chunks n l).
Proof. intros. apply (chunks_aux_map A B f l n []). Qed.

(* non-vacuity: 7 items in chunks of 3, the trailing partial chunk is kept *)
Example chunks_ex1 : chunks 3 [1;2;3;4;5;6;7] = [[1;2;3];[4;5;6];[7]].
Proof. reflexivity. Qed.
Example chunks_ex2 : chunks 0 [1;2;3] = [[1;2;3]] /\ chunks (-2) [1;2;3] = [[1;2;3]] /\ chunks 5 (@nil Z) = [].
Proof. repeat split. Qed.
Example chunks_sizes_ex : exists pre last, chunks 3 [1;2;3;4;5;6;7] = pre ++ [last] /\ pre <> [].
Proof. exists [[1;2;3];[4;5;6]], [7]. split; [reflexivity|discriminate]. Qed.
