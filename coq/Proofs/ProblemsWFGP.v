(* Proofs/ProblemsWFGP.v — C18, part 6: the translated WFG4-9 evaluate pipelines map in-bounds decision vectors to
   transformed vectors in [0,1]^M, hence (wfg_lower_partial) sum_m (f_m/2m)^2 >= 1 for every in-bounds input. *)
From Coq Require Import Reals List ZArith Lia Lra Bool.
Import ListNotations.
From PV Require Import Base.RList Gen.Problems Model.ProblemsRef Proofs.ProblemsProofs Proofs.ProblemsDTLZ Proofs.ProblemsWFG Proofs.ProblemsWFGT Proofs.ProblemsNonsep.
Open Scope R_scope.
Set Default Timeout 60.

Definition good (t : list R) : Prop := in01 t /\ (1 <= length t)%nat.

Lemma normalize_in01 : forall z, wfg_box z -> in01 (fn_normalize_z_eval z).
Proof.
  intros z Hz. unfold fn_normalize_z_eval, in01. apply Forall_forall. intros v Hv.
  apply in_map_iff in Hv. destruct Hv as [i [<- Hi]]. apply in_zrange in Hi. unfold zlen in Hi.
  rewrite (py_nth_eq z i (Z.to_nat i)) by lia.
  replace (i + 1)%Z with (Z.of_nat (S (Z.to_nat i))) by lia. rewrite <- INR_IZR_INZ.
  pose proof (Hz (Z.to_nat i) ltac:(lia)) as B.
  assert (P : 1 <= INR (S (Z.to_nat i))) by (apply (le_INR 1); lia).
  split; [apply div_nonneg; lra|apply div_le_1; lra].
Qed.

Lemma wfg4_t1_in01 : forall y, in01 y -> in01 (fn_WFG4_t1_eval y).
Proof. intros y H. unfold fn_WFG4_t1_eval. apply in01_map; [|exact H]. intros v Hv. apply s_multi_range; [exact Hv|lra]. Qed.
Lemma wfg5_t1_in01 : forall y, in01 y -> in01 (fn_WFG5_t1_eval y).
Proof. intros y H. unfold fn_WFG5_t1_eval. apply in01_map; [|exact H]. intros v Hv. now apply s_decept_range. Qed.
Lemma wfg1_t1_in01 : forall y k, in01 y -> in01 (fn_WFG1_t1_eval y k).
Proof.
  intros y k H. unfold fn_WFG1_t1_eval. apply in01_app; [now apply in01_py_upto|].
  apply in01_map; [|now apply in01_py_from]. intros v Hv. now apply s_linear_range.
Qed.
Lemma wfg9_t2_in01 : forall y k, in01 y -> in01 (fn_WFG9_t2_eval y k).
Proof.
  intros y k H. unfold fn_WFG9_t2_eval. apply in01_app; (apply in01_map; [|first [now apply in01_py_upto|now apply in01_py_from]]).
  - intros v Hv. now apply s_decept_range.
  - intros v Hv. apply s_multi_range; [exact Hv|lra].
Qed.

Lemma r_sum_ones : forall y n a b c d, in01 y -> 0 <= fn_r_sum_eval (fn_subvector_eval y a b) (fn_subvector_eval (py_repeat 1 n) c d) <= 1.
Proof. intros. apply r_sum_range; [now apply in01_subvector|intros; apply ones_nonneg]. Qed.

Lemma wfg2_t3_good : forall y k M, in01 y -> good (fn_WFG2_t3_eval y k M).
Proof.
  intros y k M H. unfold fn_WFG2_t3_eval. cbv zeta. rewrite fold_append. cbn [app]. split.
  - apply in01_app; [|apply in01_single, r_sum_ones, H]. apply in01_mapZ. intros i. apply r_sum_ones, H.
  - rewrite app_length. cbn [length]. lia.
Qed.

Lemma wfg7_t1_in01 : forall y k, in01 y -> in01 (fn_WFG7_t1_eval y k).
Proof.
  intros y k H. unfold fn_WFG7_t1_eval. cbv zeta. rewrite !fold_append. cbn [app].
  apply in01_app; apply in01_mapZ; intros i.
  - apply b_param_range; [now apply in01_py_nth|apply r_sum_ones, H].
  - now apply in01_py_nth.
Qed.
Lemma wfg8_t1_in01 : forall y k, in01 y -> in01 (fn_WFG8_t1_eval y k).
Proof.
  intros y k H. unfold fn_WFG8_t1_eval. cbv zeta. rewrite fold_append.
  apply in01_app; [now apply in01_py_upto|]. apply in01_mapZ; intros i.
  apply b_param_range; [now apply in01_py_nth|apply r_sum_ones, H].
Qed.
Lemma wfg9_t1_in01 : forall y, in01 y -> in01 (fn_WFG9_t1_eval y).
Proof.
  intros y H. unfold fn_WFG9_t1_eval. cbv zeta. rewrite fold_append. cbn [app].
  apply in01_app; [|apply in01_single; now apply in01_py_nth]. apply in01_mapZ; intros i.
  apply b_param_range; [now apply in01_py_nth|apply r_sum_ones, H].
Qed.

(* ------------------------------------------------------------------ the property clause for WFG4, 5, 7, 8: every nobjs, nvars, every in-bounds z *)
Lemma shape_lower : forall t, good t -> 1 <= wfg_scaled_sumsq (fn_WFG4_shape_eval t).
Proof. intros t [H1 H2]. now apply wfg_lower_partial. Qed.

Theorem wfg4_lower : forall nobjs nvars z, wfg_box z -> 1 <= wfg_scaled_sumsq (WFG4_eval nobjs nvars z).
Proof. intros. unfold WFG4_eval. cbv zeta. apply shape_lower, wfg2_t3_good, wfg4_t1_in01, normalize_in01. assumption. Qed.
Theorem wfg5_lower : forall nobjs nvars z, wfg_box z -> 1 <= wfg_scaled_sumsq (WFG5_eval nobjs nvars z).
Proof. intros. unfold WFG5_eval. cbv zeta. apply shape_lower, wfg2_t3_good, wfg5_t1_in01, normalize_in01. assumption. Qed.
Theorem wfg7_lower : forall nobjs nvars z, wfg_box z -> 1 <= wfg_scaled_sumsq (WFG7_eval nobjs nvars z).
Proof. intros. unfold WFG7_eval. cbv zeta. apply shape_lower, wfg2_t3_good, wfg1_t1_in01, wfg7_t1_in01, normalize_in01. assumption. Qed.
Theorem wfg8_lower : forall nobjs nvars z, wfg_box z -> 1 <= wfg_scaled_sumsq (WFG8_eval nobjs nvars z).
Proof. intros. unfold WFG8_eval. cbv zeta. apply shape_lower, wfg2_t3_good, wfg1_t1_in01, wfg8_t1_in01, normalize_in01. assumption. Qed.

(* ------------------------------------------------------------------ WFG6, WFG9: r_nonsep *)
(* r_nonsep(y, 1) is the plain mean *)
Lemma ceil_half : py_ceil (IZR 1 / 2) = 1%Z.
Proof. unfold py_ceil. replace (- (IZR 1 / 2)) with (- (1 / 2)) by (simpl; lra). change Int_part with py_floor. rewrite floor_m1 by lra. reflexivity. Qed.
Lemma r_nonsep_1_range : forall y, in01 y -> 0 <= fn_r_nonsep_eval y 1 <= 1.
Proof.
  intros y H. unfold fn_r_nonsep_eval. cbv zeta. apply correct_range. rewrite ceil_half.
  rewrite (sum_list_map_zrange _ 0 (zlen y) (length y)) by (unfold zlen; lia).
  change (zrange 0 (1 - 1)) with (@nil Z). cbn [map]. rewrite sum_list_nil.
  rewrite Z.mul_1_r. unfold zlen. rewrite <- INR_IZR_INZ. simpl (IZR 1).
  set (S := big_sum _ _).
  assert (S0 : 0 <= S). { apply big_sum_nonneg. intros i _. pose proof (in01_py_nth y (0 + Z.of_nat i)%Z H). lra. }
  assert (S1 : S <= INR (length y)).
  { assert (E : forall m, big_sum (fun _ => 1) m = INR m). { induction m as [|m IH]; [reflexivity|]. rewrite S_INR. cbn [big_sum]. rewrite IH. ring. }
    rewrite <- E. apply big_sum_le. intros i _. pose proof (in01_py_nth y (0 + Z.of_nat i)%Z H). lra. }
  replace (INR (length y) * (1 + 2 * 1 - 2 * 1) / 1) with (INR (length y)) by field.
  destruct (Req_EM_T (INR (length y)) 0) as [Z|NZ].
  - rewrite Z. unfold Rdiv. rewrite Rinv_0, Rmult_0_r. lra.
  - pose proof (pos_INR (length y)). split; [apply div_nonneg; lra|apply div_le_1; lra].
Qed.

(* r_nonsep with A = |y| maps [0,1]^n into [0,1]: Proofs/ProblemsNonsep.v (r_nonsep_full_range_proved) *)

Lemma subvector_zlen : forall y a b, (a <= b)%Z -> zlen (fn_subvector_eval y a b) = (b - a)%Z.
Proof. intros y a b H. unfold zlen, fn_subvector_eval. rewrite map_length, zrange_length. lia. Qed.
Lemma normalize_length : forall z, length (fn_normalize_z_eval z) = length z.
Proof. intros z. unfold fn_normalize_z_eval. rewrite map_length, zrange_length. unfold zlen. lia. Qed.
Lemma wfg1_t1_length : forall y k, length (fn_WFG1_t1_eval y k) = length y.
Proof. intros y k. unfold fn_WFG1_t1_eval, py_upto, py_from. rewrite app_length, map_length, firstn_length, skipn_length. lia. Qed.
Lemma wfg9_t2_length : forall y k, length (fn_WFG9_t2_eval y k) = length y.
Proof. intros y k. unfold fn_WFG9_t2_eval, py_upto, py_from. rewrite app_length, !map_length, firstn_length, skipn_length. lia. Qed.
Lemma wfg9_t1_length : forall y, (1 <= length y)%nat -> length (fn_WFG9_t1_eval y) = length y.
Proof.
  intros y H. unfold fn_WFG9_t1_eval. cbv zeta. rewrite fold_append. cbn [app].
  rewrite app_length, map_length, zrange_length. cbn [length]. unfold zlen. lia.
Qed.

Lemma wfg6_t2_good : r_nonsep_full_range -> forall y M, (2 <= M)%Z -> (M - 1 <= zlen y)%Z -> in01 y -> good (fn_WFG6_t2_eval y (M - 1) M).
Proof.
  intros RN y M HM Hk H. unfold fn_WFG6_t2_eval. cbv zeta. rewrite fold_append. cbn [app]. split.
  - apply in01_app.
    + apply in01_mapZ. intros i. rewrite Z.div_same by lia. apply r_nonsep_1_range. now apply in01_subvector.
    + apply in01_single. rewrite <- (subvector_zlen y (M - 1) (zlen y)) by lia. apply RN. now apply in01_subvector.
  - rewrite app_length. cbn [length]. lia.
Qed.

Theorem wfg6_lower_partial : r_nonsep_full_range -> forall M nvars z, (2 <= M)%Z -> (M - 1 <= zlen z)%Z -> wfg_box z ->
  1 <= wfg_scaled_sumsq (WFG6_eval M nvars z).
Proof.
  intros RN M nvars z HM Hk Hz. unfold WFG6_eval. cbv zeta. apply shape_lower, wfg6_t2_good; try assumption.
  - unfold zlen. rewrite wfg1_t1_length, normalize_length. exact Hk.
  - apply wfg1_t1_in01, normalize_in01, Hz.
Qed.
Theorem wfg9_lower_partial : r_nonsep_full_range -> forall M nvars z, (2 <= M)%Z -> (M - 1 <= zlen z)%Z -> wfg_box z ->
  1 <= wfg_scaled_sumsq (WFG9_eval M nvars z).
Proof.
  intros RN M nvars z HM Hk Hz. unfold WFG9_eval. cbv zeta. apply shape_lower, wfg6_t2_good; try assumption.
  - unfold zlen in *. rewrite wfg9_t2_length, wfg9_t1_length, normalize_length; [exact Hk|rewrite normalize_length; lia].
  - apply wfg9_t2_in01, wfg9_t1_in01, normalize_in01, Hz.
Qed.

(* with the range of r_nonsep proved, the WFG6 and WFG9 clauses are unconditional *)
Theorem wfg6_lower : forall M nvars z, (2 <= M)%Z -> (M - 1 <= zlen z)%Z -> wfg_box z -> 1 <= wfg_scaled_sumsq (WFG6_eval M nvars z).
Proof. exact (wfg6_lower_partial r_nonsep_full_range_proved). Qed.
Theorem wfg9_lower : forall M nvars z, (2 <= M)%Z -> (M - 1 <= zlen z)%Z -> wfg_box z -> 1 <= wfg_scaled_sumsq (WFG9_eval M nvars z).
Proof. exact (wfg9_lower_partial r_nonsep_full_range_proved). Qed.

(* non-vacuity: an in-bounds WFG decision vector (the samplers' optimal distance values 0.35 * 2i, 12 variables) *)
Example wfg_box_example : wfg_box (map (fun i => 7 / 20 * (2 * INR (S i))) (seq 0 12)).
Proof.
  intros i Hi. rewrite map_length, seq_length in Hi. rewrite (nth_map_lt _ _ _ 0%nat) by now rewrite seq_length.
  rewrite seq_nth by assumption. cbn [Nat.add]. assert (1 <= INR (S i)) by (apply (le_INR 1); lia). nra.
Qed.
