(* Proofs about Model/Gray.v: conversions are mutually inverse for every length,
   Integer.decode is total and in range on every bit string of the variable's
   length, decode (encode v) = v, surjectivity, Gray adjacency.
   No bound on the width (Z is unbounded). *)
From Coq Require Import ZArith Bool List Lia.
Import ListNotations.
From PV Require Import Model.Gray.
Open Scope Z_scope.

(* ------------------------------------------------------------------ *)
(* bin2int                                                             *)
(* ------------------------------------------------------------------ *)
Lemma fold_step_acc : forall l a,
  fold_left bin2int_step l a = a * 2 ^ Z.of_nat (length l) + fold_left bin2int_step l 0.
Proof.
  induction l as [|x l IH]; intro a; cbn [fold_left length].
  - rewrite Z.pow_0_r. lia.
  - rewrite (IH (bin2int_step a x)), (IH (bin2int_step 0 x)).
    rewrite Nat2Z.inj_succ, Z.pow_succ_r by lia.
    unfold bin2int_step. ring.
Qed.

Lemma bin2int_nil : bin2int [] = 0.
Proof. reflexivity. Qed.

Lemma bin2int_cons h t : bin2int (h :: t) = b2z h * 2 ^ Z.of_nat (length t) + bin2int t.
Proof.
  unfold bin2int. cbn [fold_left]. rewrite fold_step_acc. unfold bin2int_step. f_equal.
Qed.

Lemma bin2int_snoc l b : bin2int (l ++ [b]) = 2 * bin2int l + b2z b.
Proof.
  unfold bin2int. rewrite fold_left_app. cbn [fold_left]. unfold bin2int_step. lia.
Qed.

Lemma b2z_range b : 0 <= b2z b <= 1.
Proof. destruct b; cbn; lia. Qed.

Lemma bin2int_bound l : 0 <= bin2int l < 2 ^ Z.of_nat (length l).
Proof.
  induction l as [|h t IH].
  - rewrite bin2int_nil. cbn. lia.
  - rewrite bin2int_cons. cbn [length]. rewrite Nat2Z.inj_succ, Z.pow_succ_r by lia.
    pose proof (b2z_range h) as Hb.
    set (P := 2 ^ Z.of_nat (length t)) in *.
    destruct h; cbn [b2z] in *; lia.
Qed.

Lemma bin2int_inj : forall a b, length a = length b -> bin2int a = bin2int b -> a = b.
Proof.
  induction a as [|h t IH]; intros [|h' t'] HL HE; cbn [length] in HL; try discriminate; [reflexivity|].
  injection HL as HL.
  rewrite !bin2int_cons in HE. rewrite HL in HE.
  pose proof (bin2int_bound t) as B1. pose proof (bin2int_bound t') as B2. rewrite HL in B1.
  set (P := 2 ^ Z.of_nat (length t')) in *.
  destruct h, h'; cbn [b2z] in HE; try (exfalso; lia); f_equal; apply IH; try assumption; lia.
Qed.

Lemma bin2int_repeat_false m l : bin2int (repeat false m ++ l) = bin2int l.
Proof.
  induction m as [|m IH]; cbn [repeat app]; [reflexivity|].
  rewrite bin2int_cons. cbn [b2z]. rewrite IH. lia.
Qed.

(* ------------------------------------------------------------------ *)
(* int2bin                                                             *)
(* ------------------------------------------------------------------ *)
Lemma half_bit n : 2 * (n / 2) + b2z (negb (n mod 2 =? 0)) = n.
Proof.
  pose proof (Z.div_mod n 2 ltac:(lia)) as D.
  pose proof (Z.mod_pos_bound n 2 ltac:(lia)) as B.
  destruct (n mod 2 =? 0) eqn:E; cbn [negb b2z].
  - apply Z.eqb_eq in E. lia.
  - apply Z.eqb_neq in E. lia.
Qed.

Lemma loop_spec : forall fuel n acc, 0 <= n < 2 ^ Z.of_nat fuel ->
  exists d, int2bin_loop fuel n acc = Some (d ++ acc) /\ bin2int d = n /\ (length d <= fuel)%nat.
Proof.
  induction fuel as [|f IH]; intros n acc H.
  - cbn in H. assert (n = 0) by lia. subst n. exists []. cbn. auto.
  - cbn [int2bin_loop]. destruct (n =? 0) eqn:E.
    + apply Z.eqb_eq in E. subst n. exists []. cbn. split; [reflexivity|split; [reflexivity|lia]].
    + apply Z.eqb_neq in E.
      rewrite Nat2Z.inj_succ, Z.pow_succ_r in H by lia.
      assert (H2 : 0 <= n / 2 < 2 ^ Z.of_nat f).
      { split; [apply Z.div_pos; lia|apply Z.div_lt_upper_bound; lia]. }
      destruct (IH (n / 2) (negb (n mod 2 =? 0) :: acc) H2) as [d [L1 [L2 L3]]].
      exists (d ++ [negb (n mod 2 =? 0)]). split; [|split].
      * rewrite L1. f_equal. rewrite <- app_assoc. reflexivity.
      * rewrite bin2int_snoc, L2. apply half_bit.
      * rewrite app_length. cbn [length]. lia.
Qed.

(* the Python loop does not terminate on negative n: no fuel is ever enough *)
Lemma int2bin_negative_diverges : forall fuel n acc, n < 0 -> int2bin_loop fuel n acc = None.
Proof.
  induction fuel as [|f IH]; intros n acc H; cbn [int2bin_loop];
    (destruct (n =? 0) eqn:E; [apply Z.eqb_eq in E; lia|]); [reflexivity|].
  apply IH. apply Z.div_lt_upper_bound; lia.
Qed.

Lemma fuel_enough n : 0 <= n -> n < 2 ^ Z.of_nat (int2bin_fuel n).
Proof.
  intro H. unfold int2bin_fuel. rewrite Nat2Z.inj_succ, Z2Nat.id by apply Z.log2_nonneg.
  destruct (Z.eq_dec n 0) as [->|N]; [cbn; lia|].
  apply Z.log2_spec. lia.
Qed.

Lemma fuel_le n k : 0 < n < 2 ^ Z.of_nat k -> (int2bin_fuel n <= k)%nat.
Proof.
  intros [H1 H2]. unfold int2bin_fuel.
  assert (Z.log2 n < Z.of_nat k) by (apply Z.log2_lt_pow2; lia).
  pose proof (Z.log2_nonneg n). lia.
Qed.

Theorem bin2int_int2bin : forall n k, 0 <= n < 2 ^ Z.of_nat k ->
  exists b, int2bin n k = Some b /\ length b = k /\ bin2int b = n.
Proof.
  intros n k [H1 H2]. unfold int2bin.
  destruct (Z.eq_dec n 0) as [->|N].
  - cbn [int2bin_fuel int2bin_loop Z.eqb]. cbn. exists (pad_left [] k).
    split; [reflexivity|]. unfold pad_left. rewrite app_nil_r, repeat_length. cbn [length].
    split; [lia|]. rewrite <- (app_nil_r (repeat false _)). apply bin2int_repeat_false.
  - destruct (loop_spec (int2bin_fuel n) n [] (conj H1 (fuel_enough n H1))) as [d [L1 [L2 L3]]].
    rewrite app_nil_r in L1. rewrite L1.
    assert (length d <= k)%nat by (pose proof (fuel_le n k ltac:(lia)); lia).
    exists (pad_left d k). split; [reflexivity|]. unfold pad_left. split.
    + rewrite app_length, repeat_length. lia.
    + rewrite bin2int_repeat_false. exact L2.
Qed.

Theorem int2bin_bin2int : forall b, int2bin (bin2int b) (length b) = Some b.
Proof.
  intro b. destruct (bin2int_int2bin (bin2int b) (length b) (bin2int_bound b)) as [b' [E [L V]]].
  rewrite E. f_equal. apply bin2int_inj; assumption.
Qed.

(* canonical k-bit big-endian representation, used to reason about n+1 *)
Fixpoint bitsk (k : nat) (n : Z) : list bool :=
  match k with
  | O => []
  | S k' => bitsk k' (n / 2) ++ [Z.odd n]
  end.

Lemma bitsk_length : forall k n, length (bitsk k n) = k.
Proof. induction k as [|k IH]; intro n; cbn [bitsk]; [reflexivity|]. rewrite app_length, IH. cbn. lia. Qed.

Lemma bitsk_value : forall k n, 0 <= n < 2 ^ Z.of_nat k -> bin2int (bitsk k n) = n.
Proof.
  induction k as [|k IH]; intros n H.
  - cbn in H. cbn. lia.
  - cbn [bitsk]. rewrite bin2int_snoc.
    rewrite Nat2Z.inj_succ, Z.pow_succ_r in H by lia.
    rewrite IH by (split; [apply Z.div_pos; lia|apply Z.div_lt_upper_bound; lia]).
    rewrite (Z.div_mod n 2) at 3 by lia. rewrite Zmod_odd. destruct (Z.odd n); cbn [b2z]; lia.
Qed.

Lemma int2bin_bitsk n k : 0 <= n < 2 ^ Z.of_nat k -> int2bin n k = Some (bitsk k n).
Proof.
  intro H. destruct (bin2int_int2bin n k H) as [b [E [L V]]]. rewrite E. f_equal.
  apply bin2int_inj; [rewrite bitsk_length; exact L|rewrite bitsk_value by exact H; exact V].
Qed.

(* ------------------------------------------------------------------ *)
(* Gray code                                                           *)
(* ------------------------------------------------------------------ *)
(* recursive forms of the two list programs *)
Fixpoint gray_from (prev : bool) (l : list bool) : list bool :=
  match l with [] => [] | x :: r => xorb prev x :: gray_from x r end.
Fixpoint ungray_from (prev : bool) (l : list bool) : list bool :=
  match l with [] => [] | x :: r => xorb prev x :: ungray_from (xorb prev x) r end.

Lemma zip_gray : forall t h,
  map (fun p => xorb (fst p) (snd p)) (combine (removelast (h :: t)) t) = gray_from h t.
Proof.
  induction t as [|x r IH]; intro h; [reflexivity|].
  change (removelast (h :: x :: r)) with (h :: removelast (x :: r)).
  cbn [combine map fst snd gray_from]. f_equal. apply IH.
Qed.

Lemma bin2gray_nil : bin2gray [] = [].
Proof. reflexivity. Qed.

Lemma bin2gray_cons h t : bin2gray (h :: t) = h :: gray_from h t.
Proof. unfold bin2gray. cbn [firstn tl app]. f_equal. apply zip_gray. Qed.

Lemma gray2bin_fold : forall t pre p,
  fold_left gray2bin_step t (pre ++ [p]) = pre ++ p :: ungray_from p t.
Proof.
  induction t as [|x r IH]; intros pre p; cbn [fold_left ungray_from]; [reflexivity|].
  unfold gray2bin_step at 2. rewrite last_last.
  rewrite (IH (pre ++ [p]) (xorb p x)). rewrite <- app_assoc. reflexivity.
Qed.

Lemma gray2bin_nil : gray2bin [] = None.
Proof. reflexivity. Qed.

Lemma gray2bin_cons h t : gray2bin (h :: t) = Some (h :: ungray_from h t).
Proof. unfold gray2bin. f_equal. apply (gray2bin_fold t [] h). Qed.

Lemma xorb_cancel p x : xorb p (xorb p x) = x.
Proof. destruct p, x; reflexivity. Qed.

Lemma ungray_gray : forall t p, ungray_from p (gray_from p t) = t.
Proof.
  induction t as [|x r IH]; intro p; cbn [gray_from ungray_from]; [reflexivity|].
  rewrite xorb_cancel, IH. reflexivity.
Qed.

Lemma gray_ungray : forall t p, gray_from p (ungray_from p t) = t.
Proof.
  induction t as [|x r IH]; intro p; cbn [gray_from ungray_from]; [reflexivity|].
  rewrite xorb_cancel, IH. reflexivity.
Qed.

Lemma gray_from_length : forall t p, length (gray_from p t) = length t.
Proof. induction t as [|x r IH]; intro p; cbn; [reflexivity|]. now rewrite IH. Qed.

Lemma ungray_from_length : forall t p, length (ungray_from p t) = length t.
Proof. induction t as [|x r IH]; intro p; cbn; [reflexivity|]. now rewrite IH. Qed.

Theorem bin2gray_length : forall b, length (bin2gray b) = length b.
Proof. intros [|h t]; [reflexivity|]. rewrite bin2gray_cons. cbn. now rewrite gray_from_length. Qed.

Theorem gray2bin_bin2gray : forall b, b <> [] -> gray2bin (bin2gray b) = Some b.
Proof.
  intros [|h t] H; [congruence|]. rewrite bin2gray_cons, gray2bin_cons, ungray_gray. reflexivity.
Qed.

Theorem bin2gray_gray2bin : forall g, g <> [] ->
  exists b, gray2bin g = Some b /\ length b = length g /\ bin2gray b = g.
Proof.
  intros [|h t] H; [congruence|]. exists (h :: ungray_from h t).
  rewrite gray2bin_cons, bin2gray_cons, gray_ungray. cbn [length]. rewrite ungray_from_length. auto.
Qed.

(* ------------------------------------------------------------------ *)
(* Integer                                                             *)
(* ------------------------------------------------------------------ *)
Lemma nbits_spec w : 0 < w ->
  exists k, nbits_of w = Some (S k) /\ 2 ^ Z.of_nat k <= w < 2 ^ Z.of_nat (S k).
Proof.
  intro H. unfold nbits_of. destruct (w <=? 0) eqn:E; [apply Z.leb_le in E; lia|].
  exists (Z.to_nat (Z.log2 w)). pose proof (Z.log2_nonneg w) as N. split.
  - f_equal. rewrite Z2Nat.inj_add by lia. cbn. lia.
  - rewrite Nat2Z.inj_succ, Z2Nat.id by lia. apply Z.log2_spec. exact H.
Qed.

Lemma integer_init_spec mn mx : mn < mx ->
  exists k, integer_init mn mx = Some (mkInteger (S k) mn mx)
            /\ 2 ^ Z.of_nat k <= mx - mn < 2 ^ Z.of_nat (S k).
Proof.
  intro H. destruct (nbits_spec (mx - mn) ltac:(lia)) as [k [E B]].
  exists k. unfold integer_init. rewrite E. auto.
Qed.

(* min >= max is rejected by the constructor (math.log domain error) *)
Theorem integer_init_rejects : forall mn mx, mx <= mn -> integer_init mn mx = None.
Proof.
  intros mn mx H. unfold integer_init, nbits_of.
  destruct (mx - mn <=? 0) eqn:E; [reflexivity|apply Z.leb_gt in E; lia].
Qed.

Theorem nbits_minimal : forall mn mx t, integer_init mn mx = Some t ->
  i_min t = mn /\ i_max t = mx /\ (1 <= i_nbits t)%nat /\
  2 ^ (Z.of_nat (i_nbits t) - 1) <= mx - mn < 2 ^ Z.of_nat (i_nbits t).
Proof.
  intros mn mx t E.
  destruct (Z_lt_le_dec mn mx) as [H|H]; [|rewrite integer_init_rejects in E by exact H; discriminate].
  destruct (integer_init_spec mn mx H) as [k [E' B]]. rewrite E' in E. injection E as <-.
  cbn [i_min i_max i_nbits]. repeat split; try lia.
  replace (Z.of_nat (S k) - 1) with (Z.of_nat k) by lia. lia.
Qed.

Theorem decode_in_range : forall mn mx t bits, integer_init mn mx = Some t ->
  length bits = i_nbits t -> exists v, decode t bits = Some v /\ mn <= v <= mx.
Proof.
  intros mn mx t bits E L.
  destruct (Z_lt_le_dec mn mx) as [H|H]; [|rewrite integer_init_rejects in E by exact H; discriminate].
  destruct (integer_init_spec mn mx H) as [k [E' [B1 B2]]]. rewrite E' in E. injection E as <-.
  cbn [i_nbits] in L. unfold decode. cbn [i_min i_max].
  assert (NE : bits <> []) by (intro C; subst bits; discriminate).
  destruct (bin2gray_gray2bin bits NE) as [b [G [LB _]]]. rewrite G.
  pose proof (bin2int_bound b) as BB. rewrite LB, L in BB.
  rewrite Nat2Z.inj_succ, Z.pow_succ_r in * by lia.
  set (P := 2 ^ Z.of_nat k) in *.
  eexists. split; [reflexivity|].
  destruct (bin2int b >? mx - mn) eqn:C.
  - apply Z.gtb_lt in C. lia.
  - assert (bin2int b <= mx - mn) by (rewrite Z.gtb_ltb in C; apply Z.ltb_ge in C; exact C). lia.
Qed.

Theorem decode_encode : forall mn mx t v, integer_init mn mx = Some t -> mn <= v <= mx ->
  exists bits, encode t v = Some bits /\ length bits = i_nbits t /\ decode t bits = Some v.
Proof.
  intros mn mx t v E Hv.
  destruct (Z_lt_le_dec mn mx) as [H|H]; [|rewrite integer_init_rejects in E by exact H; discriminate].
  destruct (integer_init_spec mn mx H) as [k [E' [B1 B2]]]. rewrite E' in E. injection E as <-.
  unfold encode, decode. cbn [i_min i_max i_nbits].
  destruct (bin2int_int2bin (v - mn) (S k) ltac:(lia)) as [b [I [LB VB]]]. rewrite I.
  exists (bin2gray b). split; [reflexivity|]. split; [rewrite bin2gray_length; exact LB|].
  assert (NE : b <> []) by (intro C; subst b; discriminate).
  rewrite (gray2bin_bin2gray b NE), VB.
  destruct (v - mn >? mx - mn) eqn:C; [apply Z.gtb_lt in C; lia|]. f_equal. lia.
Qed.

Corollary decode_surjective : forall mn mx t v, integer_init mn mx = Some t -> mn <= v <= mx ->
  exists bits, length bits = i_nbits t /\ decode t bits = Some v.
Proof.
  intros mn mx t v E Hv. destruct (decode_encode mn mx t v E Hv) as [bits [_ [L D]]]. eauto.
Qed.

(* ------------------------------------------------------------------ *)
(* Gray adjacency                                                      *)
(* ------------------------------------------------------------------ *)
Lemma repeat_snoc {A} (x : A) j : repeat x j ++ [x] = x :: repeat x j.
Proof. induction j as [|j IH]; cbn; [reflexivity|]. now rewrite IH. Qed.

(* adding one flips a 0 followed only by 1s *)
Lemma incr_shape : forall k n, 0 <= n -> n + 1 < 2 ^ Z.of_nat k ->
  exists p j, bitsk k n = p ++ false :: repeat true j /\ bitsk k (n + 1) = p ++ true :: repeat false j.
Proof.
  induction k as [|k IH]; intros n H1 H2.
  - cbn in H2. lia.
  - cbn [bitsk]. rewrite Nat2Z.inj_succ, Z.pow_succ_r in H2 by lia.
    destruct (Z.odd n) eqn:O.
    + (* n odd: carry *)
      assert (Ev : Z.odd (n + 1) = false) by (rewrite Z.odd_add, O; reflexivity).
      rewrite Ev.
      assert (D : (n + 1) / 2 = n / 2 + 1).
      { pose proof (Zmod_odd n) as M. rewrite O in M.
        pose proof (Z.div_mod n 2 ltac:(lia)) as DM.
        replace (n + 1) with ((n / 2 + 1) * 2) by lia. apply Z.div_mul. lia. }
      rewrite D.
      assert (H3 : 0 <= n / 2) by (apply Z.div_pos; lia).
      assert (H4 : n / 2 + 1 < 2 ^ Z.of_nat k).
      { pose proof (Zmod_odd n) as M. rewrite O in M.
        pose proof (Z.div_mod n 2 ltac:(lia)) as DM. lia. }
      destruct (IH (n / 2) H3 H4) as [p [j [A B]]].
      exists p, (S j). rewrite A, B. rewrite <- !app_assoc. cbn [app].
      change [true] with (repeat true 1). change [false] with (repeat false 1).
      rewrite <- !repeat_app. rewrite !Nat.add_1_r. split; reflexivity.
    + (* n even *)
      assert (Od : Z.odd (n + 1) = true) by (rewrite Z.odd_add, O; reflexivity).
      rewrite Od.
      assert (D : (n + 1) / 2 = n / 2).
      { pose proof (Zmod_odd n) as M. rewrite O in M.
        pose proof (Z.div_mod n 2 ltac:(lia)) as DM.
        symmetry. apply (Z.div_unique (n + 1) 2 (n / 2) 1); lia. }
      rewrite D. exists (bitsk k (n / 2)), 0%nat. split; reflexivity.
Qed.

Lemma hamming_refl l : hamming l l = 0%nat.
Proof. induction l as [|x l IH]; cbn; [reflexivity|]. rewrite eqb_reflx, IH. reflexivity. Qed.

Lemma gray_tail_same : forall j, gray_from false (repeat true j) = gray_from true (repeat false j).
Proof.
  intros [|j]; [reflexivity|]. cbn [repeat gray_from xorb]. f_equal.
  induction j as [|j IH]; [reflexivity|]. cbn [repeat gray_from xorb]. f_equal. exact IH.
Qed.

Lemma gray_from_flip : forall p h j,
  hamming (gray_from h (p ++ false :: repeat true j)) (gray_from h (p ++ true :: repeat false j)) = 1%nat.
Proof.
  induction p as [|x p IH]; intros h j.
  - cbn [app gray_from hamming]. rewrite gray_tail_same, hamming_refl. destruct h; reflexivity.
  - cbn [app gray_from hamming]. rewrite eqb_reflx, IH. reflexivity.
Qed.

Lemma bin2gray_flip p j :
  hamming (bin2gray (p ++ false :: repeat true j)) (bin2gray (p ++ true :: repeat false j)) = 1%nat.
Proof.
  destruct p as [|h t].
  - cbn [app]. rewrite !bin2gray_cons. cbn [hamming Bool.eqb]. rewrite gray_tail_same, hamming_refl. reflexivity.
  - cbn [app]. rewrite !bin2gray_cons. cbn [hamming]. rewrite eqb_reflx, gray_from_flip. reflexivity.
Qed.

Theorem gray_adjacent : forall mn mx t v, integer_init mn mx = Some t -> mn <= v < mx ->
  exists b1 b2, encode t v = Some b1 /\ encode t (v + 1) = Some b2 /\ hamming b1 b2 = 1%nat.
Proof.
  intros mn mx t v E Hv.
  destruct (integer_init_spec mn mx ltac:(lia)) as [k [E' [B1 B2]]]. rewrite E' in E. injection E as <-.
  unfold encode. cbn [i_min i_nbits].
  rewrite (int2bin_bitsk (v - mn) (S k)) by lia.
  replace (v + 1 - mn) with (v - mn + 1) by lia.
  rewrite (int2bin_bitsk (v - mn + 1) (S k)) by lia.
  destruct (incr_shape (S k) (v - mn) ltac:(lia) ltac:(lia)) as [p [j [A B]]].
  rewrite A, B. eexists. eexists. split; [reflexivity|]. split; [reflexivity|]. apply bin2gray_flip.
Qed.

(* ------------------------------------------------------------------ *)
(* non-vacuity: the hypotheses are satisfiable on concrete ranges       *)
(* (non-power-of-two width, negative / zero-crossing, wrap-around used) *)
(* ------------------------------------------------------------------ *)
Example ex_init : integer_init (-3) 7 = Some (mkInteger 4 (-3) 7).
Proof. reflexivity. Qed.

Example ex_int2bin : int2bin 10 4 = Some [true; false; true; false] /\ bin2int [true; false; true; false] = 10.
Proof. split; reflexivity. Qed.

Example ex_gray : bin2gray [true; false; true; false] = [true; true; true; true]
                  /\ gray2bin [true; true; true; true] = Some [true; false; true; false].
Proof. split; reflexivity. Qed.

(* width 10, 4 bits: the string 1000 (gray of 15) wraps: 15 - 10 = 5 -> -3 + 5 = 2 *)
Example ex_decode_wrap : decode (mkInteger 4 (-3) 7) [true; false; false; false] = Some 2.
Proof. reflexivity. Qed.

Example ex_decode_encode : encode (mkInteger 4 (-3) 7) 7 = Some [true; true; true; true]
                           /\ decode (mkInteger 4 (-3) 7) [true; true; true; true] = Some 7.
Proof. split; reflexivity. Qed.

Example ex_adjacent : exists b1 b2, encode (mkInteger 4 (-3) 7) 4 = Some b1
                                    /\ encode (mkInteger 4 (-3) 7) 5 = Some b2 /\ hamming b1 b2 = 1%nat.
Proof. eexists. eexists. repeat split. Qed.

(* a width of 2^40 + 1 (beyond the property's 2^32 bound) is no different in the model *)
Example ex_wide : integer_init (-5) (2 ^ 40 - 4) = Some (mkInteger 41 (-5) (2 ^ 40 - 4)).
Proof. reflexivity. Qed.

Example ex_rejects : integer_init 3 3 = None /\ gray2bin [] = None /\ int2bin (-1) 4 = None.
Proof. repeat split. Qed.
