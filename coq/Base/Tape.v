(* Base/Tape.v — randomness as an explicit tape (DESIGN.md section 2).

   All Platypus randomness goes through the global `random` module.  A model
   function that draws takes a [tape] and returns the rest of it.  One tape entry
   per call of a `random` primitive, in call order; in addition [DVal] entries
   carry values computed by arithmetic that the models do not interpret
   (pow / sqrt / gauss-scaled vector sums): the candidate handed to `clip`, a
   vector magnitude.  Theorems quantify over ALL tapes = all seeds and all
   adversarial outcomes; the only contract is the range contract of the
   primitive ([DIdx i] for randrange(n) has i < n, ...) — a tape violating it is
   "ill-typed" and is reported as [Err ETape], exactly like an exhausted tape.

   Python exceptions are explicit error values, never defaults. *)
From Coq Require Import ZArith QArith Bool List Lia.
From PV Require Import Base.Num Base.FVal.
Import ListNotations.

Inductive draw :=
  | DUnif (q : xq)          (* result of random.uniform(a, b)                     *)
  | DIdx (n : nat)          (* result of randrange(n) / randint / choice index / roulette *)
  | DBit (b : bool)         (* result of getrandbits(1)                           *)
  | DGauss (q : xq)         (* result of random.gauss(mu, sigma)                  *)
  | DPerm (p : list nat)    (* result of shuffle (as a permutation of indices)    *)
  | DSample (l : list nat)  (* result of sample                                   *)
  | DVal (v : fval)         (* a value produced by unmodelled float arithmetic    *)
  | DRand (q : xq).         (* result of random.random(): a float in [0, 1)       *)

Definition tape := list draw.

Inductive err :=
  | ETape      (* tape exhausted or ill-typed: not a behaviour of the code *)
  | EFuel      (* a while-loop ran out of model fuel (theorems show it cannot) *)
  | EZeroDiv   (* ZeroDivisionError *)
  | EIndex     (* IndexError *)
  | EValue     (* ValueError   (randrange(0), normalize of a zero vector) *)
  | EType      (* TypeError / AttributeError (operator applied to a foreign variable type) *)
  | EArity     (* PlatypusError("unexpected number of offspring ...") *)
  | EDomain.   (* a power with a negative base: builtin pow returns a COMPLEX number (TypeError at the next
                  comparison), math.pow raises ValueError — the value leaves the reals *)

Inductive res (A : Type) := Ok (a : A) | Err (e : err).
Arguments Ok {A} _.
Arguments Err {A} _.

Definition bind {A B} (r : res A) (f : A -> res B) : res B :=
  match r with Ok a => f a | Err e => Err e end.

Declare Scope res_scope.
Delimit Scope res_scope with res.
Notation "x <- c1 ;; c2" := (bind c1 (fun x => c2))
  (at level 61, c1 at next level, right associativity) : res_scope.
Notation "' pat <- c1 ;; c2" := (bind c1 (fun x => match x with pat => c2 end))
  (at level 61, pat pattern, c1 at next level, right associativity) : res_scope.
Open Scope res_scope.

Definition is_ok {A} (r : res A) : bool := match r with Ok _ => true | Err _ => false end.

(* "no Python exception": the only way a model run fails is a bad tape *)
Definition py_safe {A} (r : res A) : Prop :=
  match r with Ok _ => True | Err e => e = ETape end.

(* ---- consuming one draw ---- *)
Definition get_unif (t : tape) : res (xq * tape) :=
  match t with DUnif q :: r => Ok (q, r) | _ => Err ETape end.

(* random.uniform(lb, ub) with its range contract lb <= q <= ub *)
Definition get_unif_in (lb ub : xq) (t : tape) : res (xq * tape) :=
  match t with
  | DUnif q :: r => if xleb lb q && xleb q ub then Ok (q, r) else Err ETape
  | _ => Err ETape
  end.

(* random.randrange(n): ValueError for n = 0, otherwise an index below n *)
Definition get_idx (n : nat) (t : tape) : res (nat * tape) :=
  match n with
  | O => Err EValue
  | _ => match t with
         | DIdx i :: r => if Nat.ltb i n then Ok (i, r) else Err ETape
         | _ => Err ETape
         end
  end.

Definition get_bit (t : tape) : res (bool * tape) :=
  match t with DBit b :: r => Ok (b, r) | _ => Err ETape end.

Definition get_gauss (t : tape) : res (xq * tape) :=
  match t with DGauss q :: r => Ok (q, r) | _ => Err ETape end.

Definition get_val (t : tape) : res (fval * tape) :=
  match t with DVal v :: r => Ok (v, r) | _ => Err ETape end.

(* random.random() with its range contract 0 <= r < 1 (as an exact rational) *)
Definition get_rand (t : tape) : res (Q * tape) :=
  match t with
  | DRand (Fin r) :: rest => if Qle_bool 0 r && negb (Qle_bool 1 r) then Ok (r, rest) else Err ETape
  | _ => Err ETape
  end.

(* n consecutive draws of one kind *)
Fixpoint get_unifs (n : nat) (t : tape) : res (list xq * tape) :=
  match n with
  | O => Ok ([], t)
  | S k => '(q, t1) <- get_unif t ;; '(l, t2) <- get_unifs k t1 ;; Ok (q :: l, t2)
  end.

Fixpoint get_gausses (n : nat) (t : tape) : res (list xq * tape) :=
  match n with
  | O => Ok ([], t)
  | S k => '(q, t1) <- get_gauss t ;; '(l, t2) <- get_gausses k t1 ;; Ok (q :: l, t2)
  end.

(* ---- facts ---- *)
Lemma get_idx_ok n t i t' : get_idx n t = Ok (i, t') -> (i < n)%nat /\ t = DIdx i :: t'.
Proof.
  unfold get_idx. destruct n; [discriminate|].
  destruct t as [|[] r]; try discriminate.
  destruct (Nat.ltb n0 (S n)) eqn:E; [|discriminate].
  intro H; inversion H; subst. split; [now apply Nat.ltb_lt|reflexivity].
Qed.

Lemma get_idx_safe n t : (0 < n)%nat -> py_safe (get_idx n t).
Proof.
  intro H. unfold get_idx. destruct n; [lia|].
  destruct t as [|[] r]; simpl; auto. destruct (Nat.ltb n0 (S n)); simpl; auto.
Qed.

Lemma get_unif_safe t : py_safe (get_unif t).
Proof. destruct t as [|[] r]; simpl; auto. Qed.
Lemma get_unif_in_safe lb ub t : py_safe (get_unif_in lb ub t).
Proof. destruct t as [|[] r]; simpl; auto. destruct (_ && _); simpl; auto. Qed.
Lemma get_bit_safe t : py_safe (get_bit t).
Proof. destruct t as [|[] r]; simpl; auto. Qed.
Lemma get_gauss_safe t : py_safe (get_gauss t).
Proof. destruct t as [|[] r]; simpl; auto. Qed.
Lemma get_val_safe t : py_safe (get_val t).
Proof. destruct t as [|[] r]; simpl; auto. Qed.

Lemma get_unif_ok t q t' : get_unif t = Ok (q, t') -> t = DUnif q :: t'.
Proof. destruct t as [|[] r]; simpl; try discriminate. intro H; now inversion H. Qed.
Lemma get_bit_ok t b t' : get_bit t = Ok (b, t') -> t = DBit b :: t'.
Proof. destruct t as [|[] r]; simpl; try discriminate. intro H; now inversion H. Qed.
Lemma get_val_ok t v t' : get_val t = Ok (v, t') -> t = DVal v :: t'.
Proof. destruct t as [|[] r]; simpl; try discriminate. intro H; now inversion H. Qed.
Lemma get_unif_in_ok lb ub t q t' : get_unif_in lb ub t = Ok (q, t') ->
  t = DUnif q :: t' /\ xleb lb q = true /\ xleb q ub = true.
Proof.
  destruct t as [|[] r]; simpl; try discriminate.
  destruct (xleb lb q0 && xleb q0 ub) eqn:E; [|discriminate].
  apply andb_true_iff in E. intro H; inversion H; subst. tauto.
Qed.

Lemma bind_ok {A B} (r : res A) (f : A -> res B) b :
  bind r f = Ok b -> exists a, r = Ok a /\ f a = Ok b.
Proof. destruct r; simpl; [eauto|discriminate]. Qed.

Lemma py_safe_bind {A B} (r : res A) (f : A -> res B) :
  py_safe r -> (forall a, r = Ok a -> py_safe (f a)) -> py_safe (bind r f).
Proof. destruct r; simpl; auto. Qed.

Lemma get_rand_ok t r t' : get_rand t = Ok (r, t') -> t = DRand (Fin r) :: t' /\ (0 <= r)%Q /\ (r < 1)%Q.
Proof.
  destruct t as [|d rest]; simpl; try discriminate. destruct d; try discriminate.
  destruct q as [|q|]; try discriminate.
  destruct (Qle_bool 0 q) eqn:A; simpl; [|discriminate]. destruct (Qle_bool 1 q) eqn:B; simpl; [discriminate|].
  intro H; inversion H; subst. split; [reflexivity|]. split.
  - now apply Qle_bool_iff.
  - apply Qnot_le_lt. intro C. apply Qle_bool_iff in C. congruence.
Qed.
