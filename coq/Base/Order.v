(* Base/Order.v — the order laws comparison-only models rely on, and the proof
   that the executable carrier xq satisfies them. *)
From Coq Require Import ZArith QArith Bool List Lia Lqa.
From PV Require Import Base.Num.

(* A strict weak order with an order-reversing involution: exactly what the
   comparison-only code uses of floats (NaN excluded). *)
Record OrdLaws (V : Type) (ltb : V -> V -> bool) (neg : V -> V) : Prop := {
  ol_irrefl : forall x, ltb x x = false;
  ol_trans  : forall x y z, ltb x y = true -> ltb y z = true -> ltb x z = true;
  ol_cotrans : forall x y z, ltb x y = true -> ltb x z = true \/ ltb z y = true;
  ol_neg : forall x y, ltb (neg x) (neg y) = ltb y x
}.

Lemma Qltb_lt a b : Qltb a b = true <-> (a < b)%Q.
Proof.
  unfold Qltb. rewrite negb_true_iff. split; intro H.
  - apply Qnot_le_lt. intro C. apply Qle_bool_iff in C. congruence.
  - destruct (Qle_bool b a) eqn:E; [|reflexivity].
    apply Qle_bool_iff in E. exfalso. apply (Qlt_not_le _ _ H E).
Qed.

Lemma Qltb_false a b : Qltb a b = false <-> (b <= a)%Q.
Proof.
  unfold Qltb. rewrite negb_false_iff. apply Qle_bool_iff.
Qed.

Lemma xq_laws : OrdLaws xq xltb xneg.
Proof.
  split.
  - intros [| x |]; simpl; try reflexivity. apply Qltb_false. apply Qle_refl.
  - intros [|x|] [|y|] [|z|]; simpl; try congruence; try reflexivity.
    rewrite !Qltb_lt. intros; eapply Qlt_trans; eauto.
  - intros [|x|] [|y|] [|z|]; simpl; try congruence; auto.
    rewrite !Qltb_lt. intros H.
    destruct (Qlt_le_dec x z) as [L|L]; [left; exact L|right].
    eapply Qle_lt_trans; eauto.
  - intros [|x|] [|y|]; simpl; try reflexivity.
    destruct (Qltb y x) eqn:E.
    + apply Qltb_lt. apply Qltb_lt in E. apply Qopp_lt_compat. exact E.
    + apply Qltb_false. apply Qltb_false in E. apply Qopp_le_compat. exact E.
Qed.

Section Derived.
  Context {V : Type} {ltb : V -> V -> bool} {neg : V -> V}.
  Hypothesis L : OrdLaws V ltb neg.

  Definition eqv (a b : V) : bool := negb (ltb a b) && negb (ltb b a).

  Lemma ltb_asym x y : ltb x y = true -> ltb y x = false.
  Proof.
    intro H. destruct (ltb y x) eqn:E; [|reflexivity].
    pose proof (ol_trans _ _ _ L _ _ _ H E) as C. rewrite (ol_irrefl _ _ _ L) in C. discriminate.
  Qed.

  Lemma eqv_refl x : eqv x x = true.
  Proof. unfold eqv. now rewrite (ol_irrefl _ _ _ L). Qed.

  Lemma eqv_sym x y : eqv x y = eqv y x.
  Proof. unfold eqv. apply andb_comm. Qed.

  Lemma eqv_trans x y z : eqv x y = true -> eqv y z = true -> eqv x z = true.
  Proof.
    unfold eqv. rewrite !andb_true_iff, !negb_true_iff. intros [A B] [C D]. split.
    - destruct (ltb x z) eqn:E; [|reflexivity].
      destruct (ol_cotrans _ _ _ L _ _ y E); congruence.
    - destruct (ltb z x) eqn:E; [|reflexivity].
      destruct (ol_cotrans _ _ _ L _ _ y E); congruence.
  Qed.

  Lemma ltb_eqv_l x y z : eqv x y = true -> ltb x z = ltb y z.
  Proof.
    unfold eqv. rewrite andb_true_iff, !negb_true_iff. intros [A B].
    destruct (ltb x z) eqn:E1, (ltb y z) eqn:E2; try reflexivity.
    - destruct (ol_cotrans _ _ _ L _ _ y E1); congruence.
    - destruct (ol_cotrans _ _ _ L _ _ x E2); congruence.
  Qed.

  Lemma ltb_eqv_r x y z : eqv x y = true -> ltb z x = ltb z y.
  Proof.
    unfold eqv. rewrite andb_true_iff, !negb_true_iff. intros [A B].
    destruct (ltb z x) eqn:E1, (ltb z y) eqn:E2; try reflexivity.
    - destruct (ol_cotrans _ _ _ L _ _ y E1); congruence.
    - destruct (ol_cotrans _ _ _ L _ _ x E2); congruence.
  Qed.

  Lemma le_lt_trans x y z : ltb y x = false -> ltb y z = true -> ltb x z = true.
  Proof.
    intros A B. destruct (ol_cotrans _ _ _ L _ _ x B); congruence.
  Qed.

  Lemma lt_le_trans x y z : ltb x y = true -> ltb z y = false -> ltb x z = true.
  Proof.
    intros A B. destruct (ol_cotrans _ _ _ L _ _ z A); congruence.
  Qed.

  Lemma le_trans x y z : ltb y x = false -> ltb z y = false -> ltb z x = false.
  Proof.
    intros A B. destruct (ltb z x) eqn:E; [|reflexivity].
    destruct (ol_cotrans _ _ _ L _ _ y E); congruence.
  Qed.
End Derived.
