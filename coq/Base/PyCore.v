(* Base/PyCore.v — hand-written prelude of the GENERATED file Gen/Core.v
   (harness/translate/py2coq_core.py).  Everything the generated code mentions that
   is not standard library is defined here, together with the few generic lemmas the
   Tie/*.v proofs use to unroll loops.  Nothing here depends on a hand-written model.

   READING OF PYTHON fixed by this file (the translator's trusted part, with the table
   at the top of py2coq_core.py):

   numbers   A Python float-valued expression lives in an abstract carrier V that comes
             with a record [NumOps V] of the operations the code may apply to it:
               a < b   = n_lt a b        a > b   = n_lt b a
               a <= b  = n_le a b        a >= b  = n_le b a
               a == b  = n_eq a b        a != b  = negb (n_eq a b)
               -a, a+b, a-b, a*b, abs(a), math.floor(a)  = n_neg, n_add, n_sub, n_mul, n_abs, n_floor
               a / b   = py_div a b  (ZeroDivisionError when b == 0, else n_div a b)
               a numeric literal in a float position = n_lit q, q the EXACT rational value
               of the literal (a float literal is its binary64 value), an int-valued
               expression in a float position = n_of_Z z.
             Nothing is assumed about the record: a Tie lemma says for which records
             (all of them / those whose n_eq is the order equivalence / the exact-Q record
             [Qops]) the generated function is the hand model.
             Python ints are Z with the Z operations; bools are bool.
   control   A block of statements denotes a [ctl S R]:
               Next s   fell off the end of the block with the live assigned locals = s
               Ret r    executed "return r"
               Raise    raised an exception (IndexError, ZeroDivisionError, or one raised by
                        a callee); never replaced by a default value
             sequencing is [bind]; a partial expression is [get]; a function whose body is
             translated in this style returns [finish body : option R] (None = exception).
   loops     "for i in range(n): body" = [for_range n body s0] : left-to-right iteration over
             0, 1, ..., n-1 (nothing when n <= 0) threading the assigned locals, stopping at the
             first Ret/Raise.  "for x in xs" over a list is [for_list].
             "while c: body" is [while_fuel]: explicit fuel, out of fuel = Raise.
   lists     xs[i] = py_index xs i (negative i counts from the end; out of range = IndexError),
             [f(x) for x in xs] = map / map_opt, any(bools) = existsb id,
             itertools.compress = py_compress, a + b on lists = app, list(xs) = xs. *)
From Coq Require Import ZArith QArith Qabs Qround Bool List Lia.
Import ListNotations.
Open Scope Z_scope.

(* ------------------------------------------------------------------ numbers *)
Record NumOps (V : Type) : Type := {
  n_lt : V -> V -> bool;      (* a < b  *)
  n_le : V -> V -> bool;      (* a <= b *)
  n_eq : V -> V -> bool;      (* a == b *)
  n_neg : V -> V;             (* -a *)
  n_add : V -> V -> V;
  n_sub : V -> V -> V;
  n_mul : V -> V -> V;
  n_div : V -> V -> V;        (* a / b for b != 0 *)
  n_abs : V -> V;             (* abs(a) *)
  n_floor : V -> Z;           (* math.floor(a) *)
  n_of_Z : Z -> V;            (* an int used where a float is expected *)
  n_lit : Q -> V              (* a literal, by its exact value *)
}.
Arguments n_lt {V} _ _ _.
Arguments n_le {V} _ _ _.
Arguments n_eq {V} _ _ _.
Arguments n_neg {V} _ _.
Arguments n_add {V} _ _ _.
Arguments n_sub {V} _ _ _.
Arguments n_mul {V} _ _ _.
Arguments n_div {V} _ _ _.
Arguments n_abs {V} _ _.
Arguments n_floor {V} _ _.
Arguments n_of_Z {V} _ _.
Arguments n_lit {V} _ _.

(* exact rational arithmetic (the carrier of the Q models): every field is the
   standard-library operation *)
Definition Qops : NumOps Q := {|
  n_lt := fun a b => negb (Qle_bool b a);
  n_le := Qle_bool;
  n_eq := Qeq_bool;
  n_neg := Qopp; n_add := Qplus; n_sub := Qminus; n_mul := Qmult; n_div := Qdiv;
  n_abs := Qabs;
  n_floor := Qfloor;
  n_of_Z := inject_Z;
  n_lit := fun q => q
|}.

(* a / b : ZeroDivisionError when b == 0 *)
Definition py_div {V} (O : NumOps V) (a b : V) : option V :=
  if n_eq O b (n_lit O 0%Q) then None else Some (n_div O a b).

(* Python's builtins on two positional arguments (Python/bltinmodule.c min_max):
   min(a, b) keeps a unless b < a ; max(a, b) keeps a unless b > a *)
Definition py_min {V} (O : NumOps V) (a b : V) : V := if n_lt O b a then b else a.
Definition py_max {V} (O : NumOps V) (a b : V) : V := if n_lt O a b then b else a.

(* a bool used as an int: True == 1 *)
Definition b2z (b : bool) : Z := if b then 1 else 0.

(* ------------------------------------------------------------------ control *)
Inductive ctl (S R : Type) : Type :=
| Next (s : S)
| Ret (r : R)
| Raise.
Arguments Next {S R} _.
Arguments Ret {S R} _.
Arguments Raise {S R}.

Definition bind {S S' R} (c : ctl S R) (k : S -> ctl S' R) : ctl S' R :=
  match c with Next s => k s | Ret r => Ret r | Raise => Raise end.

(* evaluate a partial expression, then continue *)
Definition get {A S R} (o : option A) (k : A -> ctl S R) : ctl S R :=
  match o with Some a => k a | None => Raise end.

(* result of a whole function body (the translator has checked that it cannot fall off
   the end, so [Next] does not occur; it is mapped to None like an exception) *)
Definition finish {R} (c : ctl unit R) : option R :=
  match c with Ret r => Some r | _ => None end.

(* ------------------------------------------------------------------ loops *)
Fixpoint for_list {I S R} (body : I -> S -> ctl S R) (l : list I) (s : S) : ctl S R :=
  match l with
  | [] => Next s
  | i :: l' =>
      match body i s with
      | Next s' => for_list body l' s'
      | Ret r => Ret r
      | Raise => Raise
      end
  end.

(* range(n) *)
Definition zrange (n : Z) : list Z := map Z.of_nat (seq 0 (Z.to_nat n)).

Definition for_range {S R} (n : Z) (body : Z -> S -> ctl S R) (s : S) : ctl S R :=
  for_list body (zrange n) s.

(* range(lo, hi) and range(hi, lo, -1) *)
Definition zrange2 (lo hi : Z) : list Z := map (fun k => lo + Z.of_nat k) (seq 0 (Z.to_nat (hi - lo))).
Definition zrange_down (hi lo : Z) : list Z := map (fun k => hi - Z.of_nat k) (seq 0 (Z.to_nat (hi - lo))).
Definition for_range2 {S R} (lo hi : Z) (body : Z -> S -> ctl S R) (s : S) : ctl S R := for_list body (zrange2 lo hi) s.
Definition for_range_down {S R} (hi lo : Z) (body : Z -> S -> ctl S R) (s : S) : ctl S R := for_list body (zrange_down hi lo) s.

(* [v] * n *)
Definition py_repeat {A} (v : A) (n : Z) : list A := repeat v (Z.to_nat n).

(* while cond(s): s = body(s)   — cond and body may raise / return *)
Fixpoint while_fuel {S R} (fuel : nat) (cond : S -> bool) (body : S -> ctl S R) (s : S) : ctl S R :=
  if cond s then
    match fuel with
    | O => Raise
    | Datatypes.S f =>
        match body s with
        | Next s' => while_fuel f cond body s'
        | Ret r => Ret r
        | Raise => Raise
        end
    end
  else Next s.

(* ------------------------------------------------------------------ lists *)
(* xs[i] *)
Definition py_index {A} (l : list A) (i : Z) : option A :=
  let j := if i <? 0 then i + Z.of_nat (length l) else i in
  if j <? 0 then None else nth_error l (Z.to_nat j).

(* xs[i] = v : functional update; IndexError = None; a negative i counts from the end *)
Fixpoint list_upd {A} (l : list A) (i : nat) (v : A) : list A :=
  match l, i with
  | [], _ => []
  | _ :: r, O => v :: r
  | x :: r, S i' => x :: list_upd r i' v
  end.
Definition py_set {A} (l : list A) (i : Z) (v : A) : option (list A) :=
  let j := if i <? 0 then i + Z.of_nat (length l) else i in
  if j <? 0 then None else if j <? Z.of_nat (length l) then Some (list_upd l (Z.to_nat j) v) else None.

(* len(xs) *)
Definition py_len {A} (l : list A) : Z := Z.of_nat (length l).

(* [f(x) for x in xs] where f may raise: the first exception aborts *)
Fixpoint map_opt {A B} (f : A -> option B) (l : list A) : option (list B) :=
  match l with
  | [] => Some []
  | x :: r =>
      match f x with
      | None => None
      | Some y => match map_opt f r with None => None | Some ys => Some (y :: ys) end
      end
  end.

(* sequencing of two partial expressions inside a comprehension element *)
Definition obind {A B} (o : option A) (k : A -> option B) : option B :=
  match o with Some a => k a | None => None end.

(* sum(xs): starts from the int 0 and adds left to right *)
Definition py_sum {V} (O : NumOps V) (l : list V) : V := fold_left (n_add O) l (n_lit O 0%Q).

(* min(xs) / max(xs) on a list: ValueError on the empty list; keeps the earlier element unless a later one is
   strictly smaller / larger *)
Definition py_list_min {V} (O : NumOps V) (l : list V) : option V :=
  match l with [] => None | x :: r => Some (fold_left (py_min O) r x) end.
Definition py_list_max {V} (O : NumOps V) (l : list V) : option V :=
  match l with [] => None | x :: r => Some (fold_left (py_max O) r x) end.

(* a % b on ints: ZeroDivisionError when b == 0; the sign follows the divisor (Z.modulo) *)
Definition py_mod (a b : Z) : option Z := if b =? 0 then None else Some (a mod b).

(* xs[:k] for an int k: a negative k counts from the end *)
Definition py_upto_z {A} (k : Z) (l : list A) : list A :=
  firstn (Z.to_nat (if k <? 0 then Z.max 0 (k + Z.of_nat (length l)) else k)) l.

(* itertools.compress(data, selectors): stops at the shorter one *)
Fixpoint py_compress {A} (data : list A) (sel : list bool) : list A :=
  match data, sel with
  | d :: data', b :: sel' => if b then d :: py_compress data' sel' else py_compress data' sel'
  | _, _ => []
  end.

(* any(bools) *)
Definition py_any (l : list bool) : bool := existsb (fun b => b) l.

(* zip(a, b) *)
Definition py_zip {A B} (a : list A) (b : list B) : list (A * B) := combine a b.

(* xs[:k] and xs[k:] for a literal k >= 0 ; xs[:-1] *)
Definition py_upto {A} (k : nat) (l : list A) : list A := firstn k l.
Definition py_from {A} (k : nat) (l : list A) : list A := skipn k l.
Definition py_but_last {A} (l : list A) : list A := removelast l.

(* ------------------------------------------------------------------ lemmas *)
Lemma zrange_0 : zrange 0 = [].
Proof. reflexivity. Qed.

Lemma zrange_succ (n : nat) : zrange (Z.of_nat (S n)) = 0 :: map Z.succ (zrange (Z.of_nat n)).
Proof.
  unfold zrange. rewrite !Nat2Z.id. cbn [seq map]. f_equal.
  rewrite <- seq_shift, !map_map. apply map_ext. intro a. apply Nat2Z.inj_succ.
Qed.

Lemma for_list_map {I J S R} (f : J -> I) (body : I -> S -> ctl S R) (l : list J) (s : S) :
  for_list body (map f l) s = for_list (fun j => body (f j)) l s.
Proof.
  revert s. induction l as [|j l IH]; intro s; cbn [map for_list]; [reflexivity|].
  destruct (body (f j) s); auto.
Qed.

Lemma for_range_0 {S R} (body : Z -> S -> ctl S R) (s : S) : for_range 0 body s = Next s.
Proof. reflexivity. Qed.

(* one iteration: the rest of the loop runs the body shifted by one *)
Lemma for_range_succ {S R} (n : nat) (body : Z -> S -> ctl S R) (s : S) :
  for_range (Z.of_nat (Datatypes.S n)) body s
  = bind (body 0 s) (fun s' => for_range (Z.of_nat n) (fun i => body (Z.succ i)) s').
Proof.
  unfold for_range. rewrite zrange_succ. cbn [for_list].
  destruct (body 0 s); cbn [bind]; auto. apply for_list_map.
Qed.

Lemma py_index_nat {A} (l : list A) (i : nat) : py_index l (Z.of_nat i) = nth_error l i.
Proof.
  unfold py_index. assert (E : (Z.of_nat i <? 0) = false) by (apply Z.ltb_ge; lia).
  rewrite E. cbv zeta. rewrite E. now rewrite Nat2Z.id.
Qed.

Lemma py_index_succ {A} (a : A) (l : list A) (i : nat) :
  py_index (a :: l) (Z.succ (Z.of_nat i)) = py_index l (Z.of_nat i).
Proof. rewrite <- Nat2Z.inj_succ, !py_index_nat. reflexivity. Qed.

Lemma py_index_0 {A} (a : A) (l : list A) : py_index (a :: l) 0 = Some a.
Proof. reflexivity. Qed.

Lemma py_index_last {A} (l : list A) : l <> [] -> py_index l (-1) = nth_error l (length l - 1).
Proof.
  intro H. unfold py_index. change (-1 <? 0) with true. cbv iota zeta.
  destruct l as [|a l]; [congruence|].
  assert (E : (-1 + Z.of_nat (length (a :: l)) <? 0) = false) by (apply Z.ltb_ge; cbn [length]; lia).
  rewrite E. f_equal. cbn [length]. lia.
Qed.

Lemma bind_assoc {S1 S2 S3 R} (c : ctl S1 R) (k1 : S1 -> ctl S2 R) (k2 : S2 -> ctl S3 R) :
  bind (bind c k1) k2 = bind c (fun s => bind (k1 s) k2).
Proof. destruct c; reflexivity. Qed.

Lemma map_opt_total {A B} (f : A -> B) (l : list A) : map_opt (fun x => Some (f x)) l = Some (map f l).
Proof. induction l as [|x l IH]; cbn [map_opt map]; [reflexivity|]. now rewrite IH. Qed.

(* a loop whose body never returns / raises is a fold *)
Lemma for_list_total {I S R} (f : S -> I -> S) (l : list I) (s : S) :
  for_list (fun i st => @Next S R (f st i)) l s = Next (fold_left f l s).
Proof. revert s. induction l as [|i l IH]; intro s; cbn [for_list fold_left]; [reflexivity|]. apply IH. Qed.

Lemma for_list_ext {I S R} (f g : I -> S -> ctl S R) (l : list I) (s : S) :
  (forall i st, f i st = g i st) -> for_list f l s = for_list g l s.
Proof.
  intro H. revert s. induction l as [|i l IH]; intro s; cbn [for_list]; [reflexivity|].
  rewrite H. destruct (g i s); auto.
Qed.

(* xs[-1] on a non-empty list is its last element *)
Lemma py_index_m1 {A} (l : list A) (d : A) : l <> [] -> py_index l (-1) = Some (last l d).
Proof.
  intro H. rewrite (py_index_last l H).
  rewrite (app_removelast_last d H) at 1 2.
  rewrite app_length. cbn [length]. replace (length (removelast l) + 1 - 1)%nat with (length (removelast l)) by lia.
  rewrite nth_error_app2 by lia. now rewrite Nat.sub_diag.
Qed.

Lemma py_upto_z_nat {A} (k : nat) (l : list A) : py_upto_z (Z.of_nat k) l = firstn k l.
Proof.
  unfold py_upto_z. assert (E : (Z.of_nat k <? 0) = false) by (apply Z.ltb_ge; lia). rewrite E. now rewrite Nat2Z.id.
Qed.

Lemma map_opt_map {A B C} (f : B -> option C) (g : A -> B) (l : list A) :
  map_opt f (map g l) = map_opt (fun a => f (g a)) l.
Proof. induction l as [|a l IH]; cbn [map map_opt]; [reflexivity|]. destruct (f (g a)); [|reflexivity]. now rewrite IH. Qed.

Lemma map_opt_ext_in {A B} (f g : A -> option B) (l : list A) :
  (forall x, In x l -> f x = g x) -> map_opt f l = map_opt g l.
Proof.
  induction l as [|a l IH]; intro H; cbn [map_opt]; [reflexivity|].
  rewrite (H a (or_introl eq_refl)). destruct (g a); [|reflexivity].
  rewrite IH; [reflexivity|]. intros x Hx. apply H. now right.
Qed.

Lemma while_fuel_ext {S R} (c1 c2 : S -> bool) (b1 b2 : S -> ctl S R) :
  (forall s, c1 s = c2 s) -> (forall s, b1 s = b2 s) ->
  forall fuel s, while_fuel fuel c1 b1 s = while_fuel fuel c2 b2 s.
Proof.
  intros Hc Hb. induction fuel as [|f IH]; intro s; cbn [while_fuel]; rewrite Hc; [reflexivity|].
  rewrite Hb. destruct (c2 s); [|reflexivity]. destruct (b2 s); auto.
Qed.

(* "for e in es: obj = h(e, obj)" is a left fold *)
Lemma for_list_hook {E S R} (h : E -> S -> S) (l : list E) (s : S) :
  for_list (fun e w => @Next S R (h e w)) l s = Next (fold_left (fun w e => h e w) l s).
Proof. exact (for_list_total (fun w e => h e w) l s). Qed.

Lemma py_set_nat {A} (l : list A) (i : nat) (v : A) :
  (i < length l)%nat -> py_set l (Z.of_nat i) v = Some (list_upd l i v).
Proof.
  intro H. unfold py_set.
  assert (E : (Z.of_nat i <? 0) = false) by (apply Z.ltb_ge; lia). rewrite E. cbv zeta. rewrite E.
  assert (E2 : (Z.of_nat i <? Z.of_nat (length l)) = true) by (apply Z.ltb_lt; lia). rewrite E2.
  now rewrite Nat2Z.id.
Qed.

Lemma list_upd_length {A} (l : list A) (i : nat) (v : A) : length (list_upd l i v) = length l.
Proof. revert i. induction l as [|x l IH]; intros [|i]; cbn [list_upd length]; auto. Qed.

Lemma nth_error_nth' {A} (l : list A) (i : nat) (d : A) : (i < length l)%nat -> nth_error l i = Some (nth i l d).
Proof. revert i. induction l as [|x l IH]; intros [|i] H; cbn [length nth_error nth] in *; try lia; auto. apply IH. lia. Qed.
