(* Base/Num.v — numeric carriers shared by all models.

   xq  = Q extended with -inf / +inf : the exact value of every non-NaN binary64
         float (each finite float is the dyadic rational m * 2^e).
   The harness ships a float as [F m e] (m odd or 0, from math.frexp).
   Comparison and negation of floats are exact operations, so for
   comparison-only code a model over xq is exactly faithful to float execution. *)
From Coq Require Import ZArith QArith Qminmax Bool List Lia.
Import ListNotations.
Open Scope Z_scope.

Inductive xq := NInf | Fin (q : Q) | PInf.

(* m * 2^e as a rational *)
Definition dy (m e : Z) : Q :=
  if (0 <=? e)%Z then Qmake (Z.shiftl m e) 1
  else Qmake m (Z.to_pos (Z.shiftl 1 (- e))).

Definition F (m e : Z) : xq := Fin (dy m e).
Definition FZ (z : Z) : xq := Fin (inject_Z z).

Definition Qltb (a b : Q) : bool := negb (Qle_bool b a).
Definition Qeqb (a b : Q) : bool := Qeq_bool a b.

Definition xltb (a b : xq) : bool :=
  match a, b with
  | NInf, NInf => false
  | NInf, _ => true
  | _, NInf => false
  | PInf, _ => false
  | _, PInf => true
  | Fin x, Fin y => Qltb x y
  end.

Definition xleb (a b : xq) : bool := negb (xltb b a).
Definition xeqb (a b : xq) : bool := negb (xltb a b) && negb (xltb b a).

Definition xneg (a : xq) : xq :=
  match a with NInf => PInf | PInf => NInf | Fin x => Fin (Qopp x) end.

Definition xzero : xq := Fin 0%Q.

(* structural "same value" test used by the correspondence checks *)
Definition xsame (a b : xq) : bool :=
  match a, b with
  | NInf, NInf => true | PInf, PInf => true
  | Fin x, Fin y => Qeq_bool x y
  | _, _ => false
  end.

(* Python's min/max on two arguments: min(a,b) returns a unless b < a;
   max(a,b) returns a unless b > a. *)
Definition xmin (a b : xq) : xq := if xltb b a then b else a.
Definition xmax (a b : xq) : xq := if xltb a b then b else a.

(* Partial arithmetic on xq for the places where the code adds infinities
   (crowding distance): inf + finite = inf; -inf + inf is NaN in Python and is
   reported as None. *)
Definition xadd (a b : xq) : option xq :=
  match a, b with
  | Fin x, Fin y => Some (Fin (x + y)%Q)
  | PInf, NInf | NInf, PInf => None
  | PInf, _ | _, PInf => Some PInf
  | NInf, _ | _, NInf => Some NInf
  end.

(* indices of the cases on which a boolean check fails; the harness prints this *)
Fixpoint bad_from {A} (chk : A -> bool) (l : list A) (i : nat) : list nat :=
  match l with
  | [] => []
  | x :: r => if chk x then bad_from chk r (S i) else i :: bad_from chk r (S i)
  end.
Definition bad_indices {A} (chk : A -> bool) (l : list A) : list nat := bad_from chk l 0.
