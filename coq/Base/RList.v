(* Base/RList.v — hand-written prelude of the Python -> Gallina translator
   (harness/translate/py2coq.py, property C18).

   Part 1: the DEFINITIONS the generated file coq/Gen/Problems.v is written in.  They fix the
   translator's reading of the Python constructs it accepts (real-number semantics: Python floats
   are read as real numbers, Python ints as Z):
     sum(L)                          sum_list L          (left fold, start 0)
     functools.reduce(mul, L, 1)     prod_list L         (left fold, start 1)
     range(a, b)                     zrange a b
     L[i] / L[a:] / L[:b] / L[a:b]   py_nth / py_from / py_upto / py_slice   (negative indices count from the end,
                                     slice bounds are clamped, exactly as CPython does)
     L[i] = v                        py_set L i v
     [c]*n                           py_repeat c n       (n <= 0 gives [])
     for i in range(a,b): f[i] op= E(i)    loop_upd f a b (fun i v => ...)   (body reads and writes f[i] only)
     math.pow(a, b), a ** b          a ^ n  when b is a literal with a natural-number value,
                                     py_rpow a b otherwise
     math.floor / math.ceil          py_floor / py_ceil  (results are Python ints = Z)
     a < b, a <= b on floats         Rltb / Rleb
   Python raises where the Gallina functions are total (x / 0 = 0, sqrt of a negative = 0, nth
   outside = 0, ...).  The translator therefore emits, next to every <f>_eval, a predicate <f>_defined
   collecting the side conditions under which no Python exception is raised (idx_ok, <> 0, 0 <=,
   rpow_ok, length agreement of slice assignments); theorems are stated under / prove <f>_defined.

   Part 2: lemmas about these definitions used by Proofs/Problems*.v. *)
From Coq Require Import Reals List ZArith Lia Lra Bool.
Import ListNotations.
Open Scope R_scope.

(* ------------------------------------------------------------------ definitions *)
Definition sum_list (l : list R) : R := fold_left Rplus l 0.
Definition prod_list (l : list R) : R := fold_left Rmult l 1.

Definition zrange (a b : Z) : list Z :=
  map (fun k => (a + Z.of_nat k)%Z) (seq 0 (Z.to_nat (b - a))).

Definition zlen (l : list R) : Z := Z.of_nat (length l).

(* CPython: a negative index i stands for len + i; slice bounds are clamped into [0, len]
   (Z.to_nat clamps below, firstn/skipn clamp above). *)
Definition norm_idx (len : nat) (i : Z) : nat :=
  if (i <? 0)%Z then Z.to_nat (Z.of_nat len + i) else Z.to_nat i.

Definition py_from (l : list R) (a : Z) : list R := skipn (norm_idx (length l) a) l.
Definition py_upto (l : list R) (b : Z) : list R := firstn (norm_idx (length l) b) l.
Definition py_slice (l : list R) (a b : Z) : list R :=
  firstn (norm_idx (length l) b - norm_idx (length l) a) (skipn (norm_idx (length l) a) l).
Definition py_nth (l : list R) (i : Z) : R := nth (norm_idx (length l) i) l 0.
Definition idx_ok (l : list R) (i : Z) : Prop := (- zlen l <= i < zlen l)%Z.   (* no IndexError *)

Definition py_set (l : list R) (i : Z) (v : R) : list R :=
  let k := norm_idx (length l) i in firstn k l ++ v :: skipn (S k) l.

(* L[a:b] = V on a FixedLengthArray (platypus/core.py:54-68): element-wise when the lengths agree
   (side condition slice_len_ok; otherwise the code broadcasts V itself into every slot — the CF8-10 defect) *)
Definition py_set_slice (l : list R) (a b : Z) (v : list R) : list R :=
  firstn (norm_idx (length l) a) l ++ v ++ skipn (norm_idx (length l) b) l.
Definition slice_len_ok (l : list R) (a b : Z) (v : list R) : Prop :=
  length v = (norm_idx (length l) b - norm_idx (length l) a)%nat /\ (norm_idx (length l) b <= length l)%nat.

Definition py_repeat (c : R) (n : Z) : list R := repeat c (Z.to_nat n).

Definition loop_upd (f : list R) (lo hi : Z) (body : Z -> R -> R) : list R :=
  fold_left (fun f i => py_set f i (body i (py_nth f i))) (zrange lo hi) f.

(* math.pow(a, b) for a real exponent: 0**b = 0 for b > 0, 0**0 = 1, a**b = exp(b ln a) for a > 0;
   ValueError/ZeroDivisionError otherwise (rpow_ok is the side condition) *)
Definition py_rpow (a b : R) : R :=
  if Req_EM_T a 0 then (if Req_EM_T b 0 then 1 else 0) else Rpower a b.
Definition rpow_ok (a b : R) : Prop := 0 < a \/ (a = 0 /\ 0 <= b).

Definition py_floor (r : R) : Z := Int_part r.
Definition py_ceil (r : R) : Z := (- Int_part (- r))%Z.

Definition Rltb (a b : R) : bool := if Rlt_dec a b then true else false.
Definition Rleb (a b : R) : bool := if Rle_dec a b then true else false.
Definition Reqb (a b : R) : bool := if Req_EM_T a b then true else false.

(* ------------------------------------------------------------------ big operators (used by the reference formulas) *)
Fixpoint big_sum (f : nat -> R) (n : nat) : R :=       (* f 0 + ... + f (n-1) *)
  match n with O => 0 | S m => big_sum f m + f m end.
Fixpoint big_prod (f : nat -> R) (n : nat) : R :=      (* f 0 * ... * f (n-1) *)
  match n with O => 1 | S m => big_prod f m * f m end.

(* ------------------------------------------------------------------ lemmas: sums and products *)
Lemma fold_plus_acc : forall l a, fold_left Rplus l a = a + fold_left Rplus l 0.
Proof. induction l as [|h t IH]; intros a; simpl; [lra|]. rewrite IH, (IH (0 + h)). lra. Qed.
Lemma fold_mult_acc : forall l a, fold_left Rmult l a = a * fold_left Rmult l 1.
Proof. induction l as [|h t IH]; intros a; simpl; [lra|]. rewrite IH, (IH (1 * h)). ring. Qed.

Lemma sum_list_nil : sum_list [] = 0. Proof. reflexivity. Qed.
Lemma sum_list_cons : forall h t, sum_list (h :: t) = h + sum_list t.
Proof. intros. unfold sum_list. simpl. rewrite fold_plus_acc. lra. Qed.
Lemma sum_list_app : forall a b, sum_list (a ++ b) = sum_list a + sum_list b.
Proof. induction a as [|h t IH]; intros b; simpl; [rewrite sum_list_nil; lra|]. rewrite !sum_list_cons, IH. lra. Qed.
Lemma prod_list_nil : prod_list [] = 1. Proof. reflexivity. Qed.
Lemma prod_list_cons : forall h t, prod_list (h :: t) = h * prod_list t.
Proof. intros. unfold prod_list. simpl. rewrite fold_mult_acc. ring. Qed.
Lemma prod_list_app : forall a b, prod_list (a ++ b) = prod_list a * prod_list b.
Proof. induction a as [|h t IH]; intros b; simpl; [rewrite prod_list_nil; ring|]. rewrite !prod_list_cons, IH. ring. Qed.
(* reduce(mul, L, c) with another start value *)
Lemma fold_mult_start : forall l c, fold_left Rmult l c = c * prod_list l.
Proof. intros. unfold prod_list. apply fold_mult_acc. Qed.
Lemma fold_plus_start : forall l c, fold_left Rplus l c = c + sum_list l.
Proof. intros. unfold sum_list. apply fold_plus_acc. Qed.

Lemma big_sum_ext : forall n f g, (forall i, (i < n)%nat -> f i = g i) -> big_sum f n = big_sum g n.
Proof. induction n as [|n IH]; intros f g H; simpl; [reflexivity|]. rewrite (IH f g), H; auto. Qed.
Lemma big_prod_ext : forall n f g, (forall i, (i < n)%nat -> f i = g i) -> big_prod f n = big_prod g n.
Proof. induction n as [|n IH]; intros f g H; simpl; [reflexivity|]. rewrite (IH f g), H; auto. Qed.

Lemma sum_list_map_seq : forall (f : nat -> R) n s,
  sum_list (map f (seq s n)) = big_sum (fun i => f (s + i)%nat) n.
Proof.
  intros f n. induction n as [|n IH]; intros s; [reflexivity|].
  rewrite seq_S, map_app, sum_list_app, IH. simpl. rewrite sum_list_cons, sum_list_nil.
  replace (s + n)%nat with (s + n)%nat by lia. lra.
Qed.
Lemma prod_list_map_seq : forall (f : nat -> R) n s,
  prod_list (map f (seq s n)) = big_prod (fun i => f (s + i)%nat) n.
Proof.
  intros f n. induction n as [|n IH]; intros s; [reflexivity|].
  rewrite seq_S, map_app, prod_list_app, IH. simpl. rewrite prod_list_cons, prod_list_nil. ring.
Qed.

Lemma nth_map_lt : forall {A} (f : A -> R) (l : list A) i (dA : A), (i < length l)%nat ->
  nth i (map f l) 0 = f (nth i l dA).
Proof. intros A f l. induction l as [|a l IH]; simpl; intros [|i] dA H; try lia; auto. apply IH. lia. Qed.

Lemma nth_firstn_lt' : forall (l : list R) n i, (i < n)%nat -> nth i (firstn n l) 0 = nth i l 0.
Proof. induction l as [|a l IH]; intros [|n] [|i] H; simpl; try lia; auto. apply IH. lia. Qed.
Lemma nth_skipn' : forall (l : list R) n i, nth i (skipn n l) 0 = nth (n + i) l 0.
Proof. induction l as [|a l IH]; intros [|n] i; simpl; auto. now destruct i. Qed.

(* a list as the sequence of its elements *)
Lemma list_as_map_nth : forall (l : list R), l = map (fun i => nth i l 0) (seq 0 (length l)).
Proof.
  intros l. apply nth_ext with (d := 0) (d' := 0).
  - now rewrite map_length, seq_length.
  - intros i Hi. rewrite (nth_map_lt _ _ _ 0%nat) by now rewrite seq_length.
    now rewrite seq_nth.
Qed.
Lemma sum_list_big : forall l, sum_list l = big_sum (fun i => nth i l 0) (length l).
Proof. intros l. rewrite (list_as_map_nth l) at 1. now rewrite sum_list_map_seq. Qed.
Lemma prod_list_big : forall l, prod_list l = big_prod (fun i => nth i l 0) (length l).
Proof. intros l. rewrite (list_as_map_nth l) at 1. now rewrite prod_list_map_seq. Qed.
Lemma sum_list_map_big : forall (h : R -> R) l, sum_list (map h l) = big_sum (fun i => h (nth i l 0)) (length l).
Proof.
  intros h l. rewrite sum_list_big, map_length. apply big_sum_ext. intros i Hi.
  now rewrite (nth_map_lt _ _ _ 0).
Qed.
Lemma prod_list_map_big : forall (h : R -> R) l, prod_list (map h l) = big_prod (fun i => h (nth i l 0)) (length l).
Proof.
  intros h l. rewrite prod_list_big, map_length. apply big_prod_ext. intros i Hi.
  now rewrite (nth_map_lt _ _ _ 0).
Qed.

Lemma big_sum_ge : forall n f c, (forall i, (i < n)%nat -> c <= f i) -> INR n * c <= big_sum f n.
Proof.
  induction n as [|n IH]; intros f c H.
  - simpl. lra.
  - rewrite S_INR. simpl. specialize (IH f c). assert (c <= f n) by (apply H; lia).
    assert (INR n * c <= big_sum f n) by (apply IH; intros; apply H; lia). lra.
Qed.
Lemma big_sum_nonneg : forall n f, (forall i, (i < n)%nat -> 0 <= f i) -> 0 <= big_sum f n.
Proof. intros n f H. pose proof (big_sum_ge n f 0 H). lra. Qed.
Lemma big_sum_scal : forall n f c, big_sum (fun i => c * f i) n = c * big_sum f n.
Proof. induction n as [|n IH]; intros; simpl; [ring|]. rewrite IH. ring. Qed.
Lemma big_sum_rev : forall n f, big_sum f n = big_sum (fun i => f (n - 1 - i)%nat) n.
Proof.
  induction n as [|n IH]; intros f; [reflexivity|].
  simpl big_sum at 1. rewrite IH.
  (* rhs: sum_{i<S n} f (n - i) = sum_{i<n} f (n - (i+1)) + f n  after shifting *)
  assert (SH : forall m (g : nat -> R), big_sum g (S m) = g 0%nat + big_sum (fun i => g (S i)) m).
  { induction m as [|m IHm]; intros g; simpl; [lra|]. simpl in IHm. rewrite IHm. lra. }
  rewrite (SH n). replace (S n - 1 - 0)%nat with n by lia.
  rewrite Rplus_comm. f_equal. apply big_sum_ext. intros i Hi. f_equal. lia.
Qed.
Lemma big_sum_shift : forall m (g : nat -> R), big_sum g (S m) = g 0%nat + big_sum (fun i => g (S i)) m.
Proof. induction m as [|m IHm]; intros g; simpl; [lra|]. simpl in IHm. rewrite IHm. lra. Qed.

(* the telescope behind DTLZ1 (c = x, s = 1 - x) and DTLZ2-4 (c = cos^2, s = sin^2) *)
Lemma telescope : forall (c s : nat -> R) n, (forall m, (m < n)%nat -> c m + s m = 1) ->
  big_sum (fun m => big_prod c m * s m) n = 1 - big_prod c n.
Proof.
  intros c s. induction n as [|n IH]; intros H; simpl; [lra|].
  rewrite IH by (intros; apply H; lia). assert (E : c n + s n = 1) by (apply H; lia).
  replace (s n) with (1 - c n) by lra. ring.
Qed.

(* ------------------------------------------------------------------ lemmas: ranges, indices, slices *)
Lemma zrange_nat : forall n : nat, zrange 0 (Z.of_nat n) = map Z.of_nat (seq 0 n).
Proof. intros. unfold zrange. rewrite Z.sub_0_r, Nat2Z.id. apply map_ext. intros; lia. Qed.
Lemma zrange_from : forall (a b : Z) (n : nat), (b - a = Z.of_nat n)%Z ->
  zrange a b = map (fun k => (a + Z.of_nat k)%Z) (seq 0 n).
Proof. intros a b n H. unfold zrange. now rewrite H, Nat2Z.id. Qed.
Lemma zrange_length : forall a b, length (zrange a b) = Z.to_nat (b - a).
Proof. intros. unfold zrange. now rewrite map_length, seq_length. Qed.
Lemma in_zrange : forall a b i, In i (zrange a b) <-> (a <= i < b)%Z.
Proof.
  intros a b i. unfold zrange. rewrite in_map_iff. split.
  - intros [k [<- Hk]]. apply in_seq in Hk. lia.
  - intros H. exists (Z.to_nat (i - a)). split; [lia|]. apply in_seq. lia.
Qed.

Lemma norm_idx_nonneg : forall len i, (0 <= i)%Z -> norm_idx len i = Z.to_nat i.
Proof. intros len i H. unfold norm_idx. destruct (Z.ltb_spec i 0); [lia|reflexivity]. Qed.
Lemma norm_idx_nat : forall len (k : nat), norm_idx len (Z.of_nat k) = k.
Proof. intros. rewrite norm_idx_nonneg by lia. apply Nat2Z.id. Qed.
Lemma norm_idx_neg : forall len i, (i < 0)%Z -> norm_idx len i = Z.to_nat (Z.of_nat len + i).
Proof. intros len i H. unfold norm_idx. destruct (Z.ltb_spec i 0); [reflexivity|lia]. Qed.

Lemma py_nth_nat : forall l (k : nat), py_nth l (Z.of_nat k) = nth k l 0.
Proof. intros. unfold py_nth. now rewrite norm_idx_nat. Qed.
Lemma py_nth_nonneg : forall l i, (0 <= i)%Z -> py_nth l i = nth (Z.to_nat i) l 0.
Proof. intros. unfold py_nth. now rewrite norm_idx_nonneg. Qed.
Lemma py_nth_last : forall l, py_nth l (-1) = nth (length l - 1) l 0.
Proof. intros. unfold py_nth. rewrite norm_idx_neg by lia. f_equal. lia. Qed.
Lemma py_from_nonneg : forall l a, (0 <= a)%Z -> py_from l a = skipn (Z.to_nat a) l.
Proof. intros. unfold py_from. now rewrite norm_idx_nonneg. Qed.
Lemma py_upto_nonneg : forall l b, (0 <= b)%Z -> py_upto l b = firstn (Z.to_nat b) l.
Proof. intros. unfold py_upto. now rewrite norm_idx_nonneg. Qed.
Lemma py_slice_nonneg : forall l a b, (0 <= a)%Z -> (0 <= b)%Z ->
  py_slice l a b = firstn (Z.to_nat b - Z.to_nat a) (skipn (Z.to_nat a) l).
Proof. intros. unfold py_slice. now rewrite !norm_idx_nonneg. Qed.
Lemma py_from_0 : forall l, py_from l 0 = l.
Proof. intros. now rewrite py_from_nonneg by lia. Qed.

Lemma py_repeat_length : forall c n, length (py_repeat c n) = Z.to_nat n.
Proof. intros. apply repeat_length. Qed.
Lemma nth_repeat_lt : forall (c : R) n i, (i < n)%nat -> nth i (repeat c n) 0 = c.
Proof. intros c n i H. revert i H. induction n as [|n IH]; intros [|i] H; simpl; try lia; auto. apply IH. lia. Qed.

Lemma py_set_length : forall l i v, (norm_idx (length l) i < length l)%nat -> length (py_set l i v) = length l.
Proof.
  intros l i v H. unfold py_set. cbv zeta. rewrite app_length. cbn [length]. rewrite firstn_length, skipn_length. lia.
Qed.
Lemma nth_py_set_nat : forall l (k j : nat) v, (k < length l)%nat ->
  nth j (py_set l (Z.of_nat k) v) 0 = if Nat.eqb j k then v else nth j l 0.
Proof.
  intros l k j v H. unfold py_set. rewrite norm_idx_nat. cbv zeta.
  destruct (Nat.eqb_spec j k) as [->|N].
  - rewrite app_nth2; rewrite firstn_length; [|lia]. replace (k - Nat.min k (length l))%nat with 0%nat by lia. reflexivity.
  - destruct (Nat.lt_ge_cases j k).
    + rewrite app_nth1 by (rewrite firstn_length; lia). apply nth_firstn_lt'. assumption.
    + rewrite app_nth2; rewrite firstn_length; [|lia]. replace (Nat.min k (length l)) with k by lia.
      destruct (j - k)%nat as [|d] eqn:E; [lia|]. cbn [nth]. rewrite nth_skipn'. f_equal. lia.
Qed.

(* the pointwise-update loop computes, slot by slot, body i (f[i]) *)
Lemma loop_upd_nat : forall (n : nat) f body, length f = n ->
  loop_upd f 0 (Z.of_nat n) body = map (fun k => body (Z.of_nat k) (nth k f 0)) (seq 0 n).
Proof.
  intros n f body Hl. unfold loop_upd. rewrite zrange_nat.
  assert (G : forall m, (m <= n)%nat ->
     let r := fold_left (fun f i => py_set f i (body i (py_nth f i))) (map Z.of_nat (seq 0 m)) f in
     length r = n /\ forall j, nth j r 0 = if Nat.ltb j m then body (Z.of_nat j) (nth j f 0) else nth j f 0).
  { induction m as [|m IH]; intros Hm; cbv zeta.
    - simpl. split; [assumption|]. intros j. reflexivity.
    - rewrite seq_S, map_app, fold_left_app. simpl.
      destruct (IH ltac:(lia)) as [L1 N1]. cbv zeta in L1, N1.
      set (r := fold_left _ (map Z.of_nat (seq 0 m)) f) in *.
      split.
      + rewrite py_set_length; [assumption|]. rewrite norm_idx_nat. lia.
      + intros j. rewrite nth_py_set_nat by lia. rewrite py_nth_nat, N1.
        destruct (Nat.eqb_spec j m) as [->|N].
        * rewrite Nat.ltb_irrefl. destruct (Nat.ltb_spec m (S m)); [reflexivity|lia].
        * rewrite N1. destruct (Nat.ltb_spec j m), (Nat.ltb_spec j (S m)); try reflexivity; lia. }
  destruct (G n (le_n n)) as [L N]. cbv zeta in L, N.
  apply nth_ext with (d := 0) (d' := 0).
  - now rewrite map_length, seq_length.
  - intros j Hj. rewrite N.
    rewrite (nth_map_lt _ _ _ 0%nat) by (rewrite seq_length; lia). rewrite seq_nth by lia. simpl. destruct (Nat.ltb_spec j n); [reflexivity|lia].
Qed.


Lemma prod_list_map_firstn : forall (h : R -> R) l n, (n <= length l)%nat ->
  prod_list (map h (firstn n l)) = big_prod (fun j => h (nth j l 0)) n.
Proof.
  intros h l n H. rewrite prod_list_map_big, firstn_length. replace (Nat.min n (length l)) with n by lia.
  apply big_prod_ext. intros i Hi. now rewrite nth_firstn_lt'.
Qed.
Lemma sum_list_map_skipn : forall (h : R -> R) l n, (n <= length l)%nat ->
  sum_list (map h (skipn n l)) = big_sum (fun j => h (nth (n + j) l 0)) (length l - n).
Proof.
  intros h l n H. rewrite sum_list_map_big, skipn_length. apply big_sum_ext. intros i Hi. now rewrite nth_skipn'.
Qed.
Lemma sum_list_map_firstn : forall (h : R -> R) l n, (n <= length l)%nat ->
  sum_list (map h (firstn n l)) = big_sum (fun j => h (nth j l 0)) n.
Proof.
  intros h l n H. rewrite sum_list_map_big, firstn_length. replace (Nat.min n (length l)) with n by lia.
  apply big_sum_ext. intros i Hi. now rewrite nth_firstn_lt'.
Qed.

(* ------------------------------------------------------------------ tactics *)
(* make the arguments of two occurrences of the same function syntactically equal when field/lra proves them equal *)
Ltac same_arg f :=
  repeat match goal with
  | |- context [f ?a] =>
      match goal with
      | |- context [f ?b] =>
          tryif constr_eq a b then fail else
          (let H := fresh in assert (H : a = b) by (try field; try lra); rewrite H; clear H)
      end
  end.
