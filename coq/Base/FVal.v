(* Base/FVal.v — float VALUES including NaN, with Python's comparison semantics.

   fval = FNaN | FX x   where x : xq is the exact value of a non-NaN binary64
   float (a dyadic rational or -inf / +inf, see Base/Num.v).

   Every comparison with NaN is false (IEEE / CPython float_richcompare).
   Python's builtins on two positional arguments:
       min(a, b)  keeps a unless  b < a     (Python/bltinmodule.c min_max, op = Py_LT)
       max(a, b)  keeps a unless  b > a     (op = Py_GT)
   so argument ORDER matters as soon as a NaN is involved.  With these,
       clip(value, lb, ub) = max(lb, min(value, ub))          platypus/_math.py:32-33
   is written literally as  fmax lb (fmin v ub).

   This file holds the definitions AND the small lemmas about them (it is a Base
   file; C01/C07 import it). *)
From Coq Require Import ZArith QArith Bool List Lia.
From PV Require Import Base.Num Base.Order.
Import ListNotations.
Open Scope Z_scope.

Inductive fval := FNaN | FX (x : xq).

(* a < b *)
Definition fltb (a b : fval) : bool :=
  match a, b with FX x, FX y => xltb x y | _, _ => false end.
(* a > b *)
Definition fgtb (a b : fval) : bool := fltb b a.
(* a <= b   (NOT the negation of b < a : false on NaN) *)
Definition fleb (a b : fval) : bool :=
  match a, b with FX x, FX y => xleb x y | _, _ => false end.
Definition fgeb (a b : fval) : bool := fleb b a.
(* a == b (numeric) *)
Definition feqb (a b : fval) : bool :=
  match a, b with FX x, FX y => xeqb x y | _, _ => false end.

Definition is_nan (a : fval) : bool := match a with FNaN => true | _ => false end.

(* Python min(a, b) / max(a, b) on two positional arguments *)
Definition fmin (a b : fval) : fval := if fltb b a then b else a.
Definition fmax (a b : fval) : fval := if fgtb b a then b else a.

(* platypus/_math.py:32-33   def clip(value, min_value, max_value):
                                 return max(min_value, min(value, max_value)) *)
Definition clip (value min_value max_value : fval) : fval :=
  fmax min_value (fmin value max_value).

(* the WRONG argument order min(max(v,lb),ub) — kept for the refutation example
   (a NaN candidate survives it) *)
Definition clip_reordered (value min_value max_value : fval) : fval :=
  fmin (fmax value min_value) max_value.

(* structural identity used by the correspondence checks: NaN is the same as NaN *)
Definition fsame (a b : fval) : bool :=
  match a, b with
  | FNaN, FNaN => true
  | FX x, FX y => xsame x y
  | _, _ => false
  end.

Definition xfinite (x : xq) : bool := match x with Fin _ => true | _ => false end.

(* "a real inside its bounds and not NaN" — the in-domain predicate for Real variables *)
Definition in_boundsb (lb ub : xq) (v : fval) : bool :=
  match v with FX x => xleb lb x && xleb x ub | FNaN => false end.
Definition in_bounds (lb ub : xq) (v : fval) : Prop := in_boundsb lb ub v = true.

(* ------------------------------------------------------------------ lemmas *)

Lemma xleb_refl x : xleb x x = true.
Proof. unfold xleb. now rewrite (ol_irrefl _ _ _ xq_laws). Qed.

Lemma xltb_xleb x y : xltb x y = true -> xleb x y = true.
Proof.
  intro H. unfold xleb. now rewrite (ltb_asym xq_laws _ _ H).
Qed.

Lemma xleb_trans x y z : xleb x y = true -> xleb y z = true -> xleb x z = true.
Proof.
  unfold xleb. rewrite !negb_true_iff. intros A B.
  destruct (xltb z x) eqn:E; [|reflexivity].
  destruct (ol_cotrans _ _ _ xq_laws _ _ y E); congruence.
Qed.

(* THE clip theorem: whatever the candidate value is (any float, +-inf, NaN),
   the result lies in [lb, ub] and is not NaN — provided lb <= ub. *)
Theorem clip_range_x : forall (v : fval) (lb ub : xq),
  xleb lb ub = true ->
  exists r, clip v (FX lb) (FX ub) = FX r /\ xleb lb r = true /\ xleb r ub = true.
Proof.
  intros v lb ub Hle. unfold clip, fmin, fmax, fgtb.
  destruct v as [|x]; cbn [fltb].
  - (* NaN: min(NaN, ub) = NaN ; max(lb, NaN) = lb *)
    exists lb. repeat split; auto using xleb_refl.
  - destruct (xltb ub x) eqn:E1; cbn [fltb].
    + (* x > ub : min = ub *)
      destruct (xltb lb ub) eqn:E2.
      * exists ub. repeat split; auto using xleb_refl.
      * exists lb. repeat split; auto using xleb_refl.
    + destruct (xltb lb x) eqn:E2.
      * exists x. repeat split.
        -- now apply xltb_xleb.
        -- unfold xleb. now rewrite E1.
      * exists lb. repeat split; auto using xleb_refl.
Qed.

Theorem clip_in_bounds : forall v lb ub, xleb lb ub = true -> in_bounds lb ub (clip v (FX lb) (FX ub)).
Proof.
  intros v lb ub H. destruct (clip_range_x v lb ub H) as (r & E & A & B).
  unfold in_bounds, in_boundsb. rewrite E, A, B. reflexivity.
Qed.

Theorem clip_not_nan : forall v lb ub, is_nan (clip v (FX lb) (FX ub)) = false.
Proof.
  intros v lb ub. unfold clip, fmin, fmax, fgtb.
  destruct v as [|x]; cbn [fltb]; [reflexivity|].
  destruct (xltb ub x); cbn [fltb]; [destruct (xltb lb ub)| destruct (xltb lb x)]; reflexivity.
Qed.

(* finite bounds give a finite result *)
Theorem clip_finite : forall v lb ub, xleb lb ub = true -> xfinite lb = true -> xfinite ub = true ->
  exists q, clip v (FX lb) (FX ub) = FX (Fin q).
Proof.
  intros v lb ub H Fl Fu. destruct (clip_range_x v lb ub H) as (r & E & A & B).
  destruct r as [|q|].
  - destruct lb; simpl in *; try discriminate.
  - eauto.
  - destruct ub; simpl in *; try discriminate.
Qed.

(* a value already inside the bounds is returned unchanged *)
Lemma clip_id : forall x lb ub, xleb lb x = true -> xleb x ub = true ->
  clip (FX x) (FX lb) (FX ub) = FX x \/ (clip (FX x) (FX lb) (FX ub) = FX lb /\ xeqb lb x = true).
Proof.
  intros x lb ub A B. unfold clip, fmin, fmax, fgtb. cbn [fltb].
  unfold xleb in B. rewrite negb_true_iff in B. rewrite B. cbn [fltb].
  destruct (xltb lb x) eqn:E; [now left|right]. split; [reflexivity|].
  unfold xeqb. rewrite E. unfold xleb in A. now rewrite A.
Qed.

(* the reordered clip lets a NaN candidate through: min(max(NaN,lb),ub) = NaN *)
Example clip_reordered_nan : forall lb ub, clip_reordered FNaN (FX lb) (FX ub) = FNaN.
Proof. reflexivity. Qed.

Example clip_nan_is_lb : forall lb ub, clip FNaN (FX lb) (FX ub) = FX lb.
Proof. reflexivity. Qed.

Example clip_examples :
  clip (FX PInf) (FX (FZ 0)) (FX (FZ 1)) = FX (FZ 1) /\
  clip (FX NInf) (FX (FZ 0)) (FX (FZ 1)) = FX (FZ 0) /\
  clip (FX (F 1 (-1))) (FX (FZ 0)) (FX (FZ 1)) = FX (F 1 (-1)).
Proof. repeat split; vm_compute; reflexivity. Qed.
