(* Base/StableSort.v — a stable insertion sort standing for Python's sorted(key=...)
   and sorted(key=..., reverse=True), with the proofs that make the choice of
   algorithm immaterial: permutation, sortedness, stability, and uniqueness of
   the stable sorted permutation (any stable sort returns the same list).

   [lt a b] is "key(a) < key(b)".  sorted(l, key) = ssort lt l.
   sorted(l, key, reverse=True) = ssort (fun a b => lt b a) l   (CPython keeps the
   original order of equal keys in reverse mode too). *)
From Coq Require Import Bool List Lia Permutation Sorted.
Import ListNotations.

Record StrictWeak {A : Type} (lt : A -> A -> bool) : Prop := {
  sw_irrefl : forall x, lt x x = false;
  sw_trans : forall x y z, lt x y = true -> lt y z = true -> lt x z = true;
  sw_cotrans : forall x y z, lt x y = true -> lt x z = true \/ lt z y = true
}.

Section StableSort.
  Variable A : Type.
  Variable lt : A -> A -> bool.

  (* x goes after every y with key(y) < key(x) and before the first y with key(y) >= key(x) *)
  Fixpoint insert (x : A) (l : list A) : list A :=
    match l with
    | [] => [x]
    | y :: r => if lt y x then y :: insert x r else x :: y :: r
    end.

  Definition ssort (l : list A) : list A := fold_right insert [] l.

  (* same key *)
  Definition keq (x y : A) : bool := negb (lt x y) && negb (lt y x).
  (* "a may stand before b" *)
  Definition le_rel (a b : A) : Prop := lt b a = false.

  Lemma insert_perm x l : Permutation (insert x l) (x :: l).
  Proof.
    induction l as [|y r IH]; simpl; [reflexivity|].
    destruct (lt y x); [|reflexivity].
    eapply perm_trans; [apply perm_skip, IH|apply perm_swap].
  Qed.

  Theorem ssort_perm l : Permutation (ssort l) l.
  Proof.
    induction l as [|x l IH]; simpl; [constructor|].
    eapply perm_trans; [apply insert_perm|]. now constructor.
  Qed.

  Lemma ssort_length l : length (ssort l) = length l.
  Proof. apply Permutation_length, ssort_perm. Qed.

  Lemma ssort_In l x : In x (ssort l) <-> In x l.
  Proof.
    split; apply Permutation_in; [apply ssort_perm|apply Permutation_sym, ssort_perm].
  Qed.

  Hypothesis SW : StrictWeak lt.

  Lemma lt_asym x y : lt x y = true -> lt y x = false.
  Proof.
    intro H. destruct (lt y x) eqn:E; [|reflexivity].
    pose proof (sw_trans lt SW _ _ _ H E) as C. rewrite (sw_irrefl lt SW) in C. discriminate.
  Qed.

  Lemma le_rel_trans x y z : le_rel x y -> le_rel y z -> le_rel x z.
  Proof.
    unfold le_rel. intros Hxy Hyz. destruct (lt z x) eqn:E; [|reflexivity].
    destruct (sw_cotrans lt SW _ _ y E); congruence.
  Qed.

  Lemma keq_refl x : keq x x = true.
  Proof. unfold keq. now rewrite (sw_irrefl lt SW). Qed.

  Lemma keq_sym x y : keq x y = keq y x.
  Proof. unfold keq. apply andb_comm. Qed.

  Lemma keq_trans x y z : keq x y = true -> keq y z = true -> keq x z = true.
  Proof.
    unfold keq. rewrite !andb_true_iff, !negb_true_iff. intros [H1 H2] [H3 H4]. split.
    - destruct (lt x z) eqn:E; [|reflexivity]. destruct (sw_cotrans lt SW _ _ y E); congruence.
    - destruct (lt z x) eqn:E; [|reflexivity]. destruct (sw_cotrans lt SW _ _ y E); congruence.
  Qed.

  Lemma insert_sorted x l : StronglySorted le_rel l -> StronglySorted le_rel (insert x l).
  Proof.
    induction l as [|y r IH]; intro Hs; simpl.
    - constructor; constructor.
    - inversion Hs as [|y' r' Hr Hy]; subst. destruct (lt y x) eqn:E.
      + constructor; [now apply IH|].
        apply Forall_forall. intros z Hz.
        apply (Permutation_in _ (insert_perm x r)) in Hz. destruct Hz as [<-|Hz].
        * unfold le_rel. now apply lt_asym.
        * rewrite Forall_forall in Hy. now apply Hy.
      + constructor; [assumption|]. constructor; [exact E|].
        apply Forall_forall. intros z Hz. rewrite Forall_forall in Hy.
        apply (le_rel_trans x y z); [exact E|now apply Hy].
  Qed.

  Theorem ssort_sorted l : StronglySorted le_rel (ssort l).
  Proof. induction l as [|x l IH]; simpl; [constructor|now apply insert_sorted]. Qed.

  Lemma insert_stable z x l : filter (keq z) (insert x l) = filter (keq z) (x :: l).
  Proof.
    induction l as [|y r IH]; [reflexivity|]. simpl insert. destruct (lt y x) eqn:E; [|reflexivity].
    simpl in *. rewrite IH.
    destruct (keq z x) eqn:Ex; [|reflexivity].
    destruct (keq z y) eqn:Ey; [|reflexivity].
    exfalso. rewrite keq_sym in Ey. pose proof (keq_trans _ _ _ Ey Ex) as K.
    unfold keq in K. rewrite E in K. discriminate.
  Qed.

  (* elements with the same key keep their original relative order *)
  Theorem ssort_stable l z : filter (keq z) (ssort l) = filter (keq z) l.
  Proof.
    induction l as [|x l IH]; [reflexivity|]. simpl ssort. rewrite insert_stable. simpl. now rewrite IH.
  Qed.

  (* a sorted, stable permutation of l is THE sorted list: any stable sort computes ssort *)
  Theorem stable_sort_unique : forall s l',
    StronglySorted le_rel s -> StronglySorted le_rel l' -> Permutation s l' ->
    (forall z, filter (keq z) l' = filter (keq z) s) -> l' = s.
  Proof.
    induction s as [|a s IH]; intros l' Hs Hl' HP Hf.
    - apply Permutation_nil in HP. assumption.
    - destruct l' as [|b l']; [apply Permutation_sym, Permutation_nil_cons in HP; contradiction|].
      inversion Hs as [|a' s' Hs1 Ha]; subst. inversion Hl' as [|b' l'' Hl1 Hb]; subst.
      assert (Hab : keq a b = true).
      { unfold keq. rewrite andb_true_iff, !negb_true_iff. split.
        - assert (In a (b :: l')) by (eapply Permutation_in; [exact HP|now left]).
          destruct H as [->|H]; [apply (sw_irrefl lt SW)|]. rewrite Forall_forall in Hb. now apply Hb.
        - assert (In b (a :: s)) by (eapply Permutation_in; [apply Permutation_sym; exact HP|now left]).
          destruct H as [->|H]; [apply (sw_irrefl lt SW)|]. rewrite Forall_forall in Ha. now apply Ha. }
      pose proof (Hf a) as F. simpl in F. rewrite keq_refl, Hab in F. injection F as Eba _. subst b.
      f_equal. apply IH; try assumption.
      + eapply Permutation_cons_inv; eassumption.
      + intro z. pose proof (Hf z) as G. simpl in G. destruct (keq z a); [now injection G|assumption].
  Qed.

  Corollary ssort_unique l l' : Permutation l l' -> StronglySorted le_rel l' ->
    (forall z, filter (keq z) l' = filter (keq z) l) -> l' = ssort l.
  Proof.
    intros HP Hs Hf. apply stable_sort_unique; try assumption.
    - apply ssort_sorted.
    - eapply perm_trans; [apply ssort_perm|assumption].
    - intro z. now rewrite ssort_stable.
  Qed.

  (* in a sorted list nothing in a suffix sorts strictly before anything in the prefix *)
  Lemma sorted_app_le l1 l2 : StronglySorted le_rel (l1 ++ l2) ->
    forall x y, In x l1 -> In y l2 -> lt y x = false.
  Proof.
    induction l1 as [|a l1 IH]; intros Hs x y Hx Hy; [contradiction|].
    simpl in Hs. inversion Hs as [|a' r Hr Ha]; subst. destruct Hx as [<-|Hx].
    - rewrite Forall_forall in Ha. apply Ha. apply in_or_app. now right.
    - now apply (IH Hr x y).
  Qed.

  Corollary ssort_cut_le l k x y : In x (firstn k (ssort l)) -> In y (skipn k (ssort l)) -> lt y x = false.
  Proof.
    apply sorted_app_le. rewrite firstn_skipn. apply ssort_sorted.
  Qed.
End StableSort.

Arguments insert {A} _ _ _.
Arguments ssort {A} _ _.
Arguments keq {A} _ _ _.
Arguments le_rel {A} _ _ _.

(* reversing the order keeps the laws (sorted(..., reverse=True)) *)
Lemma StrictWeak_flip {A} (lt : A -> A -> bool) : StrictWeak lt -> StrictWeak (fun a b => lt b a).
Proof.
  intros [I T C]. split.
  - intro x. apply I.
  - intros x y z H1 H2. eapply T; eauto.
  - intros x y z H. destruct (C _ _ z H); auto.
Qed.

(* an order induced by a key function into a strict weak order *)
Lemma StrictWeak_key {A B} (ltb : B -> B -> bool) (key : A -> B) :
  StrictWeak ltb -> StrictWeak (fun a b => ltb (key a) (key b)).
Proof.
  intros [I T C]. split.
  - intro x. apply I.
  - intros x y z. apply T.
  - intros x y z. apply C.
Qed.
