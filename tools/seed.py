#!/venv/bin/python
"""Seeded-change tooling.

  tools/seed.py verify <PROP> <dir> <k> [name]   confirm a candidate change (patch<k>.diff, demo<k>.py, note<k>.txt in <dir>):
                                                 demo passes on the unchanged tree, fails with the patch, test suite still 181 passed;
                                                 if confirmed, store it as /verif/seeded/<PROP>-<name>/
  tools/seed.py run [<seed-id> ...] [--tier quick]  apply each stored change to a scratch copy of /repo and run the property's check
                                                 against it (VERIF_REPO); prints caught / MISSED and rewrites seeded/RESULTS.md
Scratch copies live under /var/tmp/seedwork and are removed afterwards.
"""
import json
import os
import re
import shutil
import subprocess
import sys
import time

VERIF = os.path.dirname(os.path.dirname(os.path.abspath(__file__)))
WORK = "/var/tmp/seedwork"
PYTEST = ["/venv/bin/python", "-m", "pytest", "-q", "-p", "no:cacheprovider", "--timeout=900", "--continue-on-collection-errors"]


def sh(cmd, cwd=None, env=None, timeout=3600):
    p = subprocess.run(cmd, cwd=cwd, env=env, stdout=subprocess.PIPE, stderr=subprocess.STDOUT, text=True, timeout=timeout)
    return p.returncode, p.stdout


def fresh_copy(tag):
    d = os.path.join(WORK, tag)
    shutil.rmtree(d, ignore_errors=True)
    os.makedirs(d)
    rc, out = sh(["rsync", "-a", "--exclude", ".git", "/repo/", os.path.join(d, "repo/")])
    assert rc == 0, out
    return os.path.join(d, "repo")


def env_for(repo):
    e = dict(os.environ)
    e["PYTHONPATH"] = repo
    e["PYTHONHASHSEED"] = "0"
    e["PYTHONDONTWRITEBYTECODE"] = "1"
    return e


def apply_patch(repo, patch):
    rc, out = sh(["patch", "-p1", "--no-backup-if-mismatch", "-d", repo, "-i", patch])
    return rc == 0, out


def verify(prop, src, k, name=None):
    name = name or str(k)
    patch = os.path.join(src, "patch%s.diff" % k)
    demo = os.path.join(src, "demo%s.py" % k)
    note = os.path.join(src, "note%s.txt" % k)
    repo = fresh_copy("%s-%s" % (prop, name))
    res = {}
    rc, out = sh(["/venv/bin/python", demo], cwd=repo, env=env_for(repo), timeout=300)
    res["demo_unchanged_rc"] = rc
    ok, pout = apply_patch(repo, patch)
    res["patch_applies"] = ok
    rc2, out2 = sh(["/venv/bin/python", demo], cwd=repo, env=env_for(repo), timeout=300)
    res["demo_patched_rc"] = rc2
    res["demo_patched_tail"] = out2[-400:]
    rc3, out3 = sh(PYTEST, cwd=repo, env=env_for(repo), timeout=1800)
    m = re.search(r"(\d+) passed", out3)
    res["tests_passed"] = int(m.group(1)) if m else -1
    res["tests_tail"] = out3.strip().splitlines()[-1] if out3.strip() else ""
    confirmed = (res["demo_unchanged_rc"] == 0 and ok and rc2 != 0 and res["tests_passed"] == 181)
    res["confirmed"] = confirmed
    shutil.rmtree(os.path.dirname(repo), ignore_errors=True)
    print(json.dumps(res, indent=1))
    if confirmed:
        dst = os.path.join(VERIF, "seeded", "%s-%s" % (prop, name))
        os.makedirs(dst, exist_ok=True)
        shutil.copy(patch, os.path.join(dst, "patch.diff"))
        shutil.copy(demo, os.path.join(dst, "demo.py"))
        meta = {
            "property": prop,
            "breaks": open(note).read().strip() if os.path.exists(note) else "",
            "needs_to_manifest": "see 'breaks'",
            "origin": "independent sub-agent given only the property text and a scratch worktree",
            "confirmed_by": "tools/seed.py verify: demo exit 0 on unchanged tree, exit %d with patch; pytest %s" % (rc2, res["tests_tail"]),
            "confirmed_at": time.strftime("%Y-%m-%dT%H:%M:%S"),
        }
        with open(os.path.join(dst, "meta.json"), "w") as f:
            json.dump(meta, f, indent=1)
        print("stored", dst)
    return confirmed


def run(ids, tier="quick"):
    sd = os.path.join(VERIF, "seeded")
    if not ids:
        ids = sorted(d for d in os.listdir(sd) if os.path.isdir(os.path.join(sd, d)))
    rows = []
    for sid in ids:
        d = os.path.join(sd, sid)
        meta = json.load(open(os.path.join(d, "meta.json")))
        props = [meta["property"]] + meta.get("also_check", [])
        repo = fresh_copy("run-" + sid)
        ok, out = apply_patch(repo, os.path.join(d, "patch.diff"))
        assert ok, out
        for prop in props:
            if not os.path.exists(os.path.join(VERIF, "harness", "props", prop.lower() + ".py")):
                rows.append((sid, prop, "no-check-yet", ""))
                continue
            e = dict(os.environ)
            e["VERIF_REPO"] = repo
            t = time.time()
            rc, o = sh([os.path.join(VERIF, "check"), prop, "--tier", tier], cwd=VERIF, env=e, timeout=7200)
            vio = [l for l in o.splitlines() if l.startswith("VIOLATION")]
            status = "caught" if (rc == 1 and vio) else "MISSED"
            concrete = "concrete" if any("no-failing-input-found" not in l for l in vio) else ("no-failing-input-found" if vio else "")
            rows.append((sid, prop, status, concrete))
            print("%-28s %-4s %-8s %-24s %.0fs" % (sid, prop, status, concrete, time.time() - t), flush=True)
        shutil.rmtree(os.path.dirname(repo), ignore_errors=True)
    # merge into RESULTS.json
    rp = os.path.join(sd, "RESULTS.json")
    allr = json.load(open(rp)) if os.path.exists(rp) else {}
    for sid, prop, status, concrete in rows:
        allr["%s|%s" % (sid, prop)] = {"seed": sid, "check": prop, "status": status, "detail": concrete, "tier": tier, "at": time.strftime("%Y-%m-%dT%H:%M:%S")}
    with open(rp, "w") as f:
        json.dump(allr, f, indent=1, sort_keys=True)
    return rows


if __name__ == "__main__":
    if sys.argv[1] == "verify":
        sys.exit(0 if verify(*sys.argv[2:]) else 1)
    elif sys.argv[1] == "run":
        a = sys.argv[2:]
        tier = "quick"
        if "--tier" in a:
            i = a.index("--tier")
            tier = a[i + 1]
            a = a[:i] + a[i + 2:]
        rows = run(a, tier)
        sys.exit(0 if all(r[2] != "MISSED" for r in rows) else 1)
