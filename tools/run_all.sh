#!/bin/bash
# Runs every claimed check (harness/READY) against /repo, 4 at a time; prints one summary line per check.
# usage: tools/run_all.sh [quick|thorough] [IDs...]
cd "$(dirname "$0")/.."
tier=${1:-quick}; shift
ids="$@"; [ -z "$ids" ] && ids=$(cat harness/READY)
mkdir -p _build/logs
printf '%s\n' $ids | xargs -P 4 -I{} bash -c "./check {} --tier $tier > _build/logs/{}.$tier.log 2>&1; echo \"{} exit=\$? \$(grep -E '^\[C[0-9]+\] tier' _build/logs/{}.$tier.log | tail -1) \$(grep -c '^VIOLATION' _build/logs/{}.$tier.log) violation-lines \$(grep -c '^KNOWN-FINDING' _build/logs/{}.$tier.log) known\""
